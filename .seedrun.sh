#!/bin/bash
# usage: .seedrun.sh PROP patchfile|none tier [seed]
P=$1; PATCH=$2; TIER=${3:-quick}; SEED=${4:-0}
V=$(mktemp -d)
cp -r /repo/formulaic $V/formulaic
if [ "$PATCH" != "none" ]; then patch -s -p1 -d $V < $PATCH || { echo PATCHFAIL; rm -rf $V; exit 9; }; fi
cd /verif
S=$(date +%s)
PYTHONPATH=$V VERIF_REPO=$V ./check $P --tier $TIER --seed $SEED > $V/out.txt 2>&1
RC=$?
E2=$(date +%s)
echo "== $P $(basename $(dirname $(dirname $PATCH)) 2>/dev/null)/$(basename $PATCH) tier=$TIER seed=$SEED exit=$RC wall=$((E2-S))s"
tail -1 $V/out.txt | cut -c1-200
/verif/.venv/bin/python - $P <<'PY'
import json,sys
ev=json.load(open(f'/verif/evidence/{sys.argv[1]}.json'))
for n in ev['coverage']['notes']:
    if 'failing evaluations' in n: print('   ', n[:1200])
PY
rm -rf $V
