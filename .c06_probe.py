import random, collections, time, sys
from vf.bounded import c06, _nullrows_common as K
rng = random.Random(1)
tasks = list(c06.cross_cases(rng, int(sys.argv[1]) if len(sys.argv)>1 else 2, c06.S_KINDS))
print(len(tasks))
t=time.time()
res = K.run_pool(c06._worker, tasks, chunk=300)
print('wall', time.time()-t)
cnt = collections.Counter(); ex = {}
for n_eval, keys, samples, failures in res:
    for f in failures:
        if 'skipped' in f: cnt[('skipped','')]+=f['skipped']; ex[('skipped','')]={'witness':{'case':''},'detail':''}; continue
        k=(f['clause'], f['cls']); cnt[k]+=1
        ex.setdefault(k, f)
for k,v in sorted(cnt.items()):
    print(v, k)
    print('     ', ex[k]['witness']['case'])
    print('     ', ex[k]['detail'][:200])
