#!/usr/bin/env bash
# Builds /verif/.venv offline: python 3.12 venv overlaying /venv (formulaic editable -> /repo,
# numpy, pandas, scipy, narwhals, pyarrow, hypothesis) plus z3-solver, cvc5, crosshair, deal,
# icontract, sympy, jsonschema from the offline wheelhouse.
set -euo pipefail
cd "$(dirname "$0")"
V=.venv
if [ -x "$V/bin/python" ] && "$V/bin/python" -c "import z3, cvc5, sympy, jsonschema, formulaic, deal" 2>/dev/null; then
  echo "setup: $V already usable"; exit 0
fi
rm -rf "$V"
/venv/bin/python -m venv --without-pip "$V"
echo "import site; site.addsitedir('/venv/lib/python3.12/site-packages')" > "$V/lib/python3.12/site-packages/_overlay.pth"
PIP_NO_INDEX=1 /venv/bin/python -m pip --python "$V/bin/python" install -q --no-index \
  --find-links /opt/veriftools/wheels z3-solver cvc5 crosshair-tool deal icontract sympy jsonschema
"$V/bin/python" -c "import z3, cvc5, sympy, jsonschema, formulaic, deal; print('setup: ok', z3.get_version_string(), formulaic.__file__)"
