#!/bin/bash
# usage: _parser_patch_drivers.sh <worktree> [props...] : class listing of the bounded drivers against <worktree>
WT=${1:-/tmp/fix-parser}; shift
cd /verif
for p in ${@:-c01 c14 c15}; do
  echo "== $p"
  VERIF_REPO=$WT PYTHONPATH=/verif:$WT .venv/bin/python -W ignore -m vf.bounded._parser_selfcheck $p quick 2>&1 | grep -v Warn | grep -v "^   [a-z]" 
done
