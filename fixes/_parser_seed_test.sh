#!/bin/bash
# usage: _parser_seed_test.sh <patch.diff> <prop> [tier]  : drivers of <prop> against a scratch copy of /repo with the patch
D=$(mktemp -d); cp -r /repo/formulaic $D/; patch -s -p1 -d $D < "$1" || { echo "patch failed"; rm -rf $D; exit 9; }
cd /verif
VERIF_REPO=$D PYTHONPATH=/verif:$D .venv/bin/python -W ignore - "$2" "${3:-quick}" <<'PY'
import sys, json, collections, importlib, formulaic
from vf import core
prop, tier = sys.argv[1].upper(), sys.argv[2]
print("formulaic from", formulaic.__file__)
ctx = core.Ctx(prop, tier, 0)
importlib.import_module(f"vf.bounded.{prop.lower()}").run_bounded(ctx)
miss = collections.Counter()
for v in ctx.violations:
    if not ctx._match_known(v): miss[(v["clause"], v["witness"]["cls"])] += 1
print("violations", len(ctx.violations), "not known:", sum(miss.values()))
for k, n in sorted(miss.items()): print("   NEW", k, n)
ex = [v for v in ctx.violations if not ctx._match_known(v)][:2]
for v in ex: print("   e.g.", v["detail"][:260])
PY
rm -rf $D
