#!/usr/bin/env bash
# usage: .run_c12.sh <repo-copy> [tier]   -- runs the C12 bounded driver against a formulaic copy; writes nothing
cd /verif && PYTHONPATH="$1:/verif" PYTHONDONTWRITEBYTECODE=1 .venv/bin/python - "$1" "${2:-quick}" <<'P'
import sys, json
from vf.bounded._stateful_mutate import RUNNER
sys.argv=["-c","C12",sys.argv[2],sys.argv[1]]
exec(RUNNER)
P
