"""Run the three bounded drivers and report which violations the candidate known-findings
entries (fixes/parser_known_findings.json merged over known_findings.json) leave unmatched."""
import json, sys, collections
from vf import core
import importlib
tier = sys.argv[1] if len(sys.argv) > 1 else "quick"
extra = json.load(open("/verif/fixes/parser_known_findings.json"))
for prop in ("C01", "C14", "C15"):
    ctx = core.Ctx(prop, tier, 0)
    ctx._known = list(ctx._known) + extra
    importlib.import_module(f"vf.bounded.{prop.lower()}").run_bounded(ctx)
    hit, miss = collections.Counter(), collections.Counter()
    for v in ctx.violations:
        k = ctx._match_known(v)
        (hit if k else miss)[(k["id"] if k else None, v["clause"], v["witness"]["cls"])] += 1
    print(f"== {prop} {tier}: violations {len(ctx.violations)} matched {sum(hit.values())} unmatched {sum(miss.values())}")
    for k, n in sorted(hit.items()): print("   known  ", k, n)
    for k, n in sorted(miss.items(), key=str): print("   UNMATCHED", k, n)
