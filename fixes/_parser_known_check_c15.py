"""C15 bounded driver for given (tier, seed) pairs with known_findings.json + the round-3 entry merged."""
import json, sys, collections, time
from vf import core
from vf.bounded import c15
extra = json.load(open("/verif/fixes/parser_known_findings_round3.json"))
for arg in sys.argv[1:]:
    tier, seed = arg.split(":")
    ctx = core.Ctx("C15", tier, int(seed))
    ctx._known = list(ctx._known) + extra
    t = time.time(); c15.run_bounded(ctx); dt = time.time() - t
    miss = collections.Counter((v["clause"], v["witness"]["cls"]) for v in ctx.violations if not ctx._match_known(v))
    ev = sum(b.evaluations for b in ctx.bounded_runs)
    print(f"C15 {tier} seed={seed}: evaluations {ev} violations {len(ctx.violations)} unmatched {sum(miss.values())} wall {dt:.1f}s", dict(miss))
    for b in ctx.bounded_runs: print("     ", b.name, b.evaluations, len(b.distinct))
