#!/bin/bash
# usage: _parser_patch_test.sh <worktree>  : runs the repo test suite of <worktree> against BASELINE stable_pass
WT=${1:-/tmp/fix-parser}
OUT=$(mktemp -d)
cd "$WT" && PYTHONPATH="$WT" /venv/bin/python -m pytest -q -p no:cacheprovider --timeout=900 --continue-on-collection-errors --junitxml="$OUT/junit.xml" >"$OUT/pytest.out" 2>&1
PYTHONPATH="$WT" /venv/bin/python - "$OUT/junit.xml" <<'PY'
import json, sys, xml.etree.ElementTree as ET, formulaic
print("formulaic from", formulaic.__file__)
base=set(json.load(open('/root/.vp/BASELINE.json'))['stable_pass'])
t=ET.parse(sys.argv[1]); passed=set()
for tc in t.iter('testcase'):
    name=f"{tc.get('classname')}::{tc.get('name')}"
    if not any(c.tag in('failure','error','skipped') for c in tc): passed.add(name)
miss=base-passed
print("baseline",len(base),"passed now",len(passed),"baseline tests not passing:",len(miss))
for m in sorted(miss)[:20]: print("  REGRESSION",m)
PY
tail -3 "$OUT/pytest.out"
rm -rf "$OUT"
