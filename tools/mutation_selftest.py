#!/usr/bin/env python3
"""Mutation self-test of the checks (DESIGN.md §2.8): applies each textual canary to a scratch copy of
/repo/formulaic (never to /repo), runs the property's check with VERIF_REPO pointing at the copy, and
reports which part of the machinery flags it.  Usage: tools/mutation_selftest.py [ids...] [--tier quick]"""
import json
import os
import shutil
import subprocess
import sys
import tempfile
from pathlib import Path

ROOT = Path(__file__).resolve().parent.parent

# id, property, file (under formulaic/), old text, new text
CANARIES = [
    ("m-c10-off-by-one", "C10", "model_spec.py", "end = start + len(row[2])", "end = start + len(row[2]) - 1"),
    ("m-c10-slices-last", "C10", "model_spec.py", "k: slice(v[0], v[-1] + 1) if v else slice(0, 0)", "k: slice(v[0], v[-1]) if v else slice(0, 0)"),
    ("m-c10-colidx-terms", "C10", "model_spec.py", "return {name: i for i, name in enumerate(self.column_names)}", "return {name: i + 1 for i, name in enumerate(self.column_names)}"),
    ("m-c19-iter-seen", "C19", "utils/layered_mapping.py", "                if key not in keys:\n", "                if key not in keys or len(keys) > 3:\n"),
    ("m-c19-getitem-order", "C19", "utils/layered_mapping.py", "        for layer in [self._mutations, *self._layers]:\n            if key in layer:\n                return layer[key]",
     "        for layer in [*self._layers, self._mutations]:\n            if key in layer:\n                return layer[key]"),
    ("m-c19-setitem-leak", "C19", "utils/layered_mapping.py", "        self._mutations[key] = value", "        (self._layers[0] if self._layers and isinstance(self._layers[0], dict) and len(self._mutations) > 2 else self._mutations)[key] = value"),
    ("m-c20-no-remove", "C20", "utils/calculus.py", "(factors - affected_factors)", "(factors)"),
    ("m-c20-inverted", "C20", "utils/calculus.py", "if not affected_factors:", "if affected_factors and len(factors) > 2:"),
    ("m-c01-resolve-precedence", "C01", "parser/parser.py",
     "                symbol[: m.start(0)]\n                + (\"-\" if len(m.group(0).replace(\"+\", \"\")) % 2 else \"+\")\n                + symbol[m.end(0) :]",
     "                symbol[: m.start(0)] + \"-\"\n                if len(m.group(0).replace(\"+\", \"\")) % 2\n                else \"+\" + symbol[m.end(0) :]"),
    ("m-c01-resolve-parity", "C01", "parser/parser.py", "(\"-\" if len(m.group(0).replace(\"+\", \"\")) % 2 else \"+\")", "(\"-\" if len(m.group(0).replace(\"-\", \"\")) % 2 else \"+\")"),
    ("m-c13-ddof-ignored", "C13", "transforms/scale.py", "numpy.sum(data**2, axis=0) / (data.shape[0] - ddof)", "numpy.sum(data**2, axis=0) / (data.shape[0] - 1)"),
    ("m-c13-refit-on-replay", "C13", "transforms/scale.py", "    if _state[\"center\"] is not None:\n        data = data - _state[\"center\"]", "    if _state[\"center\"] is not None:\n        data = data - (_state[\"center\"] if data.shape[0] < 40 else numpy.mean(data, axis=0))"),
    ("m-c09-enforce-rename", "C09", "materializers/base.py", "                {col: scoped_cols[col] for col in target_cols},", "                {col: scoped_cols[col] for col in (target_cols if len(target_cols) < 4 else sorted(target_cols))},"),
    ("m-c06-forward-overrides", "C06", "model_spec.py", "                data, context=context, drop_rows=drop_rows\n            )\n        return cast(\n            \"ModelMatrix\",", "                data, context=context\n            )\n        return cast(\n            \"ModelMatrix\","),
    ("m-c01-plus-swapped", "C01", "parser/parser.py", "to_terms=lambda lhs, rhs: lhs | rhs,", "to_terms=lambda lhs, rhs: rhs | lhs,"),
    ("m-c01-in-args", "C01", "parser/parser.py", "to_terms=lambda nested, parents: nested_product_expansion(\n                    parents, nested\n                ),", "to_terms=lambda nested, parents: nested_product_expansion(\n                    nested, parents\n                ),"),
    ("m-c01-colon-drops-last", "C01", "parser/parser.py", "                    for term in itertools.product(*term_sets)\n                ),\n            ),\n            Operator(\n                \"**\"", "                    for term in list(itertools.product(*term_sets))[: 64]\n                ),\n            ),\n            Operator(\n                \"**\""),
    ("m-c16-sub-right-only", "C16", "utils/constraints.py", "                negate_terms({term for term in terms_right if term not in added})", "                {term for term in terms_right if term not in added}"),
    ("m-c16-mul-scalar", "C16", "utils/constraints.py", "                    term_right.factor, scale=term_left.scale * term_right.scale", "                    term_right.factor, scale=term_left.scale + term_right.scale"),
    ("m-c11-base-falsy", "C11", "transforms/contrasts.py", "    def _find_base_index(self, levels: Sequence[Hashable]) -> int:\n        if self.base is UNSET:\n            return 0", "    def _find_base_index(self, levels: Sequence[Hashable]) -> int:\n        if not self.base:\n            return 0"),
    ("m-c06-raise-inverted", "C06", "materializers/base.py", "                if null_indices:\n                    raise ValueError(f\"`{name}` contains null", "                if not null_indices:\n                    raise ValueError(f\"`{name}` contains null"),
    # --- canaries for the contracts added on 2026-10-03 (tokens_to_ast, SimpleFormula, _evaluate_factor, materializer, C03 bookkeeping, stateful_eval, ...)
    ("m-c14-ast-unguarded-peek", "C14", "parser/algos/tokens_to_ast.py",
     "                while (\n                    operator_stack\n                    and operator_stack[-1].token.kind is not Token.Kind.CONTEXT\n                ):",
     "                while (\n                    operator_stack[-1].token.kind is not Token.Kind.CONTEXT\n                ):"),
    ("m-c14-ast-operate-marker", "C14", "parser/algos/tokens_to_ast.py",
     "        if operator_stack[-1].token.kind is Token.Kind.CONTEXT:\n            raise exc_for_token(\n                operator_stack[-1].token, \"Could not find matching context marker.\"\n            )\n", ""),
    ("m-c19-setitem-lazy-reorder", "C19", "formula.py", "        self.__terms[key] = value\n        self._reorder()", "        stale = self.__terms[key].degree != value.degree\n        self.__terms[key] = value\n        if stale:\n            self._reorder()"),
    ("m-c20-differentiate-keeps-ordering", "C20", "formula.py", "            _ordering=OrderingMethod.NONE,\n        )", "            _ordering=self.ordering,\n        )"),
    ("m-c09-kind-guard-inverted", "C09", "materializers/base.py", "                and value.__formulaic_metadata__.kind\n                is not spec.encoder_state[factor.expr][0]", "                and value.__formulaic_metadata__.kind\n                is spec.encoder_state[factor.expr][0]"),
    ("m-c18-factor-kind-written", "C18", "materializers/base.py", "            if (\n                factor.kind is not Factor.Kind.UNKNOWN\n                and factor.kind is not value.__formulaic_metadata__.kind\n            ):",
     "            if factor.kind is Factor.Kind.UNKNOWN:\n                factor.kind = value.__formulaic_metadata__.kind\n            elif factor.kind is not value.__formulaic_metadata__.kind:"),
    ("m-c06-empty-caller-set", "C06", "materializers/base.py", "drop_rows: set[int] = drop_rows if drop_rows is not None else set()", "drop_rows: set[int] = drop_rows or set()"),
    ("m-c03-merge-keeps-reduced", "C03", "materializers/base.py", "ScopedFactor(factor_new.factor, reduced=False)", "ScopedFactor(factor_new.factor, reduced=True)"),
    ("m-c03-merge-keeps-existing", "C03", "materializers/base.py", "                        terms - (existing_term,)  # type: ignore", "                        terms  # type: ignore"),
    ("m-c03-spanned-not-subtracted", "C03", "materializers/base.py", "                    self._get_scoped_terms_spanned_by_evaled_factors(evaled_factors)\n                    - spanned\n                )", "                    self._get_scoped_terms_spanned_by_evaled_factors(evaled_factors)\n                )"),
    ("m-c03-spanned-records-merged", "C03", "materializers/base.py", "                spanned.update(term_span)", "                spanned.update(scoped_terms)"),
    ("m-c18-env-not-wrapped", "C18", "utils/stateful_transforms.py", "    env = LayeredMapping(\n        env\n    )  # We sometimes mutate env", "    env = env if isinstance(env, LayeredMapping) else LayeredMapping(\n        env\n    )  # We sometimes mutate env"),
    ("m-c15-context-off-by-one", "C15", "parser/types/token.py", "⧛{self.source[self.source_start:self.source_end+1]}⧚{self.source[self.source_end+1:]}\"", "⧛{self.source[self.source_start:self.source_end+2]}⧚{self.source[self.source_end+2:]}\""),
    ("m-c07-joint-normalisation", "C07", "model_spec.py", "                spec.materializer_params or None,", "                spec.materializer_params,"),
    # --- Cox-de Boor recursion of basis_spline (deductive part of C12)
    ("m-c12-wrong-weight", "C12", "transforms/basis_spline.py", "(1 - alpha(i + 1, d))", "(1 - alpha(i, d))"),
    ("m-c12-boundary-open", "C12", "transforms/basis_spline.py", "else (x <= knots[i + 1])", "else (x < knots[i + 1])"),
    ("m-c12-short-level", "C12", "transforms/basis_spline.py", "for i in range(len(knots) - d - 1):", "for i in range(len(knots) - d - 2):"),
    ("m-c12-intercept-dropped", "C12", "transforms/basis_spline.py", "if i > 0 or include_intercept", "if i > 0"),
    ("m-c12-stale-memo", "C12", "transforms/basis_spline.py", "        cache[d % 2].clear()\n", ""),
    ("m-c12-extend-lower", "C12", "transforms/basis_spline.py", "x >= (knots[i] if i != degree else -numpy.inf)", "x >= knots[i]"),
    # --- contracts added in the last session
    ("m-c17-source-by-owner", "C17", "utils/variables.py", 'variable.split(".", 1)[0]', 'variable.rsplit(".", 1)[0]'),
    ("m-c17-layer-name-skips-private", "C17", "utils/layered_mapping.py", "        if key in self._mutations:\n            return self._mutations[key], name\n        for layer in self._layers:", "        for layer in self._layers:"),
    ("m-c14-gap-no-fallback", "C14", "parser/utils.py", "            lhs_token.args[-1]  # type: ignore\n            if lhs_token.args\n            else Token(lhs_token.operator.symbol)", "            lhs_token.args[-1]  # type: ignore"),
    ("m-c08-stringdtype-only", "C08", "materializers/pandas.py", "pandas.api.types.is_string_dtype(values.dtype)", "isinstance(values.dtype, pandas.StringDtype)"),
    ("m-c04-stateful-by-name", "C04", "utils/stateful_transforms.py", "    if not isinstance(node, ast.Call):\n        return False\n", "    if not isinstance(node, ast.Call) or not isinstance(node.func, ast.Name):\n        return False\n"),
    ("m-c20-spec-keeps-structure", "C20", "model_spec.py", "            structure=None,\n", ""),
    ("m-c06-drop-skipped", "C06", "materializers/base.py", "                drop_rows.update(null_indices)", "                drop_rows.update(i for i in null_indices if i % 7 != 6)"),
]


def run(canary, tier):
    cid, prop, rel, old, new = canary
    tmp = Path(tempfile.mkdtemp(prefix="verif-mut-"))
    try:
        shutil.copytree("/repo/formulaic", tmp / "formulaic")
        f = tmp / "formulaic" / rel
        src = f.read_text()
        if old not in src:
            return dict(id=cid, property=prop, status="stale-canary (text not found)")
        f.write_text(src.replace(old, new, 1))
        env = dict(os.environ, VERIF_REPO=str(tmp))
        env.pop("VERIF_UPDATE_LEDGER", None)
        r = subprocess.run(["./check", prop, "--tier", tier], cwd=ROOT, env=env, capture_output=True, text=True, timeout=3600)
        lines = [ln for ln in r.stdout.splitlines() if ln.startswith(("VIOLATION", "UNDECIDED", "PROOF-LOST", "CHECKER-BROKEN"))]
        kinds = sorted({("vc" if ".vc." in ln else "monitor" if ".rt." in ln else "bounded") for ln in lines if ln.startswith("VIOLATION")})
        return dict(id=cid, property=prop, exit=r.returncode, caught=r.returncode == 1, by=kinds, lines=lines[:8])
    finally:
        shutil.rmtree(tmp, ignore_errors=True)


# canaries that are NOT flagged, and rightly so: the change does not break the property on any input the statement covers
NOT_A_VIOLATION = {
    # `spec.materializer_params` instead of `spec.materializer_params or None`: differs only when the parts of one structured spec carry DIFFERENT
    # materializer parameters one of which is empty - then generation falls back to part-by-part; with uniform parameters (the state of every spec the
    # library builds, and the premise of the joint-generation clause) the behaviour is identical
    "m-c07-joint-normalisation",
}


def main():
    args = [a for a in sys.argv[1:] if not a.startswith("--")]
    tier = "quick"
    if "--tier" in sys.argv:
        tier = sys.argv[sys.argv.index("--tier") + 1]
        args = [a for a in args if a != tier]
    todo = [c for c in CANARIES if not args or c[0] in args or c[1] in args]
    out = []
    for c in todo:
        res = run(c, tier)
        out.append(res)
        print(json.dumps(res))
        sys.stdout.flush()
    missed = [r for r in out if not r.get("caught") and r["id"] not in NOT_A_VIOLATION]
    print(f"SUMMARY canaries={len(out)} caught={len(out) - len(missed)} missed={[r['id'] for r in missed]}")
    (ROOT / "evidence").mkdir(exist_ok=True)
    return 0 if not missed else 1


if __name__ == "__main__":
    sys.exit(main())
