#!/usr/bin/env python3
"""Confirms a seeded change and runs the checks against it.

usage: tools/seed_eval.py <seed-dir> <patchN.diff> <demoN.py> <property> <seed-id> [--props C01,C14] [--tier quick]

Steps (all in a scratch git worktree of /repo under $TMPDIR, removed afterwards; /repo is never modified):
  1. clean tree: demo exits 0
  2. patch applied: demo exits non-zero; package imports; the repository test suite passes exactly the tests that pass
     on the clean tree (junit comparison)
  3. ./check <property> (and --props) with VERIF_REPO=<scratch> -> which part of the machinery reports the violation
Writes /verif/seeded/<seed-id>/{patch.diff, demo.py, meta.json}.
"""
import json
import os
import shutil
import subprocess
import sys
import tempfile
import xml.etree.ElementTree as ET
from pathlib import Path

ROOT = Path(__file__).resolve().parent.parent
PY = "/venv/bin/python"
BASE_CACHE = Path(tempfile.gettempdir()) / "verif-seed-baseline.json"


def sh(cmd, cwd=None, env=None, timeout=3600):
    return subprocess.run(cmd, cwd=cwd, env=env, capture_output=True, text=True, timeout=timeout)


def run_tests(wt):
    jx = Path(tempfile.mktemp(suffix=".xml"))
    env = dict(os.environ, PYTHONPATH=str(wt))
    sh([PY, "-m", "pytest", "-q", "-p", "no:cacheprovider", "--timeout=900", "--continue-on-collection-errors", f"--junitxml={jx}"], cwd=wt, env=env)
    passed = set()
    if jx.exists():
        for tc in ET.parse(jx).iter("testcase"):
            if not any(c.tag in ("failure", "error", "skipped") for c in tc):
                passed.add(f"{tc.get('classname')}::{tc.get('name')}")
        jx.unlink()
    return passed


def main():
    seed_dir, patch, demo, prop, sid = sys.argv[1:6]
    props = [prop]
    tier = "quick"
    if "--props" in sys.argv:
        props = sys.argv[sys.argv.index("--props") + 1].split(",")
    if "--tier" in sys.argv:
        tier = sys.argv[sys.argv.index("--tier") + 1]
    seed_dir = Path(seed_dir)
    head = sh(["git", "-C", "/repo", "rev-parse", "HEAD"]).stdout.strip()
    wt = Path(tempfile.mkdtemp(prefix="verif-seed-"))
    wt.rmdir()
    meta = {"id": sid, "property": prop, "repo_head": head, "patch": patch, "demo": demo}
    try:
        r = sh(["git", "-C", "/repo", "worktree", "add", "--detach", str(wt), "HEAD"])
        assert r.returncode == 0, r.stderr
        env = dict(os.environ, PYTHONPATH=str(wt))
        # baseline pass set (cached per HEAD)
        base = None
        if BASE_CACHE.exists():
            c = json.loads(BASE_CACHE.read_text())
            if c.get("head") == head:
                base = set(c["passed"])
        if base is None:
            base = run_tests(wt)
            BASE_CACHE.write_text(json.dumps({"head": head, "passed": sorted(base)}))
        d0 = sh([PY, str(seed_dir / demo)], cwd=wt, env=env, timeout=900)
        meta["demo_clean_exit"] = d0.returncode
        ap = sh(["git", "-C", str(wt), "apply", str(seed_dir / patch)])
        meta["patch_applies"] = ap.returncode == 0
        if ap.returncode != 0:
            meta["error"] = ap.stderr[-500:]
            print(json.dumps(meta, indent=1))
            return 2
        imp = sh([PY, "-c", "import formulaic; print(formulaic.__file__)"], cwd=wt, env=env)
        meta["imports_from_scratch"] = str(wt) in imp.stdout
        d1 = sh([PY, str(seed_dir / demo)], cwd=wt, env=env, timeout=900)
        meta["demo_patched_exit"] = d1.returncode
        meta["demo_patched_tail"] = (d1.stdout + d1.stderr)[-400:]
        passed = run_tests(wt)
        meta["tests_baseline_pass"] = len(base)
        meta["tests_regressed"] = sorted(base - passed)[:10]
        meta["tests_pass_with_patch"] = len(passed)
        meta["confirmed"] = bool(meta["demo_clean_exit"] == 0 and meta["demo_patched_exit"] != 0 and not meta["tests_regressed"] and meta["imports_from_scratch"])
        # run the checks against the scratch copy
        meta["checks"] = {}
        for p in props:
            cenv = dict(os.environ, VERIF_REPO=str(wt))
            cenv.pop("VERIF_UPDATE_LEDGER", None)
            rr = sh(["./check", p, "--tier", tier], cwd=ROOT, env=cenv, timeout=7200)
            lines = [ln for ln in rr.stdout.splitlines() if ln.startswith(("VIOLATION", "UNDECIDED", "PROOF-LOST", "CHECKER-BROKEN"))]
            kinds = sorted({("vc" if ".vc." in ln else "monitor" if ".rt." in ln else "bounded") for ln in lines if ln.startswith("VIOLATION")})
            summ = [ln for ln in rr.stdout.splitlines() if ln.startswith("[")]
            meta["checks"][p] = {"tier": tier, "exit": rr.returncode, "caught": rr.returncode == 1, "by": kinds, "lines": lines[:10], "summary": summ[-1:] }
        out = ROOT / "seeded" / sid
        out.mkdir(parents=True, exist_ok=True)
        if (out / "meta.json").exists():
            prev = json.loads((out / "meta.json").read_text())
            meta["checks_initial"] = prev.get("checks_initial") or prev.get("checks")   # before the checks were strengthened
            meta["needs"] = prev.get("needs", "")
            for k in ("round", "note"):
                if k in prev:
                    meta[k] = prev[k]
        if (seed_dir / patch).resolve() != (out / "patch.diff").resolve():
            shutil.copy(seed_dir / patch, out / "patch.diff")
        if (seed_dir / demo).resolve() != (out / "demo.py").resolve():
            shutil.copy(seed_dir / demo, out / "demo.py")
        meta["what_was_run"] = ("scratch worktree of /repo HEAD; demo on clean tree and with patch.diff applied; repository test suite with the patch "
                               "(junit compared with the clean tree); ./check <property> with VERIF_REPO=<scratch worktree> (source parsed and imported from it)")
        (out / "meta.json").write_text(json.dumps(meta, indent=1))
        print(json.dumps({k: meta[k] for k in ("id", "confirmed", "demo_clean_exit", "demo_patched_exit", "tests_regressed")}, indent=None))
        for p, c in meta["checks"].items():
            print("  ", p, "exit", c["exit"], "caught" if c["caught"] else "MISSED", c["by"], c["lines"][:3])
        return 0
    finally:
        sh(["git", "-C", "/repo", "worktree", "remove", "--force", str(wt)])
        shutil.rmtree(wt, ignore_errors=True)


if __name__ == "__main__":
    sys.exit(main())
