"""debug helper: python tools/pv.py c10 [substring-of-target]"""
import sys, importlib, json
sys.path.insert(0, '/verif')
from vf.pyvc.run import verify_contract, aggregate
mod = importlib.import_module(f"vf.proofs.{sys.argv[1]}")
reg, cs = mod.build()
for c in cs:
    if c.trusted or c.path is None: continue
    if len(sys.argv) > 2 and sys.argv[2] not in c.target: continue
    out = verify_contract(c, reg, int(sys.argv[3]) if len(sys.argv) > 3 else 10000)
    print("==", c.target + (f"[{c.label}]" if getattr(c, "label", None) else ""), out["status"], out.get("why", ""), f"{out['seconds']:.1f}s paths={out.get('paths')}")
    for r in aggregate(out["results"]):
        flag = "" if r["verdict"] in ("discharged", "covered") else "   <<<<<<"
        print(f"   {r['verdict']:11s} {r['id']:32s} x{r['instances']} {r['solver']} {r['seconds']}s  {r.get('note','')[:90]}{flag}")
        if r["verdict"] == "refuted" and "-m" in sys.argv: print(r.get("model"))
    for n in out["notes"]: print("   note:", n)
