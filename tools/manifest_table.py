ENGINES = [
    {"name": "pyvc", "path": "vf/pyvc", "serves_properties": [],
     "kind_free_text": "verification-condition generator over the real Python AST of /repo (re-read on every run), sidecar contracts, obligations discharged by z3 / cvc5"},
    {"name": "bounded", "path": "vf/bounded", "serves_properties": [],
     "kind_free_text": "runtime contracts on the real functions over exhaustively enumerated small scopes (bounded stand-in, never counted as proved)"},
]
NOTES = "See DESIGN.md. Exit codes: 0 held, 1 VIOLATION (replayed input or refuted obligation), 2 undecided, 3 checker broken."
CHECKS = {}
NOT_APPLICABLE = {f"C{i:02d}": "check not built yet (construction in progress; see DESIGN.md Appendix B)" for i in range(1, 21)}
