"""Single source of truth for MANIFEST.json claims (tools/gen_manifest.py renders it)."""

ENGINES = [
    {"name": "pyvc", "path": "vf/pyvc", "serves_properties": ["C10", "C19", "C20"],
     "kind_free_text": "verification-condition generator: symbolic execution of the real Python AST of /repo (re-read on every run) against sidecar contracts (vf/proofs), obligations discharged per clause by z3 5.1 / cvc5 / z3 4.8; concrete monitor evaluates the same contract text on the real functions"},
    {"name": "bounded", "path": "vf/bounded", "serves_properties": [],
     "kind_free_text": "runtime contracts (oracles from the property statements) on the real functions over exhaustively enumerated small scopes + seeded samples: bounded stand-in, never counted as proved"},
]
NOTES = ("See DESIGN.md. Exit codes: 0 held (KNOWN-FINDING lines allowed), 1 VIOLATION (replayed input / refuted obligation), "
         "2 undecided (a ledger obligation stopped discharging and no failing input was found), 3 checker broken. "
         "Technique family: contract-based deductive verification of the real code; where a property is decided only by the "
         "bounded stand-in this is stated in level_claimed/technique.")

HYBRID = ("other", "hybrid: deductive core (pyvc obligations on the real functions, all inputs) + bounded stand-in for what is out of the verifier's reach")
BOUNDED = ("exploration", "bounded stand-in only")

# property -> dict(category, text, note, technique, enabled)
CHECKS_ALL = {
    "C02": dict(category="exploration", enabled=True,
                text="Bounded: (a) the REAL _get_columns_for_term of the pandas, narwhals and base materializers executed on numpy object arrays of sympy symbols, so `column == scale * product of factor columns` is an algebraic identity for all numeric values; exhaustive over all 120 shapes with k<=4 factors and widths 1..3 x scale {1,2.5} x {numpy,pandas}, names in Kronecker order with the first factor fastest; sparse branch on the same shapes; (b) end-to-end model_matrix on generated frames (rows 1..6, category/object/str dtypes, unsorted and unobserved levels) x every ordered tuple of <=3 factors from a pool incl. Python-expression factors x literal scalings x intercept on/off x rank on/off x outputs: every label parsed back and the column recomputed from the raw data.",
                note="bounded stand-in (the mixed-radix induction of the Kronecker enumeration is out of the solvers' reach); symbolic columns make (a) value-independent; three genuine defects repaired (D7, M1, D11)",
                technique="runtime contracts on the real functions with symbolic (sympy) column values and exhaustive shape enumeration (bounded stand-in of the contract family)"),
    "C03": dict(category="exploration", enabled=True,
                text="Bounded: exact rational rank (sympy DomainMatrix) of the model matrix with and without rank reduction on fully crossed designs with replicates, for ALL term sets with <=3 terms (4-term sets on most type patterns) over <=3 factors (numeric or categorical with 1..3 levels), EVERY permutation of the terms, intercept present/absent: rank(X_on)==ncol(X_on) and colspace(X_on)==colspace(X_off). Thorough tier adds every built-in contrast, cluster_by, and 4-factor designs (SVD rank).",
                note="bounded stand-in; the linear-algebra fact linking 'each (numeric set, categorical subset) atom covered once' to independence is argued in DESIGN.md, not mechanised; failures are only reported if they repeat on a second independent data set",
                technique="runtime contracts on the real functions with exact-arithmetic rank oracles over exhaustively enumerated term sets and orders (bounded stand-in)"),
    "C04": dict(category="exploration", enabled=True,
                text="Bounded: runtime contract 'a spec replays the recorded encoding row by row' checked on the real library for 87 formula templates over every stateful/stateless built-in (no lag) x 10 kinds of follow-up frames (subsets, duplications, permutations, missing levels, sequences of follow-ups) x 4 replay routes incl. pickle. No deductive obligations yet for this property.",
                note="bounded stand-in (labelled bounded, never counted as proved); rtol 1e-12 on replayed rows (BLAS may reorder dot products); follow-ups stay inside the training domain",
                technique="runtime contracts on the real functions over enumerated (formula, training frame, follow-up) scopes (bounded stand-in of the contract family)"),
    "C05": dict(category="other", enabled=True,
                text="Hybrid. Deductive: the five entry points (sugar.model_matrix, SimpleFormula/StructuredFormula.get_model_matrix, ModelSpec.get_model_matrix, ModelSpecs.get_model_matrix) are verified against provenance contracts: each reduces to one materializer call on the same data, context, spec with exactly the caller's overrides, and the same drop-set object (quantifier-free obligations; a dropped argument is refuted with a model - this is how defect D9 was found). Bounded: 23 build routes per case (3 outputs x 7 entry points/materializers incl. narwhals on pandas and pyarrow) compared elementwise (rtol 1e-12) with equal column names; sparse dummy encoder vs indicator contract exhaustively for sequences of length <=3.",
                note="the materializer call itself, registry dispatch and Structured._map are assumed contracts (provenance ghosts); numbers across outputs/materializers are bounded only",
                technique="contract-based deductive verification of entry-point plumbing (pyvc VCs + z3, quantifier-free provenance ghosts) + runtime-contract bounded stand-in for cross-output/materializer agreement"),
    "C08": dict(category="exploration", enabled=True,
                text="Bounded (exhaustive over the finite dtype set): one frame per dtype that pandas 3.0.5 / pyarrow 25 produce for text, categorical and numeric data (object, str, string[python], string[pyarrow], large_string, category ordered/unordered with str/int categories, int8..64, uint8..64, float32/64, bool, nullable Int64/Float64/boolean) x outputs x {pandas, narwhals-on-pandas, narwhals-on-pyarrow}: text/categorical become indicator columns (sorted levels for text, declared order for category), numerics pass through unchanged, every cell numeric.",
                note="bounded stand-in; kind inference depends on the dtype only (argued in DESIGN.md, not yet discharged as a dependence obligation); defects D11 and M2 repaired",
                technique="runtime contracts on the real functions, exhaustive over the installed libraries' dtype set (bounded stand-in)"),
    "C09": dict(category="exploration", enabled=True,
                text="Bounded: (training, follow-up) pairs over kind changes, lost levels and unseen levels, for factors alone and in interactions, three storage dtypes x three outputs (exhaustive over the stated scenario grid) plus seeded random pairs; oracle from the statement (FactorEncodingError / all-zero columns / DataMismatchWarning and unchanged columns).",
                note="bounded stand-in; depends on the fix commit pooling encoder_state (recorded as fixed in known_findings.json)",
                technique="runtime contracts on the real functions over an exhaustive scenario grid (bounded stand-in)"),
    "C10": dict(category="other", enabled=True,
                text="Hybrid. Deductive: ModelSpec.term_indices (loop invariant over prefix sums: contiguous, disjoint, in term order, covering), column_names (concatenation), column_indices, get_column_indices, term_slices, __structure: every obligation discharged by z3 for all structures (unbounded). The same contract text is evaluated on every real call made by a materialization workload (CPython cross-check / counterexample search). Bounded: every accessor compared with a recomputation from the generated matrix on ~5000 formulas x data x outputs; subset() regenerates the parent's columns.",
                note="assumes Term objects modelled modulo Term.__eq__ (string lookup by printed form is the known finding D13); dict insertion order; the link structure<->actual labels is bounded only",
                technique="contract-based deductive verification: VCs generated from the real AST (pyvc), discharged by z3/cvc5; runtime-contract bounded stand-in for the end-to-end link"),
    "C11": dict(category="exploration", enabled=True,
                text="Bounded (exhaustive for the stated scope): n = 1..12 levels x three label types x every option of Treatment(base)/SAS/Sum/Helmert(reverse,scale)/Diff(backward)/Poly(scores): reduced coding n x (n-1), [1|C] invertible (exact rank), full coding identity, coefficient matrix == exact Fraction inverse, zero column sums, dense == sparse, equality with closed forms written from R/MASS definitions; encode_contrasts(data) == indicator(data) @ C over data with absent levels, nulls and explicit level lists.",
                note="bounded stand-in for n <= 12 (the closed forms for all n are not yet under deductive contract); tolerances 1e-12 rational entries, 1e-9 inverses, 1e-8 poly",
                technique="runtime contracts on the real functions against textbook closed forms in exact arithmetic, exhaustive for n <= 12 (bounded stand-in)"),
    "C12": dict(category="exploration", enabled=True,
                text="Bounded (DESIGN.md section 4 C12: the Cox-de Boor recursion and the cubic-spline linear algebra are out of the verifier's reach): basis_spline judged against an independent Cox-de Boor spec function in exact Fraction arithmetic on the recorded knot vector, fully crossed over degree 0..5 x knots/df (with ties) x bounds x intercept x 5 extrapolation modes on grids containing knots, boundaries, out-of-range points and NaN; cubic splines judged against the cardinal natural/periodic spline from an exact moment solve (identity at the knots, zero centred column means).",
                note="bounded stand-in, never counted as proved; tolerance 1e-9 absolute on spline values; thorough tier cross-checks the oracles against scipy; four genuine defects found and repaired (fix commits S1-S4 in known_findings.json)",
                technique="runtime contracts on the real functions against exact-arithmetic spec functions over a crossed parameter grid (bounded stand-in of the contract family)"),
    "C13": dict(category="exploration", enabled=True,
                text="Bounded: scale/center/standardize contracts (zero mean, unit std for ddof, replay of recorded statistics) on all vectors over {-2..2}^n, n<=4 plus seeded vectors of length 2..50 and magnitude 1e-6..1e6; poly judged against exact Fraction Gram-Schmidt; TRANSFORMS entries against the math module and as inverse pairs.",
                note="bounded stand-in; float tolerance 32*n*eps*kappa (kappa = exact cancellation factor); depends on the exp10 fix commit",
                technique="runtime contracts on the real functions with exact-arithmetic oracles over enumerated vectors (bounded stand-in)"),
    "C16": dict(category="exploration", enabled=True,
                text="Bounded: every binary tree with <=2 operators over {a,b,c,2,0.5} and every `lhs = rhs` with <=1 operator per side (exhaustive), plus seeded specs of 1-3 constraints with <=6 operators, in string/list/dict form, compiled by LinearConstraints.from_spec / ModelSpec.get_linear_constraints and probed at n+1 affinely independent rational points against an independent Fraction evaluator of the spec text: A.x - b == lhs(x) - rhs(x), one row per constraint in order; non-linear specs must be rejected.",
                note="bounded stand-in; an affine map is fixed by n+1 affinely independent points, so the probe is complete per compiled spec; spec space bounded by operator count",
                technique="runtime contracts on the real functions against an independent exact evaluator over exhaustively enumerated specs (bounded stand-in)"),
    "C17": dict(category="exploration", enabled=True,
                text="Bounded: required_variables sufficiency (materialization succeeds on data restricted to exactly the reported columns) and necessity (dropping any one raises FactorEvaluationError) before and after materialization on 19 formula templates x column pairs plus seeded random formulas; name-resolution order data > context > transforms decided exhaustively on a grid where every layer supplies different numbers (the origin is read off the matrix and compared with variables_by_source); '.' expansion against data column order on 3 entry points. The LayeredMapping lookup order itself is proved under C19.",
                note="bounded stand-in; oracle restrictions from DESIGN.md section 5 (context names are reported until materialization resolves them; Q('name') lookups excluded); known findings D21, D22, N1",
                technique="runtime contracts on the real functions over enumerated formulas/contexts (bounded stand-in); LayeredMapping.__getitem__ first-layer-wins contract discharged deductively (see C19)"),
    "C19": dict(category="other", enabled=True,
                text="Hybrid. Deductive: LayeredMapping.__getitem__ (first layer containing the key, top first; KeyError iff no layer has it), __setitem__/__delitem__ (writes confined to the private layer, every other key and every supplied layer unchanged: frame obligations), __iter__ (each key of the merged view exactly once: nested-loop invariants over a recursive spec function) discharged for all layer stacks. Bounded: Structured map/flatten/simplify/update/merge laws on random nestings; LayeredMapping and SimpleFormula against list/dict models under all operation sequences of length <=2 and random ones <=8.",
                note="supplied layers modelled as finite mappings; Structured is bounded only (recursive datatype out of the verifier's reach)",
                technique="contract-based deductive verification (pyvc VCs + z3) for LayeredMapping; runtime-contract bounded stand-in for Structured/SimpleFormula"),
    "C20": dict(category="other", enabled=True,
                text="Hybrid. Deductive: differentiate_term (loop invariant: remaining factors are an order-preserving duplicate-free subsequence of the original ones with exactly the not-yet-consumed expressions; zero/one cases), _factor_symbols, _differentiate_factors, Factor.__eq__/__hash__ discharged for all terms and all wrt tuples against the product-rule postcondition taken from the statement. Bounded: all formulas of <=2 terms over 16 products x wrt tuples (exhaustive) for count/order/term-wise derivative, and exact finite differences on multilinear numeric data.",
                note="Factor modelled modulo Factor.__eq__ (proved to compare expr only); OrderedSet/abc.Set/dict.fromkeys library contracts assumed; sympy path out of scope",
                technique="contract-based deductive verification (pyvc VCs + z3) of the term-wise derivative; runtime-contract bounded stand-in for materialized finite differences"),
}

CHECKS = {k: v for k, v in CHECKS_ALL.items() if v.get("enabled")}
_REASON = "check exists but still raises unresolved violations on the unchanged tree (triage of findings in progress); not claimed until it exits 0"
NOT_APPLICABLE = {f"C{i:02d}": _REASON for i in range(1, 21) if f"C{i:02d}" not in CHECKS}
