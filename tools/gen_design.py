#!/usr/bin/env python3
"""Assembles DESIGN.md = docs/design_part1_*.md + findings table (from known_findings.json) + seeded table (from seeded/*/meta.json) + docs/design_part2.md"""
import json
from pathlib import Path
R = Path(__file__).resolve().parent.parent
K = json.loads((R / "known_findings.json").read_text())
out = [(R / "docs/design_part1_a.md").read_text(), (R / "docs/design_part1_b.md").read_text()]
out.append("\n## I.6 Findings on the pinned tree and their disposition\n\n"
           "Every entry was reproduced natively on the real code before it was classified (DESIGN rule: a violation on the unchanged tree is first replayed). "
           "`fixed` = one minimal unguarded `fix:` commit in /repo (existing suite unedited: all 463 baseline tests still pass; 40 previously failing pandas-3 tests now pass too); "
           "`known` = genuine defect recorded, not repaired, with the reason. Patches proposed but not applied are kept under `/verif/fixes/`.\n\n"
           "| id | property | status | commit | what fails |\n|---|---|---|---|---|\n")
for k in K:
    txt = (k.get("text") or k.get("description") or "").replace("|", "\\|").replace("\n", " ")
    if txt.startswith("fixed: "):
        txt = txt.split(" ", 3)[3] if len(txt.split(" ", 3)) > 3 else txt
    why = f" *Not fixed:* {k['why_not_fixed']}" if k.get("why_not_fixed") else ""
    out[-1] += f"| {k['id']} | {k['property']} | {k['status']} | {k.get('commit', '')} | {txt}{why.replace('|', chr(92) + '|')} |\n"
seeded = sorted((R / "seeded").glob("*/meta.json")) if (R / "seeded").exists() else []
out.append((R / "docs/design_part1_c.md").read_text())
if seeded:
    def verdicts(c):
        return "; ".join(f"{p}: {'+'.join(v['by']) if v['caught'] else 'MISSED'}" for p, v in (c or {}).items()) or "-"
    tbl = "\n| seeded change | round | what it needs to manifest | confirmed | quick check before strengthening | after |\n|---|---|---|---|---|---|\n"
    for m in seeded:
        d = json.loads(m.read_text())
        rnd = d.get("round") or (int(d["id"][4]) if d["id"][4].isdigit() else 1)
        before = d.get("checks_initial") or d.get("checks")
        tbl += (f"| {d['id']} | {rnd} | {d.get('needs', '').replace('|', '/')} | {'yes' if d.get('confirmed') else 'no'} | "
                f"{verdicts(before)} | {verdicts(d.get('checks'))} |\n")
    out.append(tbl)
out.append((R / "docs/design_part1_d.md").read_text() if (R / "docs/design_part1_d.md").exists() else "")
# inventory of the functions under contract, from the committed ledger (one line per real function / contract variant)
try:
    led = json.loads((R / "obligations.lock.json").read_text())
    led = led.get("obligations", led)
    per = {}
    for k, v in led.items():
        fn = k.rsplit(":", 1)[0]
        per.setdefault(fn, [0, v.get("hash")])[0] += 1
    inv = ("\n## I.11 Functions under contract (generated from obligations.lock.json)\n\n"
           f"{len(per)} contract variants, {len(led)} obligations recorded as discharged on the committed tree (obligation ids are per clause / loop / operation site; "
           "path instances are aggregated). `[label]` = a variant of one function (another parameter instantiation or state shape); `<op:...>` = an operator "
           "implementation extracted from the operator table; `<from:NAME>` = the tail of a function from the first assignment to NAME; `<dispatch:F/T>` = the "
           "implementation of a singledispatch function registered for type T.\n\n| function | obligations | AST hash |\n|---|---|---|\n")
    for fn in sorted(per):
        inv += f"| `{fn}` | {per[fn][0]} | {per[fn][1]} |\n"
    out.append(inv)
except Exception as e:  # noqa: BLE001
    out.append(f"\n(inventory not available: {e})\n")
out.append("\n---------------------------------------------------------------------------\n\n# Part II — original design (written before the build; superseded by Part I where they differ)\n\n")
out.append((R / "docs/design_part2.md").read_text())
(R / "DESIGN.md").write_text("".join(out))
print("DESIGN.md written", sum(len(x) for x in out), "chars")
