#!/usr/bin/env python3
"""Regenerates MANIFEST.json from tools/manifest_table.py (single source of truth for claims)."""
import json, sys
from pathlib import Path
ROOT = Path(__file__).resolve().parent.parent
sys.path.insert(0, str(ROOT / "tools"))
import manifest_table as T

BASELINE = "cd /repo && /venv/bin/python -m pytest -ra -q -p no:cacheprovider --timeout=900 --continue-on-collection-errors"
m = {
    "version": 1,
    "setup_cmd": "./setup.sh",
    "hooks": {
        "guard": "FORMULAIC_VERIF",
        "enable": "none needed: contracts are sidecar files under /verif/vf; checks parse and import /repo's working tree unmodified (formulaic is installed editable in /venv)",
        "baseline_off_cmd": BASELINE,
        "source_commits": [],
        "add_only": True,
    },
    "engines": T.ENGINES,
    "checks": [],
    "notes": T.NOTES,
    "not_applicable": [],
}
for pid, c in sorted(T.CHECKS.items()):
    m["checks"].append({
        "property_id": pid,
        "quick_cmd": f"./check {pid} --tier quick",
        "thorough_cmd": f"./check {pid} --tier thorough",
        "evidence_file": f"evidence/{pid}.json",
        "replay_cmd_template": "./check --replay {path}",
        "engine": c.get("engine", "pyvc+bounded"),
        "level_claimed": {"category": c["category"], "text": c["text"], "design_ref": c.get("design_ref", f"DESIGN.md §4 {pid}")},
        "level_note": c["note"],
        "technique": c["technique"],
    })
for pid, reason in sorted(T.NOT_APPLICABLE.items()):
    m["not_applicable"].append({"property_id": pid, "reason": reason})
import jsonschema
jsonschema.validate(m, json.loads(Path("/root/.vp/MANIFEST.schema.json").read_text()))
(ROOT / "MANIFEST.json").write_text(json.dumps(m, indent=1) + "\n")
print("MANIFEST.json written:", len(m["checks"]), "checks,", len(m["not_applicable"]), "not claimed")
