#!/bin/bash
# usage: tools/run_all.sh <seed> [tier]  -> one line per property
cd "$(dirname "$0")/.."
seed=${1:-0}; tier=${2:-quick}
for i in $(seq -w 1 20); do
  VERIF_SEED=$seed timeout 3600 ./check C$i --tier $tier > /tmp/runall_${seed}_C$i.out 2>&1
  echo "seed=$seed C$i exit=$? $(grep '^\[' /tmp/runall_${seed}_C$i.out | cut -c1-140) $(grep -c '^VIOLATION' /tmp/runall_${seed}_C$i.out) viol-lines"
done
