#!/bin/bash
# evaluates every delivered seeded change that has no meta.json yet (sequentially)
cd "$(dirname "$0")/.."
for d in /tmp/seed-C*/SEED; do
  p=$(basename $(dirname $d)); p=${p#seed-}
  for i in 1 2; do
    [ -f $d/patch$i.diff ] && [ -f $d/demo$i.py ] || continue
    [ -f seeded/seed-$p-$i/meta.json ] && continue
    timeout 3000 .venv/bin/python tools/seed_eval.py $d patch$i.diff demo$i.py $p seed-$p-$i 2>&1 | grep -v WARNING | cut -c1-500
  done
done
