#!/bin/bash
# runs baseline tests, compares with stable_pass list
cd /repo && /venv/bin/python -m pytest -ra -q -p no:cacheprovider --timeout=900 --continue-on-collection-errors --junitxml=/tmp/junit.xml >/tmp/pytest.out 2>&1
/venv/bin/python - <<'PY'
import json, xml.etree.ElementTree as ET
base=set(json.load(open('/root/.vp/BASELINE.json'))['stable_pass'])
t=ET.parse('/tmp/junit.xml'); passed=set(); failed=set()
for tc in t.iter('testcase'):
    name=f"{tc.get('classname')}::{tc.get('name')}"
    bad=any(c.tag in('failure','error','skipped') for c in tc)
    (failed if bad else passed).add(name)
miss=base-passed
print("baseline",len(base),"passed now",len(passed),"baseline tests not passing:",len(miss))
for m in sorted(miss)[:20]: print("  REGRESSION",m)
print("newly passing:",len(passed-base))
PY
