"""Shared run context: obligations ledger, bounded counters, violations, known findings,
evidence writing and exit-code policy (DESIGN.md §3)."""
from __future__ import annotations

import hashlib
import json
import os
import sys
import time
import traceback
from pathlib import Path

ROOT = Path(__file__).resolve().parent.parent
REPO = Path(os.environ.get("VERIF_REPO", "/repo"))
# evidence describes runs against /repo itself; a run pointed at a scratch copy (VERIF_REPO: seeded-change and mutation experiments) keeps its
# evidence out of the committed directory
EVIDENCE = ROOT / "evidence" if str(REPO) == "/repo" else ROOT / ".cache" / "evidence-scratch"
REPLAYS = ROOT / "replays"
KNOWN = ROOT / "known_findings.json"

EXIT_OK, EXIT_VIOLATION, EXIT_UNDECIDED, EXIT_BROKEN = 0, 1, 2, 3


class CheckerBroken(Exception):
    pass


def _jsonable(x, depth=0):
    if depth > 6:
        return repr(x)
    if isinstance(x, (str, int, float, bool)) or x is None:
        return x
    if isinstance(x, dict):
        return {str(k): _jsonable(v, depth + 1) for k, v in x.items()}
    if isinstance(x, (list, tuple, set, frozenset)):
        return [_jsonable(v, depth + 1) for v in x]
    return repr(x)


class Bounded:
    """Counter for one bounded driver (runtime contracts on the real functions)."""

    def __init__(self, ctx, name, rule, exhaustive=False, bound=""):
        self.ctx, self.name, self.rule = ctx, name, rule
        self.exhaustive, self.bound = exhaustive, bound
        self.evaluations = 0
        self.distinct = set()
        self.samples = []
        self.t0 = time.time()
        self.wall = 0.0

    def case(self, key, nontrivial=True, sample=None):
        self.evaluations += 1
        if nontrivial:
            self.distinct.add(hashlib.blake2b(repr(key).encode(), digest_size=8).digest())
        if sample is not None and len(self.samples) < 6:
            self.samples.append(_jsonable(sample))
        elif len(self.samples) < 3:
            self.samples.append(_jsonable(key))

    def add_counts(self, evaluations, distinct_keys, samples=()):
        self.evaluations += evaluations
        self.distinct.update(distinct_keys)
        for s in samples:
            if len(self.samples) < 6:
                self.samples.append(_jsonable(s))

    def fail(self, clause, witness, detail=""):
        self.ctx.violation(clause, witness, detail, source=f"bounded:{self.name}")

    def __enter__(self):
        return self

    def __exit__(self, et, ev, tb):
        self.wall = time.time() - self.t0
        return False

    def summary(self):
        return {
            "driver": self.name,
            "rule": self.rule,
            "bound": self.bound,
            "exhaustive": self.exhaustive,
            "evaluations": self.evaluations,
            "distinct_nontrivial": len(self.distinct),
            "wall_s": round(self.wall, 2),
        }


class Ctx:
    def __init__(self, prop, tier, seed):
        self.prop, self.tier, self.seed = prop, tier, seed
        self.t0 = time.time()
        self.obligations = []  # dicts: id, verdict, solver, seconds, function
        self.functions = {}  # path::qualname -> ast hash
        self.bounded_runs = []
        self.violations = []  # dicts
        self.assumptions = []
        self.trusted = []
        self.notes = []
        self.dropped = []  # what extraction dropped
        self.undecided = []
        self.broken = []
        self.level = "other"
        try:
            man = json.loads((ROOT / "MANIFEST.json").read_text())
            for chk in man.get("checks", []):
                if chk.get("property_id") == prop:
                    self.level = chk["level_claimed"]["category"]
        except Exception:
            pass
        self.explanation = ""
        self._known = json.loads(KNOWN.read_text()) if KNOWN.exists() else []

    # ---- recording -------------------------------------------------------
    @property
    def thorough(self):
        return self.tier == "thorough"

    def assume(self, *texts):
        for t in texts:
            if t not in self.assumptions:
                self.assumptions.append(t)

    def trust(self, *texts):
        for t in texts:
            if t not in self.trusted:
                self.trusted.append(t)

    def bounded(self, name, rule, exhaustive=False, bound=""):
        b = Bounded(self, name, rule, exhaustive, bound)
        self.bounded_runs.append(b)
        return b

    def violation(self, clause, witness, detail="", source="", solver_output=None, replayed=True):
        """Record a violation of `clause`. witness: json-able dict, should carry 'code'
        (a python program that raises AssertionError while the violation persists)."""
        self.violations.append(
            {
                "clause": clause,
                "witness": _jsonable(witness),
                "detail": str(detail)[:4000],
                "source": source,
                "solver_output": solver_output,
                "replayed": replayed,
            }
        )

    def add_obligations(self, results):
        self.obligations.extend(results)

    def mark_broken(self, why):
        self.broken.append(why)

    # ---- known findings --------------------------------------------------
    def _match_known(self, v):
        for k in self._known:
            if k.get("status") != "known" or k.get("property") != self.prop:
                continue
            kc = k.get("clause")
            if v["clause"] not in (kc if isinstance(kc, list) else [kc]):
                continue
            pred = k.get("match", "True")
            try:
                if eval(pred, {"__builtins__": __builtins__}, {"w": v["witness"], "detail": v["detail"]}):
                    return k
            except Exception:
                continue
        return None

    # ---- finish ----------------------------------------------------------
    def finish(self):
        lines = []
        known_hits = {}
        real = []
        for v in self.violations:
            k = self._match_known(v)
            if k is not None:
                known_hits.setdefault(k["id"], [k, 0])[1] += 1
            else:
                real.append(v)
        if os.environ.get("VERIF_DEBUG"):
            cls_count = {}
            for v in self.violations:
                key = (v["clause"], (v["witness"] or {}).get("cls"), bool(self._match_known(v)))
                cls_count[key] = cls_count.get(key, 0) + 1
            for key, nn in sorted(cls_count.items(), key=str):
                print("  CLASS", key, nn)
        # group real violations by clause -> one replay file per clause (first witnesses kept)
        REPLAYS.mkdir(exist_ok=True)
        by_clause = {}
        for v in real:
            by_clause.setdefault(v["clause"], []).append(v)
        for clause, vs in by_clause.items():
            fn = REPLAYS / f"{self.prop}-{_slug(clause)}.json"
            v0 = vs[0]
            payload = {
                "property": self.prop,
                "clause": clause,
                "count": len(vs),
                "witness": v0["witness"],
                "detail": v0["detail"],
                "source": v0["source"],
                "solver_output": v0["solver_output"],
                "more_witnesses": [x["witness"] for x in vs[1:6]],
                "tree": _tree_hash(),
                "reproduce": f"./check --replay {fn.relative_to(ROOT)}",
            }
            fn.write_text(json.dumps(payload, indent=1, default=repr))
            suffix = "" if v0["replayed"] else " no-failing-input-found"
            lines.append(f"VIOLATION property={self.prop} replay={fn.relative_to(ROOT)}{suffix}")
        for kid, (k, n) in known_hits.items():
            lines.append(f"KNOWN-FINDING: property={self.prop} {k['id']}: {k['description']} ({n} witness(es) this run)")
        for u in self.undecided:
            lines.append(f"UNDECIDED property={self.prop} obligation={u}")
        for b in self.broken:
            lines.append(f"CHECKER-BROKEN property={self.prop} {b}")

        n_obl = len(self.obligations)
        n_dis = sum(1 for o in self.obligations if o["verdict"] == "discharged")
        evals = sum(b.evaluations for b in self.bounded_runs)
        distinct = sum(len(b.distinct) for b in self.bounded_runs)
        samples = []
        for b in self.bounded_runs:
            samples.extend(b.samples[:3])
        for o in self.obligations[:3]:
            samples.append({"obligation": o["id"], "verdict": o["verdict"], "solver": o.get("solver")})
        if not self.explanation:
            self.explanation = (
                f"hybrid: {n_dis}/{n_obl} pyvc obligations over {len(self.functions)} real functions discharged for all inputs "
                f"(z3/cvc5, source re-read from /repo); plus bounded stand-in: runtime contracts on the real code over "
                f"{evals} enumerated cases ({', '.join(b.name for b in self.bounded_runs) or 'none'}) - bounded, never counted as proved")
        cov = {
            "explanation": self.explanation,
            "obligations": n_obl,
            "discharged": n_dis,
            "checker_cmd": f"./check {self.prop} --tier {self.tier}",
            "trusted_base": self.trusted,
            "functions_under_contract": self.functions,
            "extraction_drops": self.dropped,
            "obligation_results": self.obligations,
            "solver_seconds": round(sum(o.get("seconds", 0) for o in self.obligations), 3),
            "backends": sorted({o.get("solver") for o in self.obligations if o.get("solver")}),
            "undecided": self.undecided,
            "bounded": [b.summary() for b in self.bounded_runs],
            "evaluations": max(evals, 0),
            "distinct_nontrivial": distinct,
            "rule": " | ".join(f"{b.name}: {b.rule}" for b in self.bounded_runs),
            "samples": samples or ["(none)"],
            "exhaustive": bool(self.bounded_runs) and all(b.exhaustive for b in self.bounded_runs),
            "known_findings_matched": sorted(known_hits),
            "notes": self.notes,
        }
        ev = {
            "property_id": self.prop,
            "tier": self.tier,
            "seed": self.seed,
            "level": self.level,
            "coverage": cov,
            "assumptions": self.assumptions,
            "wall_s": round(time.time() - self.t0, 2),
            "violations": len(real),
        }
        EVIDENCE.mkdir(parents=True, exist_ok=True)
        _validate_evidence(ev)
        (EVIDENCE / f"{self.prop}.json").write_text(json.dumps(ev, indent=1, default=repr))
        for ln in lines:
            print(ln)
        print(
            f"[{self.prop}] tier={self.tier} obligations={n_dis}/{n_obl} discharged; bounded evaluations={evals} "
            f"distinct={distinct}; violations={len(real)} known={len(known_hits)} wall={ev['wall_s']}s"
        )
        if self.broken:
            return EXIT_BROKEN
        if real:
            return EXIT_VIOLATION
        if self.undecided:
            return EXIT_UNDECIDED
        return EXIT_OK


def _slug(s):
    return "".join(c if c.isalnum() or c in "-_." else "_" for c in s)[:120]


def _tree_hash():
    h = hashlib.sha256()
    for p in sorted((REPO / "formulaic").rglob("*.py")):
        h.update(p.read_bytes())
    return h.hexdigest()[:16]


def _validate_evidence(ev):
    try:
        import jsonschema

        schema = json.loads(Path("/root/.vp/EVIDENCE.schema.json").read_text())
        jsonschema.validate(json.loads(json.dumps(ev, default=repr)), schema)
    except FileNotFoundError:
        pass


def run_property(prop, tier, seed):
    import importlib

    ctx = Ctx(prop, tier, seed)
    try:
        mod = importlib.import_module(f"vf.props.{prop.lower()}")
        mod.run(ctx)
    except CheckerBroken as e:
        ctx.mark_broken(str(e))
    except Exception:
        ctx.mark_broken("crash: " + traceback.format_exc()[-3000:])
    try:
        return ctx.finish()
    except Exception:
        traceback.print_exc()
        return EXIT_BROKEN
