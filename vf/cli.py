"""./check Cnn --tier quick|thorough   |   ./check --replay <file>   |   ./check --all"""
from __future__ import annotations

import argparse
import json
import os
import subprocess
import sys
from pathlib import Path

from . import core


def replay(path):
    p = Path(path)
    if not p.is_absolute():
        p = core.ROOT / p
    data = json.loads(p.read_text())
    code = (data.get("witness") or {}).get("code")
    print(f"replay: property={data.get('property')} clause={data.get('clause')}")
    if not code:
        print("replay: witness carries no executable code (obligation-only violation);")
        print(json.dumps({k: data.get(k) for k in ('clause', 'detail', 'solver_output')}, indent=1)[:4000])
        return 1
    r = subprocess.run([sys.executable, "-c", code], capture_output=True, text=True, cwd=str(core.ROOT),
                       env={**os.environ, "PYTHONPATH": str(core.ROOT)})
    sys.stdout.write(r.stdout[-3000:])
    sys.stdout.write(r.stderr[-3000:])
    if r.returncode != 0:
        print("replay: STILL FAILS on the current tree")
        return 1
    print("replay: no longer fails on the current tree")
    return 0


def main(argv=None):
    ap = argparse.ArgumentParser()
    ap.add_argument("prop", nargs="?")
    ap.add_argument("--tier", default=os.environ.get("VERIF_TIER", "quick"), choices=["quick", "thorough"])
    ap.add_argument("--replay")
    ap.add_argument("--seed", type=int, default=int(os.environ.get("VERIF_SEED", "0") or 0))
    a = ap.parse_args(argv)
    if a.replay:
        return replay(a.replay)
    if not a.prop:
        ap.error("property id required")
    return core.run_property(a.prop.upper(), a.tier, a.seed)


if __name__ == "__main__":
    sys.exit(main())
