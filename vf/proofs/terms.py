"""Term identity and the SimpleFormula container under contract (C01 'Term identity = sorted factor expressions; degree ordering',
C10 'string lookup relies on Term hashing like its sorted factor string', C19 'a formula used as a mutable sequence keeps its
ordering invariant', C20 'same number and order of terms').

  formulaic/parser/types/term.py     Term.__init__  __eq__ (Term operand)  __hash__  __mul__  __lt__
  formulaic/formula.py               SimpleFormula._reorder  __setitem__ (int)  insert  __delitem__ (int)  differentiate  __init__

Spec functions (uninterpreted, definitional or library axioms listed in `axioms()`):
  key_of(fs)        tuple(f.expr for f in sorted(fs))                 -- definitional, element-wise
  canonical lemma   for duplicate-free fs, gs:  key_of(fs) == key_of(gs)  <=>  fs and gs hold the same factors
                    (sorting by a total order is a canonical form of a set; Factor is modelled modulo Factor.__eq__, A-eq)
  stable sort       sorted(xs, key=k): same length and members, keys non-decreasing, and for every key value the subsequence
                    of elements with that key is unchanged (stability)
"""
from __future__ import annotations

import z3

from vf.pyvc import seqs as SQ
from vf.pyvc import stdlib
from vf.pyvc.contracts import Contract, Registry
from vf.pyvc.engine import Closure, MObj, OutOfSubset, PyConst, lift
from vf.pyvc.run import run_contracts
from vf.pyvc.types import TBool, TEnum, TInt, TObj, TOpt, TRec, TSeq, TSet, TStr, V
from vf.proofs.c20 import FACTOR, factor_axioms

SF = TSeq(FACTOR).sort()
SS = TSeq(TStr).sort()
SORTED_F = z3.Function("sorted_factors", SF, SF)
KEY_OF = z3.Function("key_of", SF, SS)
JOIN = z3.Function("str_join", z3.StringSort(), SS, z3.StringSort())
HASH_STR = z3.Function("hash_str", z3.StringSort(), z3.IntSort())
LEX_LT = z3.Function("lex_lt_factors", SF, SF, z3.BoolSort())


def term_axioms():
    th = SQ.theory(FACTOR.sort())
    ths = SQ.theory(z3.StringSort())
    a, b = z3.Consts("tm!a tm!b", SF)
    x = z3.Const("tm!x", FACTOR.sort())
    i, j = z3.Ints("tm!i tm!j")
    ex = FACTOR.field_fn("expr")

    def distinct(s):
        return z3.ForAll([i, j], z3.Implies(z3.And(0 <= i, i < j, j < th.Len(s)), th.At(s, i) != th.At(s, j)))

    return [
        # sorted(): a permutation
        SQ.forall([a], th.Len(SORTED_F(a)) == th.Len(a), patterns=[SORTED_F(a)]),
        SQ.forall([a, x], th.Has(SORTED_F(a), x) == th.Has(a, x), patterns=[th.Has(SORTED_F(a), x)]),
        # key_of: definitional
        SQ.forall([a], ths.Len(KEY_OF(a)) == th.Len(a), patterns=[KEY_OF(a)]),
        z3.ForAll([a, i], z3.Implies(z3.And(0 <= i, i < th.Len(a)), ths.At(KEY_OF(a), i) == ex(th.At(SORTED_F(a), i))),
                  patterns=[ths.At(KEY_OF(a), i)]),
        # canonical form of a set
        z3.ForAll([a, b], z3.Implies(z3.And(distinct(a), distinct(b)),
                                     (KEY_OF(a) == KEY_OF(b)) == z3.ForAll([x], th.Has(a, x) == th.Has(b, x))),
                  patterns=[z3.MultiPattern(KEY_OF(a), KEY_OF(b))]),
        # strict lexicographic comparison is irreflexive
        SQ.forall([a], z3.Not(LEX_LT(a, a)), patterns=[LEX_LT(a, a)]),
    ]


def n_sorted_factors(eng, args, kw, n, st):
    if kw:
        raise OutOfSubset(n, "sorted(factors, key=...)")
    eng.uses_axioms(term_axioms)
    return V(TSeq(FACTOR), SORTED_F(args[0].t))


def n_tuple(eng, args, kw, n, st):
    return args[0]


def n_fromkeys(eng, args, kw, n, st):
    return stdlib.oset_new(eng, args[0], FACTOR, n, st)


def n_join(eng, args, kw, n, st):
    return V(TStr, JOIN(args[0].t, args[1].t))


def n_hash(eng, args, kw, n, st):
    return V(TInt, HASH_STR(args[0].t))


def n_Term(eng, args, kw, n, st):
    """Term(factors): the constructor's contract (proved below) applied to a new object"""
    it = args[0] if args else kw["factors"]
    fs = stdlib.oset_new(eng, it, FACTOR, n, st)
    eng.uses_axioms(term_axioms)
    return MObj("Term", {"factors": V(TSeq(FACTOR), fs.t), "_factor_key": V(TSeq(TStr), KEY_OF(fs.t)),
                         "_hash": V(TInt, HASH_STR(JOIN(z3.StringVal(":"), KEY_OF(fs.t)))), "degree": eng.fresh(st, TInt, "degree")})


def seq_lt(eng, args, kw, n, st):
    return V(TBool, LEX_LT(args[0].t, args[1].t))


T = "formulaic/parser/types/term.py::Term."
RAWT = {"__class__": "Term", "factors": TSeq(FACTOR), "_factor_key": TSeq(TStr), "_hash": "Int", "degree": "Int"}
INV = ["distinct({0}.factors)", "{0}._factor_key == key_of({0}.factors)", "{0}._hash == hash_str(str_join(':', {0}._factor_key))"]
ENV = {
    "key_of": lambda e, a, k, n, s: V(TSeq(TStr), KEY_OF(a[0].t)),
    "str_join": lambda e, a, k, n, s: V(TStr, JOIN(a[0].t, a[1].t)),
    "hash_str": lambda e, a, k, n, s: V(TInt, HASH_STR(a[0].t)),
    "sorted_factors": lambda e, a, k, n, s: V(TSeq(FACTOR), SORTED_F(a[0].t)),
    "lex_lt": lambda e, a, k, n, s: V(TBool, LEX_LT(a[0].t, a[1].t)),
}
AX = [factor_axioms, term_axioms, lambda: stdlib.seq_axioms(FACTOR)]


def build_term(reg=None):
    reg = reg or Registry()
    cs = []
    G = {"Term": PyConst("Term"), "Term.__call__": n_Term, "sorted": n_sorted_factors, "tuple": n_tuple, "dict": PyConst("dict"),
         "dict.fromkeys": n_fromkeys, "hash": n_hash, "str.join": n_join}
    cs.append(reg.add(Contract(
        T + "__init__", params={"self": {"__class__": "Term"}, "factors": TSeq(FACTOR), "origin": TOpt(TObj("TermRef"))},
        globals=G, spec_env=ENV, axioms=AX, returns=None,
        ensures=["self.factors == dedup(factors)"] + [c.format("self") for c in INV],
        modifies=["factors", "origin", "_factor_key", "_hash"], props=["C01", "C10"])))
    cs.append(reg.add(Contract(
        T + "__eq__", params={"self": RAWT, "other": RAWT}, returns="Bool", globals=G, spec_env=ENV, axioms=AX,
        requires=[c.format("self") for c in INV[:2]] + [c.format("other") for c in INV[:2]],
        # two terms are the same term exactly when they hold the same factors, in any order
        ensures=["result == forall(lambda f=Factor: (f in self.factors) == (f in other.factors))"],
        modifies=[], props=["C01", "C10"])))
    cs.append(reg.add(Contract(
        T + "__hash__", params={"self": RAWT}, returns="Int", globals=G, spec_env=ENV, axioms=AX,
        requires=[c.format("self") for c in INV],
        # a function of the canonical key: equal terms hash alike
        ensures=["result == hash_str(str_join(':', key_of(self.factors)))"], modifies=[], props=["C01", "C10"])))
    cs.append(reg.add(Contract(
        T + "__mul__", params={"self": RAWT, "other": RAWT}, returns=None, globals=G, spec_env=ENV, axioms=AX,
        ensures=["result.factors == dedup(self.factors + other.factors)"], modifies=[], props=["C01"])))
    return reg, cs


# ------------------------------------------------------------------------------------------------ SimpleFormula
TERM = TRec("FTerm", {"degree": TInt}, ["degree"])          # a Term modulo Term.__eq__, with its degree
ORD = TEnum("OrderingMethod", ["NONE", "DEGREE", "SORT"])
ST = TSeq(TERM).sort()
BYDEG = z3.Function("stable_sort_by_degree", ST, ST)
BYLT = z3.Function("sort_by_lt", ST, ST)
TLT = z3.Function("term_lt", TERM.sort(), TERM.sort(), z3.BoolSort())
DEGSUB = z3.Function("with_degree", ST, z3.IntSort(), ST)       # subsequence of the terms of one degree
DTERM = z3.Function("differentiate_term", TERM.sort(), TSeq(TStr).sort(), z3.BoolSort(), TERM.sort())


def formula_axioms():
    th = SQ.theory(TERM.sort())
    a, b = z3.Consts("fm!a fm!b", ST)
    x, y = z3.Consts("fm!x fm!y", TERM.sort())
    i, j, d = z3.Ints("fm!i fm!j fm!d")
    deg = TERM.field_fn("degree")
    out = []
    for F in (BYDEG, BYLT):
        out += [SQ.forall([a], th.Len(F(a)) == th.Len(a), patterns=[F(a)]),
                SQ.forall([a, x], th.Has(F(a), x) == th.Has(a, x), patterns=[th.Has(F(a), x)])]
    out += [
        # sorted(key=degree): non-decreasing keys; stable
        z3.ForAll([a, i, j], z3.Implies(z3.And(0 <= i, i < j, j < th.Len(a)), deg(th.At(BYDEG(a), i)) <= deg(th.At(BYDEG(a), j))),
                  patterns=[z3.MultiPattern(th.At(BYDEG(a), i), th.At(BYDEG(a), j))]),
        z3.ForAll([a, d], DEGSUB(BYDEG(a), d) == DEGSUB(a, d), patterns=[DEGSUB(BYDEG(a), d)]),
        # extensionality, offered to the solver for the pairs of lists whose one-degree subsequences are compared
        z3.ForAll([a, b, d], z3.Implies(th.Eq(a, b), DEGSUB(a, d) == DEGSUB(b, d)), patterns=[z3.MultiPattern(DEGSUB(a, d), DEGSUB(b, d))]),
        # sorted() by Term.__lt__: no later element is smaller than an earlier one; Term.__lt__ orders by degree first
        z3.ForAll([a, i, j], z3.Implies(z3.And(0 <= i, i < j, j < th.Len(a)), z3.Not(TLT(th.At(BYLT(a), j), th.At(BYLT(a), i)))),
                  patterns=[z3.MultiPattern(th.At(BYLT(a), i), th.At(BYLT(a), j))]),
        z3.ForAll([x, y], z3.Implies(deg(x) < deg(y), TLT(x, y)), patterns=[TLT(x, y)]),
        z3.ForAll([x, y], z3.Implies(deg(x) > deg(y), z3.Not(TLT(x, y))), patterns=[TLT(x, y)]),
    ]
    return out


def n_sorted_terms(eng, args, kw, n, st):
    """sorted(terms, key=lambda term: term.degree)  /  sorted(terms)"""
    eng.uses_axioms(formula_axioms)
    s = args[0]
    if isinstance(s, V) and s.ty == TERM and not kw:
        return s           # sorted(term.factors): the factors of one term, which stand for the term itself on the quotient
    if not (isinstance(s, V) and isinstance(s.ty, TSeq) and s.ty.elem == TERM):
        raise OutOfSubset(n, f"sorted of something other than a list of terms: {s!r}")
    if "reverse" in kw:
        raise OutOfSubset(n, "sorted(reverse=)")
    if "key" in kw:
        k = kw["key"]
        if not isinstance(k, Closure):
            raise OutOfSubset(n, "sorted key is not a lambda")
        x = eng.fresh(st, TERM, "sortkey_arg")
        kv = eng.call(k, [x], {}, n, st)
        if not (isinstance(kv, V) and kv.ty is TInt and z3.eq(z3.simplify(kv.t), z3.simplify(TERM.field_fn("degree")(x.t)))):
            raise OutOfSubset(n, "sorted key other than the term's degree")
        return V(TSeq(TERM), BYDEG(s.t))
    return V(TSeq(TERM), BYLT(s.t))


def n_sorted_term_factors(eng, args, kw, n, st):
    return args[0]


def n_FTerm(eng, args, kw, n, st):
    """Term(factors=sorted(term.factors)) inside the SORT orderer: equal to `term` under Term.__eq__ (same factor set), same degree.
    Term([Factor(...), ...]) built from explicit factors: some term (nothing is known about it)."""
    it = kw.get("factors", args[0] if args else None)
    if isinstance(it, V) and it.ty == TERM:
        return it
    if isinstance(it, tuple) and all(isinstance(x, V) and x.ty == TObj("FactorObj") for x in it):
        return eng.fresh(st, TERM, "new_term")
    if isinstance(it, V) and isinstance(it.ty, TSeq) and it.ty.elem == TObj("FactorObj"):
        return eng.fresh(st, TERM, "new_term")
    raise OutOfSubset(n, "Term(...) from something other than the factors of one term or explicit Factor objects")


def n_FactorObj(eng, args, kw, n, st):
    return eng.fresh(st, TObj("FactorObj"), "factor")


def n_ordering(eng, args, kw, n, st):
    """OrderingMethod(x): the identity on members (and on an optional that is known to hold one)"""
    x = args[0]
    if isinstance(x, V) and isinstance(x.ty, TOpt) and x.ty.t == ORD:
        eng.require(st, "safe.none", n, x.ty.sort().is_some(x.t), "ValueError")
        return V(ORD, x.ty.sort().v(x.t))
    if isinstance(x, V) and x.ty == ORD:
        return x
    raise OutOfSubset(n, "OrderingMethod(<not a member>)")


def term_factors(eng, args, kw, n, st):
    return args[0]      # `term.factors` stands for the term itself on the quotient


term_factors.is_property = True
F = "formulaic/formula.py::SimpleFormula."
TERMS = "_SimpleFormula__terms"
SELF = {"__class__": "SimpleFormula", TERMS: TSeq(TERM), "ordering": ORD}
FENV = {
    "by_degree": lambda e, a, k, n, s: V(TSeq(TERM), BYDEG(a[0].t)),
    "by_lt": lambda e, a, k, n, s: V(TSeq(TERM), BYLT(a[0].t)),
    "term_lt": lambda e, a, k, n, s: V(TBool, TLT(a[0].t, a[1].t)),
    "with_degree": lambda e, a, k, n, s: V(TSeq(TERM), DEGSUB(a[0].t, a[1].t)),
    "dterm": lambda e, a, k, n, s: V(TERM, DTERM(a[0].t, a[1].t, a[2].t)),
}
# the ordering invariant of a formula: what `ordering` promises about the list of terms
ORDERED = ("implies(O == OrderingMethod.DEGREE, forall(lambda i, j: implies(0 <= i and i < j and j < len(TT), TT[i].degree <= TT[j].degree))) and "
           "implies(O == OrderingMethod.SORT, forall(lambda i, j: implies(0 <= i and i < j and j < len(TT), not term_lt(TT[j], TT[i]))))")
# ... and what re-ordering keeps of the list it started from (SRC): members, length, and the first-appearance order within a degree
PERM = ["len(TT) == len(SRC) and forall(lambda x=FTerm: (x in TT) == (x in SRC))",
        "implies(O == OrderingMethod.NONE, TT == SRC)",
        "implies(O == OrderingMethod.DEGREE, forall(lambda d: with_degree(TT, d) == with_degree(SRC, d)))"]


def build_formula(reg=None):
    reg = reg or Registry()
    cs = []
    reg.methods[("FTerm", "factors")] = term_factors

    def G():
        g = {"OrderingMethod": PyConst("OrderingMethod"), "OrderingMethod.__call__": n_ordering, "sorted": n_sorted_terms,
             "Term": PyConst("Term"), "Term.__call__": n_FTerm, "Factor": PyConst("Factor"), "Factor.__call__": n_FactorObj}
        for m in ORD.members:
            g["OrderingMethod." + m] = V(ORD, ORD.member(m))
        return g

    common = dict(spec_env=FENV, axioms=[formula_axioms])
    reorder = reg.add(Contract(
        F + "_reorder", params={"self": SELF, "ordering": TOpt(ORD)}, globals=G(), returns=None, **common,
        lets={"SRC": f"self.{TERMS}", "O": "ordering if ordering is not None else self.ordering"},
        ensures=[ORDERED.replace("TT", f"self.{TERMS}")] + [p.replace("TT", f"self.{TERMS}") for p in PERM] + ["self.ordering == old_self.ordering"],
        modifies=[TERMS], props=["C01", "C19"]))
    cs.append(reorder)
    validate = reg.add(Contract("SimpleFormula.__validate_terms", params={"cls": "Py", "terms": TSeq(TERM)}, returns=None, trusted=True,
                                notes="raises FormulaInvalidError unless every element is a Term; the elements are typed as terms here"),
                       as_method=("SimpleFormula", "_SimpleFormula__validate_terms"))
    reg.add(reorder, as_method=("SimpleFormula", "_reorder"))
    reorder.defaults = {"ordering": None}
    T0 = f"self.{TERMS}"
    NORM = "ite(key >= 0, key, key + len(T0))"
    post = [ORDERED.replace("TT", T0)] + [p.replace("TT", T0) for p in PERM] + ["self.ordering == old_self.ordering"]
    cs.append(reg.add(Contract(
        F + "__setitem__", params={"self": SELF, "key": "Int", "value": TERM}, globals=G(), returns=None, **common,
        lets={"T0": T0, "O": "self.ordering", "K": NORM, "SRC": f"T0[:{NORM}] + [value] + T0[{NORM} + 1:]"},
        raises={"IndexError": "not (-len(T0) <= key and key < len(T0))"},
        ensures=post, modifies=[TERMS], props=["C19"])))
    cs[-1].label = "int-key"
    cs.append(reg.add(Contract(
        F + "insert", params={"self": SELF, "index": "Int", "value": TERM}, globals=G(), returns=None, **common,
        # list.insert clamps the position into [0, len]
        lets={"T0": T0, "O": "self.ordering", "K": "ite(index >= 0, ite(index > len(T0), len(T0), index), ite(index + len(T0) < 0, 0, index + len(T0)))",
              "SRC": "T0[:K] + [value] + T0[K:]"},
        ensures=post, modifies=[TERMS], props=["C19"])))
    cs.append(reg.add(Contract(
        F + "__delitem__", params={"self": SELF, "key": "Int"}, globals=G(), returns=None, **common,
        lets={"T0": T0, "O": "self.ordering", "K": NORM, "SRC": "T0[:K] + T0[K + 1:]"},
        requires=[ORDERED.replace("TT", T0)],             # the ordering invariant holds on entry ...
        raises={"IndexError": "not (-len(T0) <= key and key < len(T0))"},
        ensures=[ORDERED.replace("TT", T0), f"{T0} == SRC", "self.ordering == old_self.ordering"],      # ... and on exit, with exactly that term removed
        modifies=[TERMS], props=["C19"])))
    cs[-1].label = "int-key"

    # ---- constructor and differentiate
    g = G()
    g.update({"MISSING": PyConst("MISSING"), "Iterable": PyConst("Iterable"), "FormulaInvalidError": PyConst("FormulaInvalidError")})
    init = reg.add(Contract(
        F + "__init__", params={"self": {"__class__": "SimpleFormula"}, "root": TSeq(TERM), "_ordering": ORD, "_parser": TOpt(TObj("Parser")),
                                "_nested_parser": TOpt(TObj("Parser")), "_context": TOpt(TObj("Context")), "structure": "Dict[Str,Obj]"},
        globals=g, returns=None, **common, requires=["len(structure) == 0"],
        lets={"SRC": "root", "O": "_ordering"},
        ensures=[ORDERED.replace("TT", T0)] + [p.replace("TT", T0) for p in PERM] + ["self.ordering == _ordering"],
        modifies=[TERMS, "ordering"], props=["C01", "C19", "C20"]))
    init.label = "terms,enum-ordering"
    init.defaults = {"_ordering": V(ORD, ORD.member("DEGREE")), "_parser": None, "_nested_parser": None, "_context": None, "structure": ("emptydict",)}
    cs.append(init)

    def n_SimpleFormula(eng, args, kw, n, st):
        obj = MObj("SimpleFormula", {TERMS: eng.fresh(st, TSeq(TERM), "new_terms"), "ordering": eng.fresh(st, ORD, "new_ordering")})
        eng.apply_contract(init, [obj] + list(args), kw, n, st)
        return obj

    # (a formula's `required_variables`: an opaque set of names - if `differentiate` ever consults it, nothing is known about its content)
    reg.add(Contract("SimpleFormula.required_variables", params={"self": "Py"}, returns=TSet(TStr), is_property=True, trusted=True,
                     notes="Formula.required_variables: an unconstrained set of names (AST variable extraction is bounded only)"),
            as_method=("SimpleFormula", "required_variables"))
    dt = Contract("differentiate_term", params={"term": TERM, "wrt": TSeq(TStr), "use_sympy": "Bool"}, returns=TERM, trusted=True, spec_env=FENV,
                  ensures=["result == dterm(term, wrt, use_sympy)"],
                  notes="differentiate_term is a function of its arguments; its full contract is proved in vf/proofs/c20.py")
    g2 = G()
    g2.update({"SimpleFormula": PyConst("SimpleFormula"), "SimpleFormula.__call__": n_SimpleFormula})
    cs.append(reg.add(Contract(
        F + "differentiate", params={"self": SELF, "wrt": TSeq(TStr), "use_sympy": "Bool"}, globals=g2, calls={"differentiate_term": dt}, **common,
        # same number and order of terms: the i-th term of the result is the derivative of the i-th term
        ensures=[f"len(result.{TERMS}) == len(self.{TERMS})",
                 f"forall(lambda i: implies(0 <= i and i < len(self.{TERMS}), result.{TERMS}[i] == dterm(self.{TERMS}[i], wrt, use_sympy)))",
                 "result.ordering == OrderingMethod.NONE"],
        modifies=[], props=["C20"])))
    return reg, cs


def build():
    reg = Registry()
    _, c1 = build_term(reg)
    _, c2 = build_formula(reg)
    return reg, c1 + c2


def _concrete_env():
    from formulaic.formula import OrderingMethod

    def with_degree(ts, d):
        return [t for t in ts if t.degree == d]

    return {
        "key_of": lambda fs: tuple(f.expr for f in sorted(fs)), "str_join": lambda sep, xs: sep.join(xs), "hash_str": hash,
        "dedup": lambda xs: tuple(dict.fromkeys(xs)), "sorted_factors": lambda fs: tuple(sorted(fs)),
        "lex_lt": lambda a, b: tuple(a) < tuple(b),
        "OrderingMethod": OrderingMethod, "term_lt": lambda a, b: a < b, "with_degree": with_degree,
        "by_degree": lambda ts: sorted(ts, key=lambda t: t.degree), "by_lt": lambda ts: sorted(ts),
        "dterm": lambda t, wrt, use_sympy: __import__("formulaic.utils.calculus", fromlist=["x"]).differentiate_term(t, wrt, use_sympy=use_sympy),
    }


def workloads():
    def w():
        import itertools
        import random

        from formulaic import Formula
        from formulaic.formula import OrderingMethod, SimpleFormula
        from formulaic.parser.types import Factor, Term

        rng = random.Random(11)
        names = ["a", "b", "c", "d", "1", "x:y"]
        pool = []
        for k in (1, 2, 3):
            for combo in itertools.permutations(names[:5], k):
                pool.append(Term([Factor(n_, eval_method="literal" if n_ == "1" else "lookup") for n_ in combo]))
        pool.append(Term([Factor("x:y", eval_method="lookup")]))
        for t1, t2 in itertools.islice(itertools.product(pool, pool), 0, None, 37):
            t1 == t2
            hash(t1)
            t1 * t2
        for _ in range(150):
            ordering = rng.choice(list(OrderingMethod))
            f = SimpleFormula([rng.choice(pool) for _ in range(rng.randrange(6))], _ordering=ordering)
            for _ in range(rng.randrange(5)):
                op = rng.randrange(4)
                try:
                    if op == 0:
                        f[rng.randrange(-7, 7)] = rng.choice(pool)
                    elif op == 1:
                        f.insert(rng.randrange(-7, 8), rng.choice(pool))
                    elif op == 2:
                        del f[rng.randrange(-7, 7)]
                    else:
                        f.differentiate(*[rng.choice("abcq") for _ in range(rng.randrange(1, 3))])
                except IndexError:
                    pass
        for s_ in ["a + b + a:b", "b:a + a + c:a:b + 1", "(a+b+c)**3 - a:b:c", "x + log(x) + a:x"]:
            Formula(s_)
            Formula(s_, _ordering="sort")
            Formula(s_, _ordering="none")

    return [w]


def run_terms(ctx, prop):
    """the Term / SimpleFormula contracts that carry `prop`"""
    ctx.assume("A-eq(Term): Factor modelled modulo Factor.__eq__ (expr); in the SimpleFormula proofs a Term is modelled modulo Term.__eq__ together with its degree",
               "A-lib(sorted): sorted() is a stable sort: a permutation with non-decreasing keys that keeps the order within one key; sorting the factors "
               "by a total order is a canonical form of the factor set (key_of)",
               "A-lib(list): list.__setitem__/insert/__delitem__ with an int position as encoded by vf/pyvc/engine.py (negative positions count from the end; insert clamps)")
    reg, cs = build()
    mine = [c for c in cs if prop in c.props]
    run_contracts(ctx, mine, reg, workloads=workloads(), concrete_env=_concrete_env())
