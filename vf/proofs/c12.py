"""C12 — deductive part: the Cox-de Boor recursion of basis_spline against the B-spline spec function (vf/proofs/c12_bspline.py)."""


def run_proofs(ctx):
    from vf.proofs.c12_bspline import run_proofs as bs

    bs(ctx)
