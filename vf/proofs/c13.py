"""C13 / C04 — `scale` (formulaic/transforms/scale.py) under contract.

Arrays are an abstract sort with uninterpreted aggregates; floating point is treated as real
arithmetic (assumption A-float).  Library contracts (numpy, column vector / axis=0 semantics):

   mean(a) = sum(a)/len(a)          sum(a - c) = sum(a) - c*len(a)       len(a - c) = len(a / c) = len(a)
   sum(a / c) = sum(a)/c            sum((a / c)**2) = sum(a**2)/c**2      sqrt(x)**2 = x  (x >= 0)

`_state` is a dict with statically known string keys; the two variants verified are the ones the
property distinguishes: FIT (empty state: statistics are learned) and REPLAY (complete state: the
recorded statistics are applied unchanged and nothing is written).
The decorator @stateful_transform (singledispatch + state threading) is dropped by extraction; its
behaviour is exercised by the bounded drivers of C04/C13.
"""
from __future__ import annotations

import z3

from vf.pyvc.contracts import Contract, Registry
from vf.pyvc.engine import MObj, OutOfSubset, PyConst, lift
from vf.pyvc.run import run_contracts
from vf.pyvc.types import TNone, TBool, TInt, TObj, TOpt, TReal, V

ARR = TObj("Arr")
A, R, I = ARR.sort(), z3.RealSort(), z3.IntSort()
MEAN, SUM = z3.Function("mean", A, R), z3.Function("sum", A, R)
LEN = z3.Function("len_arr", A, I)
SUBS, DIVS = z3.Function("arr_sub", A, R, A), z3.Function("arr_div", A, R, A)
SQ = z3.Function("arr_sq", A, A)
SQRT = z3.Function("sqrt", R, R)


def numpy_axioms():
    a = z3.Const("np!a", A)
    c, x = z3.Reals("np!c np!x")
    n = z3.ToReal(LEN(a))
    return [
        z3.ForAll([a], LEN(a) >= 0, patterns=[LEN(a)]),
        z3.ForAll([a], z3.Implies(LEN(a) > 0, MEAN(a) == SUM(a) / n), patterns=[MEAN(a)]),
        z3.ForAll([a, c], z3.And(SUM(SUBS(a, c)) == SUM(a) - c * n, LEN(SUBS(a, c)) == LEN(a)), patterns=[SUBS(a, c)]),
        z3.ForAll([a, c], z3.Implies(c != 0, z3.And(SUM(DIVS(a, c)) == SUM(a) / c, LEN(DIVS(a, c)) == LEN(a),
                                                   SUM(SQ(DIVS(a, c))) == SUM(SQ(a)) / (c * c))), patterns=[DIVS(a, c)]),
        z3.ForAll([a], SUM(SQ(a)) >= 0, patterns=[SQ(a)]),
        z3.ForAll([x], z3.Implies(x >= 0, z3.And(SQRT(x) * SQRT(x) == x, SQRT(x) >= 0)), patterns=[SQRT(x)]),
    ]


def _real(v):
    if v.ty is TNone:
        return z3.Real("real!of-None")     # only reachable under a guard that excludes None: unconstrained
    if isinstance(v.ty, TOpt):
        v = V(v.ty.t, v.ty.sort().v(v.t))
    if v.ty is TInt:
        return z3.ToReal(v.t)
    return v.t


def n_array(eng, args, kw, n, st):
    return args[0]


def _only_axis0(kw, n, what):
    """the library contract covers the plain column aggregate only: any other keyword (dtype=, keepdims=, where=, ...) changes what numpy computes"""
    for k_, v_ in kw.items():
        t = z3.simplify(v_.t) if isinstance(v_, V) and v_.t is not None else None
        if not (k_ == "axis" and t is not None and z3.is_int_value(t) and t.as_long() == 0):
            raise OutOfSubset(n, f"{what}(..., {k_}=...) has no library contract")


def n_mean(eng, args, kw, n, st):
    _only_axis0(kw, n, "numpy.mean")
    if len(args) != 1:
        raise OutOfSubset(n, "numpy.mean with positional options")
    return V(TReal, MEAN(args[0].t))


def n_sum(eng, args, kw, n, st):
    _only_axis0(kw, n, "numpy.sum")
    if len(args) != 1:
        raise OutOfSubset(n, "numpy.sum with positional options")
    return V(TReal, SUM(args[0].t))


def n_sqrt(eng, args, kw, n, st):
    return V(TReal, SQRT(_real(args[0])))


def arr_sub(eng, args, kw, n, st):
    return V(ARR, SUBS(args[0].t, _real(args[1])))


def arr_div(eng, args, kw, n, st):
    eng.require(st, "safe.div", n, _real(args[1]) != 0, None, "division of an array by zero (numpy yields inf/nan)")
    return V(ARR, DIVS(args[0].t, _real(args[1])))


def arr_pow(eng, args, kw, n, st):
    p = z3.simplify(args[1].t)
    if not (z3.is_int_value(p) and p.as_long() == 2):
        raise OutOfSubset(n, "array power other than 2")
    return V(ARR, SQ(args[0].t))


def arr_shape(eng, args, kw, n, st):
    return (V(TInt, LEN(args[0].t)),)


arr_shape.is_property = True
DTYPE = TObj("DType")
DTYPE_OF = z3.Function("dtype_of", A, DTYPE.sort())
KIND_OF = z3.Function("dtype_kind", DTYPE.sort(), z3.StringSort())


def arr_dtype(eng, args, kw, n, st):
    return V(DTYPE, DTYPE_OF(args[0].t))


arr_dtype.is_property = True


def dtype_kind(eng, args, kw, n, st):
    from vf.pyvc.types import TStr

    return V(TStr, KIND_OF(args[0].t))


dtype_kind.is_property = True


def arr_astype(eng, args, kw, n, st):
    """data.astype(float): the same values as floats (the arrays of the model hold reals: conversion of integers / booleans is exact - A-float)"""
    if not (len(args) == 2 and isinstance(args[1], PyConst) and args[1].name == "float"):
        raise OutOfSubset(n, "astype of something other than float")
    return args[0]

SPEC_ENV = {
    "mean": lambda e, a, k, n, s: V(TReal, MEAN(a[0].t)), "sumsq": lambda e, a, k, n, s: V(TReal, SUM(SQ(a[0].t))),
    "nrows": lambda e, a, k, n, s: V(TInt, LEN(a[0].t)), "sqrt": lambda e, a, k, n, s: V(TReal, SQRT(_real(a[0]))),
    "centered": lambda e, a, k, n, s: V(ARR, SUBS(a[0].t, _real(a[1]))), "scaled": lambda e, a, k, n, s: V(ARR, DIVS(a[0].t, _real(a[1]))),
}
G = {"numpy": PyConst("numpy"), "float": PyConst("float"), "numpy.array": n_array, "numpy.mean": n_mean, "numpy.sum": n_sum, "numpy.sqrt": n_sqrt}
T = "formulaic/transforms/scale.py::scale"


def build():
    reg = Registry()
    reg.methods[("Arr", "__sub__")] = arr_sub
    reg.methods[("Arr", "__truediv__")] = arr_div
    reg.methods[("Arr", "__pow__")] = arr_pow
    reg.methods[("Arr", "shape")] = arr_shape
    reg.methods[("Arr", "dtype")] = arr_dtype
    reg.methods[("Arr", "astype")] = arr_astype
    reg.methods[("DType", "kind")] = dtype_kind
    cs = []
    common = dict(returns=ARR, globals=G, spec_env=SPEC_ENV, axioms=[numpy_axioms], props=["C13", "C04"])
    # FIT: empty state, center=True, scale=True
    fit = Contract(
        T, params={"data": "Arr", "center": "Bool", "scale": "Bool", "ddof": "Real", "_state": {"__class__": "StrKeyDict"}},
        lets={"n": "nrows(data)", "m": "mean(data)", "q": "sumsq(centered(data, mean(data)))"},
        requires=["center and scale", "nrows(data) > ddof", "nrows(data) > 0",
                  "sumsq(centered(data, mean(data))) > 0"],       # non-constant data (a constant vector has no unit-variance scaling)
        ensures=[
            "mean(result) == 0",                                   # zero mean on the data it is fitted on
            "sumsq(result) / (n - ddof) == 1",                     # unit standard deviation for the chosen ddof
            "_state['ddof'] == ddof and _state['center'] == m and _state['scale'] == sqrt(q / (n - ddof))",   # recorded statistics
        ], modifies=["ddof", "center", "scale"], **common)
    fit.label = "fit"
    cs.append(fit)
    # REPLAY: complete state -> recorded statistics applied unchanged, nothing written
    rep = Contract(
        T, params={"data": "Arr", "center": "Bool", "scale": "Bool", "ddof": "Real",
                   "_state": {"__class__": "StrKeyDict", "ddof": "Real", "center": "Opt[Real]", "scale": "Opt[Real]"}},
        requires=["implies(_state['scale'] is not None, _state['scale'] != 0)"],
        ensures=[
            "implies(_state['center'] is not None and _state['scale'] is not None, result == scaled(centered(old_data, _state['center']), _state['scale']))",
            "implies(_state['center'] is not None and _state['scale'] is None, result == centered(old_data, _state['center']))",
            "implies(_state['center'] is None and _state['scale'] is not None, result == scaled(old_data, _state['scale']))",
            "implies(_state['center'] is None and _state['scale'] is None, result == old_data)",
            "_state['ddof'] == old__state['ddof'] and _state['center'] == old__state['center'] and _state['scale'] == old__state['scale']",
        ], modifies=[], **common)
    rep.label = "replay"
    cs.append(rep)
    return reg, cs


def build_standardize():
    """patsy-compatible `standardize(x, center, rescale, ddof, _state)` is `scale` with ddof=0 by default and the SAME state object: the statistics are
    recorded in (and replayed from) the state the stateful-transform machinery hands to `standardize` (formulaic/transforms/patsy_compat.py)."""
    from vf.pyvc.types import TObj

    reg = Registry()
    STATE, ANY = TObj("StateRef"), TObj("AnyValue")
    f = lambda name, *tys: z3.Function(name, *[t.sort() for t in tys])
    SCALE = f("scale_call", ANY, TBool_(), TBool_(), TReal_(), STATE, ANY)
    scale_k = Contract("scale", params={"data": ANY, "center": "Bool", "scale": "Bool", "ddof": "Real", "_state": STATE}, returns=ANY, trusted=True,
                       spec_env={"scale_call": lambda e, a, k, n, s: V(ANY, SCALE(*[x.t for x in a]))},
                       ensures=["result == scale_call(data, center, scale, ddof, _state)"],
                       notes="formulaic.transforms.scale.scale (proved in this module for the fit and replay variants); here a function of its arguments INCLUDING the state object")
    c = Contract(
        "formulaic/transforms/patsy_compat.py::standardize", params={"x": ANY, "center": "Bool", "rescale": "Bool", "ddof": "Real", "_state": STATE}, returns=ANY,
        calls={"scale": scale_k}, spec_env={"scale_call": lambda e, a, k, n, s: V(ANY, SCALE(*[x.t for x in a]))},
        ensures=["result == scale_call(x, center, rescale, ddof, _state)"], modifies=[], props=["C13", "C04"])
    return reg, [reg.add(c)]


def TBool_():
    from vf.pyvc.types import TBool

    return TBool


def TReal_():
    from vf.pyvc.types import TReal

    return TReal


def _np(x):
    import numpy

    return numpy.asarray(x, dtype=float)


CONCRETE_ENV = {
    "mean": lambda a: _np(a).mean(axis=0), "sumsq": lambda a: (_np(a) ** 2).sum(axis=0), "nrows": lambda a: _np(a).shape[0],
    "sqrt": lambda x: __import__("numpy").sqrt(x), "centered": lambda a, c: _np(a) - c, "scaled": lambda a, c: _np(a) / c,
}


def workloads():
    def w():
        import warnings

        import numpy as np
        import pandas as pd

        import formulaic

        rng = np.random.default_rng(11)
        frames = [pd.DataFrame({"a": rng.normal(3, 2, size=n), "b": rng.uniform(1, 9, size=n)}) for n in (3, 12, 64, 150)]
        for f in ("scale(a)", "center(b) + scale(a)", "scale(a, ddof=0)", "scale(a, center=False)", "scale(b, scale=False)", "scale(a):center(b)"):
            for train in frames:
                with warnings.catch_warnings():
                    warnings.simplefilter("ignore")
                    mm = formulaic.model_matrix(f, train)
                    for other in frames:
                        mm.model_spec.get_model_matrix(other)

    return [w]


def run_proofs(ctx):
    reg, cs = build()
    ctx.assume("A-float: floating point treated as real arithmetic", "A-lib(numpy): aggregate/broadcast axioms listed in vf/proofs/c13.py (column-vector semantics)",
               "@stateful_transform dropped by extraction (state threading exercised by the bounded drivers)")
    run_contracts(ctx, cs, reg, workloads=workloads(), concrete_env=CONCRETE_ENV)
    reg2, cs2 = build_standardize()
    run_contracts(ctx, cs2, reg2)
