"""C17 — `LayeredMapping.get_with_layer_name` (formulaic/utils/layered_mapping.py): the layer a name is REPORTED to come from is found along
the same top-first path as the value a lookup returns.

From the statement: "every name is resolved data first, then the caller's context, then the built-in transforms ... and the layer a name is
reported to come from is the layer that supplies it".  `ModelSpec.variables_by_source` is computed with `get_layer_name_for_key` ->
`get_with_layer_name`; evaluation uses `LayeredMapping.__getitem__` (first layer wins: vf/proofs/c19.py).  Contract, for every mapping
(private layer + any sequence of supplied layers, each a plain mapping or a nested LayeredMapping), key and default:

    value   result[0] is the value of the FIRST layer (private layer first, then the supplied layers in order) that holds the key - the very
            clause proved for __getitem__ - and `default` if no layer holds it;
    found   no layer holds the key                      =>  result == (default, None)
            the private layer holds it                  =>  result[1] is this mapping's qualified name (path + own name; the path alone, or None)
            a plain supplied layer is the first holder   =>  result[1] is this mapping's qualified name
            a nested LayeredMapping is the first holder  =>  result is what THAT mapping reports for the key under the extended path (modular:
                                                            the recursive call is replaced by this contract)

Model: a supplied layer is an opaque object with `holds(layer, key)` / `value(layer, key)` (its `in` / `[]`, guarded by membership as
everywhere - A-layer) and `nested(layer)` (it is a LayeredMapping); for a nested layer holds/value are ITS lookups (proved in c19: a
LayeredMapping behaves as the top-first merge of its layers).  `":".join(parts)` is an uninterpreted function of the parts.
"""
from __future__ import annotations

import z3

from vf.pyvc import seqs as SQ
from vf.pyvc.contracts import Contract, Registry
from vf.pyvc.engine import OutOfSubset, PyConst
from vf.pyvc.types import TBool, TDict, TObj, TOpt, TSeq, TStr, TTup, V

KEY, VAL, LAYER = TObj("Key17"), TObj("Val17"), TObj("Layer17")
OSTR = TOpt(TStr)
PATH = TSeq(TStr)
RES = TTup(VAL, OSTR)
HOLDS = z3.Function("layer_holds", LAYER.sort(), KEY.sort(), z3.BoolSort())
VALUE = z3.Function("layer_value", LAYER.sort(), KEY.sort(), VAL.sort())
NESTED = z3.Function("layer_is_layered_mapping", LAYER.sort(), z3.BoolSort())
JOIN = z3.Function("colon_join", PATH.sort(), z3.StringSort())
REPORT = z3.Function("nested_report", LAYER.sort(), KEY.sort(), PATH.sort(), RES.sort())      # what a nested mapping reports under a path


def build():
    reg = Registry()
    cs = []

    def layer_contains(eng, args, kw, n, st):
        return V(TBool, HOLDS(args[0].t, eng.coerce(args[1], KEY, n).t))

    def layer_getitem(eng, args, kw, n, st):
        k = eng.coerce(args[1], KEY, n)
        eng.require(st, "safe.key", n, HOLDS(args[0].t, k.t), None, "lookup in a supplied layer not guarded by membership (A-layer)")
        return V(VAL, VALUE(args[0].t, k.t))

    reg.methods[("Layer17", "__contains__")] = layer_contains
    reg.methods[("Layer17", "__getitem__")] = layer_getitem

    def n_isinstance(eng, args, kw, n, st):
        v, cls = args
        if isinstance(v, V) and v.ty == LAYER and isinstance(cls, PyConst) and cls.name == "LayeredMapping":
            return V(TBool, NESTED(v.t))
        raise OutOfSubset(n, "isinstance test other than (layer, LayeredMapping)")

    def n_join(eng, args, kw, n, st):
        """':'.join(parts)"""
        sep, parts = args
        if isinstance(parts, tuple):
            parts = eng.coerce(parts, PATH, n)
        return V(TStr, JOIN(eng.coerce(parts, PATH, n).t))

    def layer_report(eng, args, kw, n, st):
        """layer.get_with_layer_name(key, _path=...) on a nested LayeredMapping: THIS contract, applied to the nested mapping (modular recursion):
        value clause over the nested mapping's own lookups, and the report named by a ghost function of (mapping, key, path)"""
        layer, key = args[0], eng.coerce(args[1], KEY, n)
        if set(kw) - {"_path"} or len(args) != 2:
            raise OutOfSubset(n, "recursive call with other arguments (default is not forwarded by the code)")
        eng.require(st, "safe.attr", n, NESTED(layer.t), "AttributeError", "get_with_layer_name on a plain mapping")
        path = kw.get("_path")
        path = eng.coerce(path, PATH, n) if path is not None else V(PATH, SQ.empty(PATH.sort()))
        r = V(RES, REPORT(layer.t, key.t, path.t))
        # inductive hypothesis (value clause of the contract for the nested mapping): what it holds, it reports with its own value
        st.assume(z3.Implies(HOLDS(layer.t, key.t), RES.sort().accessor(0, 0)(r.t) == VALUE(layer.t, key.t)))
        return r

    reg.methods[("Layer17", "get_with_layer_name")] = layer_report
    env = {
        "holds": lambda e, a, k, n, s: V(TBool, HOLDS(a[0].t, a[1].t)),
        "value": lambda e, a, k, n, s: V(VAL, VALUE(a[0].t, a[1].t)),
        "nested": lambda e, a, k, n, s: V(TBool, NESTED(a[0].t)),
        "join": lambda e, a, k, n, s: V(TStr, JOIN(a[0].t)),
        "the": lambda e, a, k, n, s: V(a[0].ty.t, a[0].ty.sort().v(a[0].t)),
        "report": lambda e, a, k, n, s: V(RES, REPORT(a[0].t, a[1].t, a[2].t)),
    }
    def qual(e, a, k, n, s):
        """qualified name of a mapping under a path: path + own name joined by ':'; the joined path alone if it has no name; None if that is empty"""
        name, path = a
        o = OSTR.sort()
        named = z3.And(o.is_some(name.t), o.v(name.t) != z3.StringVal(""))
        full = SQ.concat(path.t, SQ.unit(PATH.sort(), o.v(name.t)))
        return V(OSTR, z3.If(named, o.some(JOIN(full)), z3.If(JOIN(path.t) != z3.StringVal(""), o.some(JOIN(path.t)), o.none)))

    def ext(e, a, k, n, s):
        name, path = a
        o = OSTR.sort()
        named = z3.And(o.is_some(name.t), o.v(name.t) != z3.StringVal(""))
        return V(PATH, z3.If(named, SQ.concat(path.t, SQ.unit(PATH.sort(), o.v(name.t))), path.t))

    env["qualified"] = qual
    env["extended"] = ext
    SELF = {"__class__": "LayeredMapping", "_mutations": TDict(KEY, VAL), "_layers": TSeq(LAYER), "name": OSTR}
    FIRST = "0 <= i and i < len(self._layers) and holds(self._layers[i], key) and forall(lambda j: implies(0 <= j and j < i, not holds(self._layers[j], key)))"
    QUAL = "qualified(self.name, _path)"
    c = Contract(
        "formulaic/utils/layered_mapping.py::LayeredMapping.get_with_layer_name",
        params={"self": SELF, "key": KEY, "default": VAL, "_path": PATH}, returns=RES,
        globals={"isinstance": n_isinstance, "LayeredMapping": PyConst("LayeredMapping"), "str.join": n_join}, spec_env=env, no_monitor=True, strict_lookup=True,
        local_types={"name": OSTR}, raises={},
        loops={0: {"inv": ["forall(lambda j: implies(0 <= j and j < _i, not holds(self._layers[j], key)))"]}},
        ensures=[
            # -- value: the first holder's value (the clause of __getitem__), default if nobody holds the key
            "implies(key in self._mutations, result[0] == self._mutations[key])",
            f"implies(key not in self._mutations, forall(lambda i: implies({FIRST}, result[0] == value(self._layers[i], key))))",
            "implies(key not in self._mutations and forall(lambda i: implies(0 <= i and i < len(self._layers), not holds(self._layers[i], key))), result[0] == default and result[1] is None)",
            # -- reported layer
            f"implies(key in self._mutations, result[1] == {QUAL})",
            f"implies(key not in self._mutations, forall(lambda i: implies({FIRST} and not nested(self._layers[i]), result[1] == {QUAL})))",
            f"implies(key not in self._mutations, forall(lambda i: implies({FIRST} and nested(self._layers[i]), "
            "result == report(self._layers[i], key, extended(self.name, _path)))))",
        ], modifies=[], props=["C17", "C19"])
    cs.append(reg.add(c))
    return reg, cs


def run_proofs(ctx):
    from vf.pyvc.run import run_contracts

    reg, cs = build()
    ctx.assume("get_with_layer_name: supplied layers are opaque (holds / value, lookups guarded by membership: A-layer); a nested LayeredMapping's holds / value are its "
               "own lookups (c19); the recursive call is replaced by this contract (modular; termination of the recursion = finite nesting, not proved); "
               "':'.join is an uninterpreted function of the parts")
    run_contracts(ctx, cs, reg)
