"""C03 — the rank-reduction bookkeeping under contract: `FormulaMaterializer._simplify_scoped_terms` (formulaic/materializers/base.py).

Abstraction (DESIGN.md Part II, C03): on data containing every combination of levels, the column space of a scoped term T with factor
set F_T, of which the factors R_T are emitted in reduced form, is the direct sum of the "pure interaction" subspaces W_A over the ATOMS
        cover(T) = { A : R_T u (F_T \\ SPANNING) <= A <= F_T }
(a factor that spans the intercept and is emitted at full rank contributes its own main effect or nothing; a reduced factor, and a factor
that does not span the intercept - a plain numeric column - is always present)
so a set of scoped terms is structurally full rank iff the covers of its members are pairwise disjoint, and two sets span the same space
iff the unions of their covers agree.  (That linear-algebra fact is argued in DESIGN.md and validated numerically by the bounded
driver; it is NOT mechanised.)  What IS proved here, for every input set, is the combinatorial half that the code implements:

    atoms(result) == atoms(scoped_terms)                            the greedy recombination neither loses nor invents an atom
    covers pairwise disjoint in  ==>  covers pairwise disjoint out  ... nor makes two emitted terms overlap

The rule `(anything):(reduced a) + (anything)  ->  (anything):(full a)` is exactly  cover(E) U cover(N) = cover(M)  with E, N disjoint.

Model: a ScopedTerm value is determined by (F, R) with R <= F  (ScopedTerm.__eq__ compares the set of scoped factors - proved in
vf/proofs/small.py; each evaluated factor occurs at most once in a scoped term - obligation at every construction site).  `.factors`
is an enumeration of {(e, e in R) : e in F}; set(), len(), -, next(iter()) are the Python operations the function uses on it.
The recursion is verified modularly (the recursive call is replaced by this very contract): partial correctness; termination of the
recursion is not proved.
"""
from __future__ import annotations

import z3

from vf.pyvc import seqs as SQ
from vf.pyvc import stdlib
from vf.pyvc.contracts import Contract, Registry
from vf.pyvc.engine import MObj, OutOfSubset, PyConst, lift
from vf.pyvc.run import run_contracts
from vf.pyvc.types import TBool, TObj, TReal, TSeq, TSet, V
from vf.proofs.c02 import EF, SFAC, n_ScopedFactor

STERM = TObj("STerm")
SETEF = TSet(EF)
F_ = z3.Function("st_F", STERM.sort(), SETEF.sort())
R_ = z3.Function("st_R", STERM.sort(), SETEF.sort())
FSEQ = z3.Function("st_factors", STERM.sort(), TSeq(SFAC).sort())
fac = lambda sf: SFAC.get(sf, "factor")
red = lambda sf: SFAC.get(sf, "reduced")


SFS = z3.Function("st_factor_set", STERM.sort(), TSet(SFAC).sort())     # the scoped factors of a term, as a set
CHOOSE = z3.Function("choose_sfac", TSet(SFAC).sort(), SFAC.sort())       # next(iter(S)): some member of S


def sterm_axioms():
    t = z3.Const("sx!t", STERM.sort())
    sf = z3.Const("sx!sf", SFAC.sort())
    e = z3.Const("sx!e", EF.sort())
    card = stdlib.card_fn(SFAC)
    a, b, d = z3.Consts("sx!a sx!b sx!d", TSet(SFAC).sort())
    T, Fa = z3.BoolVal(True), z3.BoolVal(False)
    return [
        # (F, R) representation of the set of scoped factors {(e, e in R) : e in F}
        z3.ForAll([t, sf], z3.IsMember(sf, SFS(t)) == z3.And(z3.IsMember(fac(sf), F_(t)), red(sf) == z3.IsMember(fac(sf), R_(t))), patterns=[z3.IsMember(sf, SFS(t))]),
        z3.ForAll([t, e], z3.IsMember(e, F_(t)) == z3.Or(z3.IsMember(SFAC.mk(e, T), SFS(t)), z3.IsMember(SFAC.mk(e, Fa), SFS(t))), patterns=[z3.IsMember(e, F_(t))]),
        z3.ForAll([t, e], z3.IsMember(e, R_(t)) == z3.IsMember(SFAC.mk(e, T), SFS(t)), patterns=[z3.IsMember(e, R_(t))]),
        z3.ForAll([t], z3.IsSubset(R_(t), F_(t)), patterns=[SFS(t)]),
        # finite-set cardinality lemma (library): |F \\ C| == 1 and |F| - 1 == |C|  ==>  C is a subset of F   [ |F & C| = |F| - |F \\ C| = |C| ]
        z3.ForAll([a, b, d], z3.Implies(z3.And(d == z3.SetDifference(a, b), card(d) == 1, card(a) - 1 == card(b)), z3.IsSubset(b, a)),
                  patterns=[z3.MultiPattern(card(a), card(b), card(d))]),
        z3.ForAll([a], z3.Implies(a != z3.EmptySet(SFAC.sort()), z3.IsMember(CHOOSE(a), a)), patterns=[CHOOSE(a)]),
    ]


def st_factors(eng, args, kw, n, st):
    """`.factors`: the tuple of scoped factors; modelled as the SET of them (no duplicates by construction, order irrelevant to the contract)"""
    eng.uses_axioms(sterm_axioms)
    fs = eng.fresh(st, TSet(SFAC), "factors")     # a name for the set: keeps the solver's queries about it local
    st.assume(fs.t == SFS(args[0].t))
    return fs


def n_next(eng, args, kw, n, st):
    it = args[0]
    if isinstance(it, tuple) and it and it[0] == "iter" and isinstance(it[1], V) and it[1].ty == TSet(SFAC):
        S = it[1]
        eng.uses_axioms(sterm_axioms)
        eng.require(st, "safe.next", n, S.t != z3.EmptySet(SFAC.sort()), "StopIteration")
        return V(SFAC, CHOOSE(S.t))
    raise OutOfSubset(n, "next() of something other than iter(<set of scoped factors>)")


st_factors.is_property = True


def st_scale(eng, args, kw, n, st):
    return eng.fresh(st, TReal, "scale")


st_scale.is_property = True


def n_ScopedTerm(eng, args, kw, n, st):
    """ScopedTerm(factors, scale=...): factors = tuple(dict.fromkeys(factors)).  The new value is determined by the scoped factors it is given;
    obligation: no evaluated factor occurs with both flags (representation invariant of the (F, R) model)."""
    g = args[0] if args else kw["factors"]
    if isinstance(g, tuple):
        g = eng.coerce(g, TSeq(SFAC), n)
    if not (isinstance(g, V) and isinstance(g.ty, TSeq) and g.ty.elem == SFAC):
        raise OutOfSubset(n, f"ScopedTerm({g!r})")
    eng.uses_axioms(sterm_axioms)
    th = SQ.theory(SFAC.sort())
    i, j = z3.Ints("ct!i ct!j")
    once = z3.ForAll([i, j], z3.Implies(z3.And(0 <= i, i < th.Len(g.t), 0 <= j, j < th.Len(g.t), fac(th.At(g.t, i)) == fac(th.At(g.t, j))), th.At(g.t, i) == th.At(g.t, j)),
                     patterns=[z3.MultiPattern(th.At(g.t, i), th.At(g.t, j))])
    eng.oblige(st, "call.pre[ScopedTerm#each-factor-once]", n, once, "each evaluated factor occurs with one reduced flag in a scoped term")
    m = eng.fresh(st, STERM, "scoped_term")
    e0 = z3.Const("ct!e", EF.sort())
    T, Fa = z3.BoolVal(True), z3.BoolVal(False)
    st.assume(z3.ForAll([e0], z3.IsMember(e0, R_(m.t)) == th.Has(g.t, SFAC.mk(e0, T)), patterns=[z3.IsMember(e0, R_(m.t))]))
    st.assume(z3.ForAll([e0], z3.IsMember(e0, F_(m.t)) == z3.Or(th.Has(g.t, SFAC.mk(e0, T)), th.Has(g.t, SFAC.mk(e0, Fa))), patterns=[z3.IsMember(e0, F_(m.t))]))
    return m


def n_OrderedSet(eng, args, kw, n, st):
    return stdlib.oset_new(eng, args[0] if args else (), STERM, n, st)


def n_sorted(eng, args, kw, n, st):
    """sorted(terms, key=...): some permutation (the contract does not depend on the order)"""
    if set(kw) - {"key", "reverse"}:
        raise OutOfSubset(n, "sorted with an option other than key= / reverse=")
    s = args[0]
    if not (isinstance(s, V) and isinstance(s.ty, TSeq) and s.ty.elem == STERM):
        raise OutOfSubset(n, "sorted of something other than scoped terms")
    th = SQ.theory(STERM.sort())
    r = eng.fresh(st, TSeq(STERM, nodup=True), "sorted")
    x = z3.Const("so!x", STERM.sort())
    st.assume(th.Len(r.t) == th.Len(s.t))
    st.assume(z3.ForAll([x], th.Has(r.t, x) == th.Has(s.t, x), patterns=[th.Has(r.t, x)]))
    st.assume(z3.ForAll([x], th.Has(r.t, x) == th.Has(s.t, x), patterns=[th.Has(s.t, x)]))
    return r


ATOMSET = TSet(SETEF)                      # a set of atoms
SPAN = z3.Const("spanning_factors", SETEF.sort())      # the evaluated factors whose encoding spans the intercept (categoricals, bs(..., include_intercept=True))
WF = z3.Function("reduced_only_if_spanning", TSeq(STERM).sort(), z3.BoolSort())
COVER = z3.Function("cover", STERM.sort(), ATOMSET.sort())                 # { A : R(t) <= A <= F(t) }
UNION = z3.Function("atoms", TSeq(STERM).sort(), ATOMSET.sort())           # union of the covers of the members of a sequence


def atoms_axioms():
    th = SQ.theory(STERM.sort())
    a, b = z3.Consts("au!a au!b", th.S)
    A = z3.Const("au!A", SETEF.sort())
    t, x = z3.Consts("au!t au!x", STERM.sort())
    D = stdlib.dedup_fn(STERM)
    U = z3.SetUnion
    return [
        # definitional: the cover of a scoped term
        z3.ForAll([t, A], z3.IsMember(A, COVER(t)) == z3.And(z3.IsSubset(z3.SetUnion(R_(t), z3.SetDifference(F_(t), SPAN)), A), z3.IsSubset(A, F_(t))),
                  patterns=[z3.IsMember(A, COVER(t))]),
        # definitional: atoms(S) is the union of the covers of the members of S (stated over the sequence constructors and over membership)
        UNION(th.Empty) == z3.EmptySet(SETEF.sort()),
        z3.ForAll([a, t], UNION(th.Build(a, t)) == U(UNION(a), COVER(t)), patterns=[UNION(th.Build(a, t))]),
        z3.ForAll([a, b], UNION(th.App(a, b)) == U(UNION(a), UNION(b)), patterns=[UNION(th.App(a, b))]),
        z3.ForAll([a], UNION(D(a)) == UNION(a), patterns=[UNION(D(a))]),
        z3.ForAll([a, x], z3.Implies(th.Has(a, x), z3.IsSubset(COVER(x), UNION(a))), patterns=[z3.MultiPattern(th.Has(a, x), UNION(a))]),
        z3.ForAll([a, A], z3.Implies(z3.IsMember(A, UNION(a)), z3.Exists([x], z3.And(th.Has(a, x), z3.IsMember(A, COVER(x))), patterns=[th.Has(a, x)])),
                  patterns=[z3.IsMember(A, UNION(a))]),
        z3.ForAll([a, b], z3.Implies(z3.ForAll([x], th.Has(a, x) == th.Has(b, x), patterns=[th.Has(a, x), th.Has(b, x)]), UNION(a) == UNION(b)),
                  patterns=[z3.MultiPattern(UNION(a), UNION(b))]),
    ]


DISJ = z3.Function("disjoint_covers", TSeq(STERM).sort(), z3.BoolSort())     # no atom is covered by two different members


def disj_axioms():
    th = SQ.theory(STERM.sort())
    a = z3.Const("dj!a", th.S)
    x, y = z3.Consts("dj!x dj!y", STERM.sort())
    E0 = z3.EmptySet(SETEF.sort())
    # definitional (membership-based, so it does not depend on the order of the sequence)
    return [z3.ForAll([a], DISJ(a) == z3.ForAll([x, y], z3.Implies(z3.And(th.Has(a, x), th.Has(a, y), x != y), z3.SetIntersect(COVER(x), COVER(y)) == E0),
                                               patterns=[z3.MultiPattern(th.Has(a, x), th.Has(a, y))]), patterns=[DISJ(a)])]


def wf_axioms():
    th = SQ.theory(STERM.sort())
    a = z3.Const("wf!a", th.S)
    x = z3.Const("wf!x", STERM.sort())
    return [z3.ForAll([a], WF(a) == z3.ForAll([x], z3.Implies(th.Has(a, x), z3.IsSubset(R_(x), SPAN)), patterns=[th.Has(a, x)]), patterns=[WF(a)])]


def sp_wf(eng, args, kw, n, st):
    eng.uses_axioms(wf_axioms)
    return V(TBool, WF(args[0].t))


def prefix_lemma():
    """in a sequence with pairwise disjoint covers and no repeated member, a member covers nothing that the members before it cover"""
    th = SQ.theory(STERM.sort())
    a = z3.Const("pl!a", th.S)
    k, j, i1, i2 = z3.Ints("pl!k pl!j pl!i1 pl!i2")
    nodup = z3.ForAll([i1, i2], z3.Implies(z3.And(0 <= i1, i1 < i2, i2 < th.Len(a)), th.At(a, i1) != th.At(a, i2)), patterns=[z3.MultiPattern(th.At(a, i1), th.At(a, i2))])
    prem = [DISJ(a), nodup, 0 <= k, k <= j, j < th.Len(a)]
    goal = z3.SetIntersect(COVER(th.At(a, j)), UNION(th.Take(a, k))) == z3.EmptySet(SETEF.sort())
    ax, sq = atoms_axioms(), th.axioms()
    return dict(name="disjoint-prefix", text="disjoint(S), S duplicate-free, k <= j < len(S)  ==>  cover(S[j]) & atoms(S[:k]) == {}", premises=prem, goal=goal,
                uses=[ax[5], ax[6]] + disj_axioms() + sq,
                closed=z3.ForAll([a, k, j], z3.Implies(z3.And(*prem), goal), patterns=[z3.MultiPattern(DISJ(a), UNION(th.Take(a, k)), COVER(th.At(a, j)))]))


def member_lemma():
    """a member's cover lies inside the atoms of the sequence (instance of the definition, with a trigger on the cover)"""
    th = SQ.theory(STERM.sort())
    a = z3.Const("ml!a", th.S)
    x = z3.Const("ml!x", STERM.sort())
    prem = [th.Has(a, x)]
    goal = z3.IsSubset(COVER(x), UNION(a))
    ax = atoms_axioms()
    return dict(name="member-cover", text="x in S ==> cover(x) <= atoms(S)", premises=prem, goal=goal, uses=[ax[5]],
                closed=z3.ForAll([a, x], z3.Implies(z3.And(*prem), goal), patterns=[z3.MultiPattern(th.Has(a, x), COVER(x), UNION(a))]))


def removal_lemma():
    """atoms(a) == atoms(r) | cover(x)  when x is a member of a and r has exactly the other members of a  (OrderedSet.__sub__ of one element)"""
    th = SQ.theory(STERM.sort())
    ax = atoms_axioms()
    a, r = z3.Consts("rl!a rl!r", th.S)
    x, y = z3.Consts("rl!x rl!y", STERM.sort())
    prem = [th.Has(a, x), z3.ForAll([y], th.Has(r, y) == z3.And(th.Has(a, y), y != x), patterns=[th.Has(r, y), th.Has(a, y)])]
    goal = UNION(a) == z3.SetUnion(UNION(r), COVER(x))
    return dict(name="atoms-remove-member", text="atoms(a) == atoms(a - (x,)) | cover(x) for x in a", vars=[a, r, x], premises=prem, goal=goal, uses=[ax[5], ax[6]],
                closed=z3.ForAll([a, r, x], z3.Implies(z3.And(*prem), goal), patterns=[z3.MultiPattern(UNION(a), UNION(r), COVER(x))]))


def lemma_axioms():
    return [removal_lemma()["closed"], prefix_lemma()["closed"], member_lemma()["closed"]] + disj_axioms() + wf_axioms()


def sp_disjoint(eng, args, kw, n, st):
    eng.uses_axioms(disj_axioms)
    return V(TBool, DISJ(args[0].t))


def sp_cover(eng, args, kw, n, st):
    eng.uses_axioms(atoms_axioms)
    return V(ATOMSET, COVER(args[0].t))


def sp_atoms(eng, args, kw, n, st):
    """atoms(S): the set of atoms covered by some member of the sequence S"""
    eng.uses_axioms(atoms_axioms)
    return V(ATOMSET, UNION(args[0].t))


def sp_F(eng, args, kw, n, st):
    return V(SETEF, F_(args[0].t))


def sp_R(eng, args, kw, n, st):
    return V(SETEF, R_(args[0].t))


ENV = {"cover": sp_cover, "atoms": sp_atoms, "F": sp_F, "R": sp_R, "disjoint": sp_disjoint, "wf": sp_wf, "SPANNING": V(SETEF, SPAN)}
B = "formulaic/materializers/base.py::FormulaMaterializer."
SAME_ATOMS = "atoms({0}) == atoms({1})"


def build():
    reg = Registry()
    cs = []
    reg.methods[("STerm", "factors")] = st_factors
    reg.methods[("STerm", "scale")] = st_scale
    G = {"OrderedSet": PyConst("OrderedSet"), "OrderedSet.__call__": n_OrderedSet, "ScopedTerm": PyConst("ScopedTerm"), "ScopedTerm.__call__": n_ScopedTerm,
         "ScopedFactor": PyConst("ScopedFactor"), "ScopedFactor.__call__": n_ScopedFactor, "sorted": n_sorted, "next": n_next}
    c = Contract(
        B + "_simplify_scoped_terms", params={"cls": {"__class__": "FormulaMaterializer"}, "scoped_terms": TSeq(STERM, nodup=True)}, returns=TSeq(STERM, nodup=True),
        globals=G, spec_env=ENV, axioms=[sterm_axioms, atoms_axioms, lemma_axioms, lambda: stdlib.seq_axioms(STERM), lambda: stdlib.card_axioms(SFAC)],
        local_types={"terms": TSeq(STERM, nodup=True)},
        # representation invariant of the inputs: only a factor that spans the intercept is ever asked for in reduced form
        requires=["wf(scoped_terms)"],
        loops={
            0: {"index": "_k", "inv": [SAME_ATOMS.format("terms", "_seq[:_k]"), "implies(disjoint(scoped_terms), disjoint(terms))", "wf(terms)"]},
            1: {"inv": ["terms == _seq", "not combined"]},
        },
        ensures=[SAME_ATOMS.format("result", "scoped_terms"),
                 # ... and emitted terms never overlap if the given ones do not (structural full rank)
                 "implies(disjoint(scoped_terms), disjoint(result))",
                 "wf(result)"],
        modifies=[], props=["C03"])
    c.name_loop_items = True
    c.derived_lemmas = [removal_lemma, prefix_lemma, member_lemma]
    E, N, e = "existing_term", "scoped_term", "factor_new.factor"
    c.hints = {
        # what the two cardinality tests establish about the scoped-factor SETS of the new term N and the existing term E
        "factor_new": [
            "factor_new in factors and factor_new not in cofactors",
            "forall(lambda x=ScopedFactor: implies(x in cofactors, x in factors))",
            "forall(lambda x=ScopedFactor: implies(x in factors and x not in cofactors, x == factor_new))",
            # ... and therefore about their (F, R) representation: N = E plus the one factor e
            f"{e} not in F({E})",
            f"F({N}) == F({E}) | {{{e}}}",
            f"R({N}) == ite(factor_new.reduced, R({E}) | {{{e}}}, R({E}))",
        ],
        # the merged term M = N with the new factor at full rank ...
        "call:ScopedTerm": [
            f"forall(lambda x=EvaluatedFactor: implies(x in F(_result), x in F({N})))",
            f"forall(lambda x=EvaluatedFactor: implies(x in F({N}), x in F(_result)))",
            f"F(_result) == F({N})",
            f"forall(lambda x=EvaluatedFactor: implies(x in R(_result), x in R({N}) and x != {e}))",
            f"forall(lambda x=EvaluatedFactor: implies(x in R({N}) and x != {e}, x in R(_result)))",
            f"R(_result) == R({N}) - {{{e}}}",
            # ... covers exactly what E and N cover together:  (anything):(reduced a) + (anything) -> (anything):(full a)
            f"cover(_result) == cover({E}) | cover({N})",
        ],
        # the recombination rule: after merging, exactly the atoms of the old terms and of N are covered
        "terms#1": ["atoms(terms) == atoms(_seq0[:_k]) | cover(scoped_term)"],
    }
    cs.append(reg.add(c))
    return reg, cs


def _concrete_env():
    import itertools

    def cover(t):
        F = [sf.factor for sf in t.factors]
        must = [sf.factor for sf in t.factors if sf.reduced or not sf.factor.metadata.spans_intercept]
        free = [f for f in F if not any(f is g for g in must)]
        out = set()
        for k in range(len(free) + 1):
            for extra in itertools.combinations(free, k):
                out.add(frozenset(id(x) for x in list(must) + list(extra)))
        return out

    def atoms(S):
        out = set()
        for t in S:
            out |= cover(t)
        return out

    def disjoint(S):
        S = list(S)
        return all(not (cover(a) & cover(b)) for i, a in enumerate(S) for b in S[i + 1:])

    def wf(S):
        return all(sf.factor.metadata.spans_intercept for t in S for sf in t.factors if sf.reduced)

    def all_atoms(Y):
        out = set()
        for y in Y:
            out |= atoms(y[1])
        return out

    return {"cover": cover, "atoms": atoms, "disjoint": disjoint, "wf": wf, "all_atoms": all_atoms}


def workloads():
    from vf.pyvc import workload

    def w():
        workload.run_materialization(items=["A", "A + B", "A:B", "A*B", "A*B*D", "a:A + A", "A:a + B:a", "0 + A:B + B:D", "A + A:B + A:B:D", "B:A + D:A:B + a",
                                            "C(A, contr.sum)*B", "a + A:a + B:A:a", "1 + A:B:D"])

    return [w]


def run_proofs(ctx):
    reg, cs = build()
    ctx.assume("C03 abstraction: column space of a scoped term = direct sum of pure-interaction subspaces over its atoms {A : R u (F minus spanning) <= A <= F} (argued in "
               "DESIGN.md, validated numerically by the bounded driver, not mechanised)",
               "A-wf(ScopedTerm): a scoped term holds each evaluated factor at most once (obligation at every construction site in the verified function); "
               "ScopedTerm modelled modulo its __eq__ (proved in vf/proofs/small.py); finite-set cardinality lemma |F\\\\C|=1 and |F|-1=|C| imply C subset of F",
               "the recursive call of _simplify_scoped_terms is replaced by its own contract (partial correctness)",
               "_get_scoped_terms_spanned_by_evaled_factors is an ASSUMED contract in the proof of _get_scoped_terms: duplicate-free atomic scoped terms with pairwise "
               "distinct atoms, reduced only where the factor spans the intercept (its body - itertools.product over tuples of mixed arity - is bounded only)")
    run_contracts(ctx, cs, reg, workloads=workloads(), concrete_env=_concrete_env())
    reg2, cs2 = build_loop()
    ctx.trust("assumed contract: FormulaMaterializer._get_scoped_terms_spanned_by_evaled_factors (returns duplicate-free atomic scoped terms - cover = one atom - with pairwise "
              "distinct atoms, reduced only where the factor spans the intercept; body enumerates itertools.product: bounded only)")
    run_contracts(ctx, cs2, reg2, workloads=workloads(), concrete_env=_concrete_env())


# =====================================================================================================================================
# `_get_scoped_terms` (ensure_full_rank=True): the bookkeeping loop.  What is proved, for every list of terms and every factor cache:
#   * one yield per term, in order;
#   * the scoped terms yielded for one term have pairwise disjoint covers, and cover nothing that an EARLIER yield covers
#     (structural full rank: no atom is covered twice, within or across formula terms);
#   * what has been emitted is exactly what the `spanned` set records (the invariant that makes `- spanned` the right thing to subtract).
# `_get_scoped_terms_spanned_by_evaled_factors` is an ASSUMED contract here (its body enumerates itertools.product over a list of tuples of
# mixed arity; bounded only): it returns duplicate-free ATOMIC scoped terms (cover = one atom), reduced only where the factor spans the
# intercept, with pairwise distinct atoms.
# =====================================================================================================================================
from vf.pyvc.types import TDict, TOpt, TRec, TStr, TTup  # noqa: E402

TERMG = TObj("TermG")

FACTG = TRec("FactorG", {"expr": TStr}, ["expr"])
YIELD = TTup(TERMG, TSeq(STERM))
SETST = TSet(STERM)
ALL = z3.Function("all_atoms", TSeq(YIELD).sort(), ATOMSET.sort())              # union of atoms(y[1]) over the yields so far
SETATOMS = z3.Function("set_atoms", SETST.sort(), ATOMSET.sort())                # union of the covers of the members of a set of scoped terms
ATOMIC = z3.Function("all_atomic", SETST.sort(), z3.BoolSort())                  # every member covers exactly one atom and is reduced only where spanning
TERM_FACTORS = z3.Function("term_factors", TERMG.sort(), TSeq(FACTG).sort())
VALUES_PRESENT = z3.Function("values_present", EF.sort(), z3.BoolSort())


def loop_axioms():
    thY = SQ.theory(YIELD.sort())
    th = SQ.theory(STERM.sort())
    Y = z3.Const("ga!Y", thY.S)
    y = z3.Const("ga!y", YIELD.sort())
    P, Q = z3.Consts("ga!P ga!Q", SETST.sort())
    x = z3.Const("ga!x", STERM.sort())
    A = z3.Const("ga!A", SETEF.sort())
    S = z3.Const("ga!S", th.S)
    snd = YIELD.sort().accessor(0, 1)
    U = z3.SetUnion
    E0 = z3.EmptySet(SETEF.sort())
    return [
        ALL(thY.Empty) == E0,
        z3.ForAll([Y, y], ALL(thY.Build(Y, y)) == U(ALL(Y), UNION(snd(y))), patterns=[ALL(thY.Build(Y, y))]),
        # set_atoms: definitional (membership)
        z3.ForAll([P, x], z3.Implies(z3.IsMember(x, P), z3.IsSubset(COVER(x), SETATOMS(P))), patterns=[z3.MultiPattern(z3.IsMember(x, P), SETATOMS(P))]),
        z3.ForAll([P, A], z3.Implies(z3.IsMember(A, SETATOMS(P)), z3.Exists([x], z3.And(z3.IsMember(x, P), z3.IsMember(A, COVER(x))), patterns=[z3.IsMember(x, P)])),
                  patterns=[z3.IsMember(A, SETATOMS(P))]),
        # all_atomic: definitional
        z3.ForAll([P], ATOMIC(P) == z3.ForAll([x], z3.Implies(z3.IsMember(x, P), z3.And(z3.IsSubset(R_(x), SPAN), z3.SetUnion(R_(x), z3.SetDifference(F_(x), SPAN)) == F_(x))),
                                                patterns=[z3.IsMember(x, P)]), patterns=[ATOMIC(P)]),
    ]


def quotient_axiom():
    x, y = z3.Consts("qa!x qa!y", STERM.sort())
    # A-eq: a scoped term is determined by its scoped factors (ScopedTerm.__eq__, proved in vf/proofs/small.py)
    return [z3.ForAll([x, y], z3.Implies(z3.And(F_(x) == F_(y), R_(x) == R_(y)), x == y), patterns=[z3.MultiPattern(F_(x), F_(y))])]


def diff_lemma():
    """for atomic scoped terms (one atom each, determined by F), removing the members of P from S removes exactly the atoms P covers"""
    th = SQ.theory(STERM.sort())
    S, r = z3.Consts("dl!S dl!r", th.S)
    P = z3.Const("dl!P", SETST.sort())
    x = z3.Const("dl!x", STERM.sort())
    atomic_x = lambda t: z3.And(z3.IsSubset(R_(t), SPAN), z3.SetUnion(R_(t), z3.SetDifference(F_(t), SPAN)) == F_(t))
    prem = [ATOMIC(P), z3.ForAll([x], z3.Implies(th.Has(S, x), atomic_x(x)), patterns=[th.Has(S, x)]),
            z3.ForAll([x], th.Has(r, x) == z3.And(th.Has(S, x), z3.Not(z3.IsMember(x, P))), patterns=[th.Has(r, x), th.Has(S, x)])]
    goal = z3.And(UNION(r) == z3.SetDifference(UNION(S), SETATOMS(P)),
                  z3.SetIntersect(UNION(r), SETATOMS(P)) == z3.EmptySet(SETEF.sort()))
    ax, la = atoms_axioms(), loop_axioms()
    return dict(name="atomic-difference", text="atoms(S - P) == atoms(S) - set_atoms(P) for atomic scoped terms", premises=prem, goal=goal,
                uses=[ax[0], ax[5], ax[6], la[2], la[3], la[4]] + quotient_axiom(),
                closed=z3.ForAll([S, r, P], z3.Implies(z3.And(*prem), goal), patterns=[z3.MultiPattern(UNION(r), UNION(S), SETATOMS(P))]))


def setunion_lemma():
    """set_atoms(P | set(S)) == set_atoms(P) | atoms(S)"""
    th = SQ.theory(STERM.sort())
    S = z3.Const("su!S", th.S)
    P, Q = z3.Consts("su!P su!Q", SETST.sort())
    x = z3.Const("su!x", STERM.sort())
    prem = [z3.ForAll([x], z3.IsMember(x, Q) == z3.Or(z3.IsMember(x, P), th.Has(S, x)), patterns=[z3.IsMember(x, Q), z3.IsMember(x, P), th.Has(S, x)])]
    goal = SETATOMS(Q) == z3.SetUnion(SETATOMS(P), UNION(S))
    ax, la = atoms_axioms(), loop_axioms()
    return dict(name="set-atoms-update", text="set_atoms(P | set(S)) == set_atoms(P) | atoms(S)", premises=prem, goal=goal, uses=[ax[5], ax[6], la[2], la[3]],
                closed=z3.ForAll([S, P, Q], z3.Implies(z3.And(*prem), goal), patterns=[z3.MultiPattern(SETATOMS(Q), SETATOMS(P), UNION(S))]))


def loop_lemma_axioms():
    return loop_axioms() + quotient_axiom() + [diff_lemma()["closed"], setunion_lemma()["closed"]]


def build_loop():
    reg = Registry()
    cs = []
    thS = SQ.theory(STERM.sort())
    reg.methods[("STerm", "factors")] = st_factors
    SPANNED_BY = z3.Function("spanned_by", TSeq(EF).sort(), TSeq(STERM).sort())
    atomic_x = lambda t: z3.And(z3.IsSubset(R_(t), SPAN), z3.SetUnion(R_(t), z3.SetDifference(F_(t), SPAN)) == F_(t))

    def n_spanned_by(eng, args, kw, n, st):
        """assumed contract of _get_scoped_terms_spanned_by_evaled_factors (see the banner above)"""
        efs = args[-1]
        eng.uses_axioms(loop_lemma_axioms)
        eng.uses_axioms(lemma_axioms)
        r = V(TSeq(STERM, nodup=True), SPANNED_BY(efs.t))
        x = z3.Const("sb!x", STERM.sort())
        i, j = z3.Ints("sb!i sb!j")
        st.assume(z3.ForAll([x], z3.Implies(thS.Has(r.t, x), atomic_x(x)), patterns=[thS.Has(r.t, x)]))
        st.assume(z3.ForAll([i, j], z3.Implies(z3.And(0 <= i, i < j, j < thS.Len(r.t)), thS.At(r.t, i) != thS.At(r.t, j)), patterns=[z3.MultiPattern(thS.At(r.t, i), thS.At(r.t, j))]))
        st.assume(WF(r.t))
        st.assume(DISJ(r.t))
        return r

    def ef_values(eng, args, kw, n, st):
        return V(TObj("FValuesG"), z3.Function("ef_values", EF.sort(), TObj("FValuesG").sort())(args[0].t))

    ef_values.is_property = True

    def fv_wrapped(eng, args, kw, n, st):
        oty = TOpt(TObj("RawG"))
        return V(oty, z3.Function("fv_wrapped", TObj("FValuesG").sort(), oty.sort())(args[0].t))

    fv_wrapped.is_property = True

    def term_factors(eng, args, kw, n, st):
        return V(TSeq(FACTG), TERM_FACTORS(args[0].t))

    term_factors.is_property = True
    reg.methods[("EvaluatedFactor", "values")] = ef_values
    reg.methods[("FValuesG", "__wrapped__")] = fv_wrapped
    reg.methods[("TermG", "factors")] = term_factors
    reg.methods[("FormulaMaterializer", "_get_scoped_terms_spanned_by_evaled_factors")] = n_spanned_by
    _, simp = build()
    simplify = simp[0]
    reg.methods[("FormulaMaterializer", "_simplify_scoped_terms")] = simplify

    def sp_all(eng, args, kw, n, st):
        eng.uses_axioms(loop_lemma_axioms)
        return V(ATOMSET, ALL(args[0].t))

    def sp_setatoms(eng, args, kw, n, st):
        eng.uses_axioms(loop_lemma_axioms)
        return V(ATOMSET, SETATOMS(args[0].t))

    def sp_atomic(eng, args, kw, n, st):
        eng.uses_axioms(loop_lemma_axioms)
        return V(TBool, ATOMIC(args[0].t))

    env = dict(ENV)
    env.update({"all_atoms": sp_all, "set_atoms": sp_setatoms, "all_atomic": sp_atomic})
    NOOVERLAP = ("forall(lambda k: implies(0 <= k and k < len({0}), disjoint({0}[k][1]) and all_atoms({0}[:k]) & atoms({0}[k][1]) == set()), "
                 "trigger=lambda k: {0}[k])")
    c = Contract(
        B + "_get_scoped_terms",
        params={"self": {"__class__": "FormulaMaterializer", "factor_cache": TDict(TStr, EF)}, "terms": TSeq(TERMG), "ensure_full_rank": "Bool"},
        returns=TSeq(YIELD), yields=YIELD, spec_env=env, globals={"ScopedTerm": PyConst("ScopedTerm"), "ScopedFactor": PyConst("ScopedFactor")},
        axioms=[sterm_axioms, atoms_axioms, lemma_axioms, loop_lemma_axioms, lambda: stdlib.seq_axioms(STERM)],
        local_types={"spanned": SETST},
        requires=["ensure_full_rank", "forall(lambda i, j: implies(0 <= i and i < len(terms) and 0 <= j and j < len(terms[i].factors), terms[i].factors[j].expr in self.factor_cache))"],
        loops={0: {"inv": [
            "len(_yielded) == _i",
            "forall(lambda k: implies(0 <= k and k < _i, _yielded[k][0] == terms[k]), trigger=lambda k: _yielded[k])",
            "all_atoms(_yielded) == set_atoms(spanned)",            # emitted == recorded
            "all_atomic(spanned)",
            NOOVERLAP.format("_yielded"),
        ]}},
        ensures=[
            "len(result) == len(terms)",
            "forall(lambda k: implies(0 <= k and k < len(terms), result[k][0] == terms[k]), trigger=lambda k: result[k])",
            # structural full rank: the scoped terms of one formula term do not overlap, and cover nothing an earlier term's scoped terms cover
            NOOVERLAP.format("result"),
        ],
        modifies=[], props=["C03"])
    c.label = "ensure_full_rank"
    c.derived_lemmas = [diff_lemma, setunion_lemma]
    cs.append(reg.add(c))
    return reg, cs
