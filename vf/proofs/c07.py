"""C07 — deductive part: structured specs (ModelSpecs.get_model_matrix) hand one drop set, the same data and context to one
joint materializer call, or map the same call over every part (vf/proofs/plumbing.py). Equality of each part with a separate
build is bounded."""
from vf.proofs.plumbing import run_plumbing


def run_proofs(ctx):
    run_plumbing(ctx)
    from vf.proofs import materialize

    materialize.run_proofs(ctx)
