"""C17 — `get_expression_variables` (formulaic/utils/variables.py): the SOURCE reported for a variable of a Python factor.

From the statement: every name a factor uses is resolved data first, then the caller's context, then the built-in transforms, and the layer
a name is reported to come from (`ModelSpec.variables_by_source`) is the layer that supplies it.  A dotted name (`np.linalg.norm`,
`settings.limits.upper`) is supplied by the layer that holds its ROOT name - the part before the first dot - because that is the name the
evaluation looks up.  Contract, for every expression, alias map and context:
    the result is exactly the set of variables of the expression (as found by _get_ast_node_variables; assumed);
    with a layered context, EVERY variable of the expression ends up with  source == layer_name(context, root(name))  where
    root(s) = s up to (not including) the first '.' (all of s if there is none);
    with any other context no variable's source is written.
`LayeredMapping.get_layer_name_for_key` (which layer holds a key: first layer wins) is an assumed contract here; first-layer-wins itself is
proved in vf/proofs/c19.py.

Model: Variable (a str subclass with a mutable `source` attribute) is an opaque object with a name (z3 string) and a ghost heap field
`source`; str.split(sep, 1)[0] / str.rsplit(sep, 1)[0] are library contracts over z3 strings (first / last occurrence of the separator).
"""
from __future__ import annotations

import z3

from vf.pyvc import seqs as SQ
from vf.pyvc.contracts import Contract, Registry
from vf.pyvc.engine import OutOfSubset, PyConst
from vf.pyvc.types import TBool, TInt, TObj, TOpt, TSeq, TSet, TStr, V

VAR, CTX, EXPR, ALIASES = TObj("Variable"), TObj("Ctx17"), TObj("Expr17"), TObj("Aliases17")
OSTR = TOpt(TStr)
NAME = z3.Function("variable_name", VAR.sort(), z3.StringSort())
IS_LM = z3.Function("is_layered_mapping", CTX.sort(), z3.BoolSort())
IS_STR = z3.Function("expr_is_str", EXPR.sort(), z3.BoolSort())
PARSE = z3.Function("ast_parse_eval", EXPR.sort(), EXPR.sort())
VARS = z3.Function("ast_node_variables", EXPR.sort(), TOpt(ALIASES).sort(), TSeq(VAR).sort())
LAYER = z3.Function("layer_name_for_key", CTX.sort(), z3.StringSort(), OSTR.sort())


def _root(s):
    """the part of s before its first '.', all of s if it has none"""
    i = z3.IndexOf(s, z3.StringVal("."), 0)
    return z3.If(i < 0, s, z3.SubString(s, 0, i))


def _effective(al):
    o = TOpt(ALIASES).sort()
    truthy = z3.Function("truthy!Aliases17", ALIASES.sort(), z3.BoolSort())
    return z3.If(z3.And(o.is_some(al), truthy(o.v(al))), al, o.none)


def build():
    reg = Registry()
    cs = []

    def n_isinstance(eng, args, kw, n, st):
        v, cls = args
        if isinstance(cls, PyConst) and cls.name == "LayeredMapping" and isinstance(v, V) and v.ty == TOpt(CTX):
            s_ = v.ty.sort()
            return V(TBool, z3.And(s_.is_some(v.t), IS_LM(s_.v(v.t))))
        if isinstance(cls, PyConst) and cls.name == "str" and isinstance(v, V) and v.ty == EXPR:
            return V(TBool, IS_STR(v.t))
        raise OutOfSubset(n, "isinstance test other than (context, LayeredMapping) / (expr, str)")

    def n_ast_parse(eng, args, kw, n, st):
        if set(kw) - {"mode"} or len(args) != 1:
            raise OutOfSubset(n, "ast.parse with options other than mode=")
        return V(EXPR, PARSE(args[0].t))

    def n_node_variables(eng, args, kw, n, st):
        """_get_ast_node_variables(node, aliases): the variables of the expression, in order of discovery (assumed; bounded under C17)"""
        node, al = args
        if isinstance(al, tuple) and al and al[0] == "emptydict":
            al = V(TOpt(ALIASES), TOpt(ALIASES).sort().none)
        al = eng.coerce(al, TOpt(ALIASES), n)
        return V(TSeq(VAR), VARS(node.t, al.t))

    def n_set(eng, args, kw, n, st):
        if not args:
            return ("emptyset",)
        s = args[0]
        x = z3.Const("s17!x", VAR.sort())
        r = eng.fresh(st, TSet(VAR), "asset")
        st.assume(z3.ForAll([x], z3.IsMember(x, r.t) == SQ.has(s.t, x), patterns=[z3.IsMember(x, r.t)]))
        return r

    def var_split(first):
        def split(eng, args, kw, n, st):
            """<name>.split('.', 1) / .rsplit('.', 1): only element 0 is specified: the text before the first / last separator (all of it if none)"""
            v, sep, k = args
            kk = z3.simplify(k.t)
            if kw or not (z3.is_int_value(kk) and kk.as_long() == 1 and z3.is_string_value(z3.simplify(sep.t))):
                raise OutOfSubset(n, "split with something other than (literal separator, 1)")
            s = NAME(v.t)
            i = z3.IndexOf(s, sep.t, 0) if first else z3.LastIndexOf(s, sep.t)
            r = eng.fresh(st, TSeq(TStr), "parts")
            st.assume(SQ.length(r.t) >= 1)
            st.assume(SQ.at(r.t, 0) == z3.If(i < 0, s, z3.SubString(s, 0, i)))
            return r

        return split

    reg.methods[("Variable", "split")] = var_split(True)
    reg.methods[("Variable", "rsplit")] = var_split(False)

    def ctx_layer_name(eng, args, kw, n, st):
        key = args[1]
        if isinstance(key, V) and key.ty == VAR:
            key = V(TStr, NAME(key.t))        # a Variable IS a str: as a key it is its name
        return V(OSTR, LAYER(args[0].t, eng.coerce(key, TStr, n).t))

    reg.methods[("Ctx17", "get_layer_name_for_key")] = ctx_layer_name
    G = {"isinstance": n_isinstance, "LayeredMapping": PyConst("LayeredMapping"), "str": PyConst("str"), "ast": PyConst("ast"), "ast.parse": n_ast_parse,
         "_get_ast_node_variables": n_node_variables, "set": n_set}
    env = {
        "name": lambda e, a, k, n, s: V(TStr, NAME(a[0].t)),
        "root": lambda e, a, k, n, s: V(TStr, _root(a[0].t)),
        "layer_name": lambda e, a, k, n, s: V(OSTR, LAYER(a[0].t, a[1].t)),
        "layered": lambda e, a, k, n, s: V(TBool, z3.And(a[0].ty.sort().is_some(a[0].t), IS_LM(a[0].ty.sort().v(a[0].t)))),
        "the": lambda e, a, k, n, s: V(a[0].ty.t, a[0].ty.sort().v(a[0].t)),
        # `aliases or {}`: a missing or EMPTY alias map is no alias map
        "variables_of": lambda e, a, k, n, s: V(TSeq(VAR), VARS(z3.If(IS_STR(a[0].t), PARSE(a[0].t), a[0].t), _effective(a[1].t))),
    }
    c = Contract(
        "formulaic/utils/variables.py::get_expression_variables",
        params={"expr": EXPR, "context": TOpt(CTX), "aliases": TOpt(ALIASES)}, returns=TSet(VAR), globals=G, spec_env=env, no_monitor=True,
        local_types={"out": TSet(VAR), "variables": TSeq(VAR)},
        lets={"VS": "variables_of(expr, aliases)"},
        loops={0: {"inv": [
            "forall(lambda v=Variable: (v in out) == (v in VS[:_i]))",
            "forall(lambda v=Variable: implies(v in VS[:_i], v.source == layer_name(the(context), root(name(v)))))",
            "forall(lambda v=Variable: implies(v not in VS[:_i], v.source == entry_source(v)))",
        ]}},
        ensures=[
            "forall(lambda v=Variable: (v in result) == (v in VS))",
            "implies(layered(context), forall(lambda v=Variable: implies(v in VS, v.source == layer_name(the(context), root(name(v))))))",
            "implies(layered(context), forall(lambda v=Variable: implies(v not in VS, v.source == entry_source(v))))",
            "implies(not layered(context), forall(lambda v=Variable: v.source == entry_source(v)))",
        ], modifies=["Variable.source"], props=["C17"])
    c.heap_fields = {("Variable", "source"): OSTR}
    cs.append(reg.add(c))
    return reg, cs


def run_proofs(ctx):
    from vf.pyvc.run import run_contracts

    reg, cs = build()
    ctx.assume("get_expression_variables: Variable objects are opaque with a name and a mutable `source` (ghost heap field); _get_ast_node_variables and "
               "LayeredMapping.get_layer_name_for_key are assumed contracts (uninterpreted functions of their arguments); str.split/rsplit(sep, 1)[0] over z3 strings")
    run_contracts(ctx, cs, reg)
