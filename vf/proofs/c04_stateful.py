"""C04 — `_is_stateful_transform` (formulaic/utils/stateful_transforms.py): WHICH calls of a factor get recorded state.

From the statement: "a model spec replays the recorded encoding ... the statistics learned by stateful transforms on the original data are
applied unchanged".  `stateful_eval` (vf/proofs/c18_eval.py, proved) threads `_state` into exactly the calls for which
`_is_stateful_transform(node, env)` answers True; a stateful transform for which it answers False silently re-learns its statistics on
every replay.  Contract, for every AST node and environment:

    result  ==  node is a call  AND  its function EXPRESSION - a bare name, an attribute path `tf.center`, anything - evaluates in env
                AND  the object it evaluates to is marked `__is_stateful_transform__`

and no exception escapes (an unresolvable function expression is NameError inside `eval`, handled: False).

Model: AST nodes, environments and objects are opaque; `eval(compile(format_expr(e), '', 'eval'), {}, env)` is the evaluation of
expression e in env: NameError iff e does not resolve there, its value otherwise (other exceptions of evaluating an attribute path -
AttributeError - are not modelled: A-eval); for a bare name, evaluation is the environment's lookup of the identifier.
"""
from __future__ import annotations

import z3

from vf.pyvc.contracts import Contract, Registry
from vf.pyvc.engine import OutOfSubset, PyConst, lift
from vf.pyvc.types import TBool, TObj, TOpt, TStr, V

NODE, ENV, OBJ = TObj("AstNode04"), TObj("Env04"), TObj("Object04")
IS_CALL = z3.Function("is_call_node", NODE.sort(), z3.BoolSort())
IS_NAME = z3.Function("is_name_node", NODE.sort(), z3.BoolSort())
FUNC = z3.Function("call_func", NODE.sort(), NODE.sort())
IDENT = z3.Function("name_id", NODE.sort(), z3.StringSort())
RESOLVES = z3.Function("expression_resolves", NODE.sort(), ENV.sort(), z3.BoolSort())
VALUE = z3.Function("expression_value", NODE.sort(), ENV.sort(), OBJ.sort())
HAS = z3.Function("env_has", ENV.sort(), z3.StringSort(), z3.BoolSort())
GET = z3.Function("env_get", ENV.sort(), z3.StringSort(), OBJ.sort())
STATEFUL = z3.Function("marked_stateful", OBJ.sort(), z3.BoolSort())
NONE_OBJ = z3.Const("None:object04", OBJ.sort())


def eval_axioms():
    e, v = z3.Const("ev04!e", NODE.sort()), z3.Const("ev04!v", ENV.sort())
    return [
        # a bare name evaluates to what the environment holds under the identifier
        z3.ForAll([e, v], z3.Implies(IS_NAME(e), z3.And(RESOLVES(e, v) == HAS(v, IDENT(e)), z3.Implies(HAS(v, IDENT(e)), VALUE(e, v) == GET(v, IDENT(e))))),
                  patterns=[RESOLVES(e, v)]),
        z3.Not(STATEFUL(NONE_OBJ)),
    ]


def build():
    reg = Registry()
    cs = []

    def n_isinstance(eng, args, kw, n, st):
        v, cls = args
        if isinstance(v, V) and v.ty == NODE and isinstance(cls, PyConst) and cls.name in ("ast.Call", "ast.Name"):
            return V(TBool, IS_CALL(v.t) if cls.name == "ast.Call" else IS_NAME(v.t))
        raise OutOfSubset(n, "isinstance test other than (node, ast.Call) / (node, ast.Name)")

    def node_func(eng, args, kw, n, st):
        eng.require(st, "safe.attr", n, IS_CALL(args[0].t), "AttributeError", "`.func` exists on ast.Call nodes only")
        return V(NODE, FUNC(args[0].t))

    node_func.is_property = True
    reg.methods[("AstNode04", "func")] = node_func

    def node_id(eng, args, kw, n, st):
        eng.require(st, "safe.attr", n, IS_NAME(args[0].t), "AttributeError", "`.id` exists on ast.Name nodes only")
        return V(TStr, IDENT(args[0].t))

    node_id.is_property = True
    reg.methods[("AstNode04", "id")] = node_id

    def n_format_expr(eng, args, kw, n, st):
        return ("source-of", args[0])

    def n_compile(eng, args, kw, n, st):
        src = args[0]
        mode = z3.simplify(args[2].t) if len(args) > 2 and isinstance(args[2], V) else None
        if not (isinstance(src, tuple) and src and src[0] == "source-of") or kw or mode is None or not z3.is_string_value(mode) or mode.as_string() != "eval":
            raise OutOfSubset(n, "compile of something other than (format_expr(node), '', 'eval')")
        return ("code-of", src[1])

    def n_eval(eng, args, kw, n, st):
        """eval(code, {}, env): the value of the expression in env; NameError iff it does not resolve there"""
        if kw or len(args) != 3 or not (isinstance(args[0], tuple) and args[0][0] == "code-of") or not (isinstance(args[2], V) and args[2].ty == ENV):
            raise OutOfSubset(n, "eval of something other than (compiled expression, {}, env)")
        if not (isinstance(args[1], tuple) and args[1] and args[1][0] == "emptydict"):
            raise OutOfSubset(n, "eval with non-empty globals")
        eng.uses_axioms(eval_axioms)
        e, env = args[0][1], args[2]
        eng.require(st, "safe.name", n, RESOLVES(e.t, env.t), "NameError", "the function expression does not resolve in env")
        return V(OBJ, VALUE(e.t, env.t))

    def n_getattr(eng, args, kw, n, st):
        obj, name = args[0], z3.simplify(args[1].t)
        if not (isinstance(obj, V) and obj.ty == OBJ and z3.is_string_value(name) and name.as_string() == "__is_stateful_transform__" and len(args) == 3):
            raise OutOfSubset(n, "getattr other than (func, '__is_stateful_transform__', False)")
        return V(TBool, STATEFUL(obj.t))

    def env_get(eng, args, kw, n, st):
        """env.get(name): the held object, None (not stateful) otherwise"""
        eng.uses_axioms(eval_axioms)
        env, key = args[0], eng.coerce(args[1], TStr, n)
        return V(OBJ, z3.If(HAS(env.t, key.t), GET(env.t, key.t), NONE_OBJ))

    reg.methods[("Env04", "get")] = env_get
    G = {"isinstance": n_isinstance, "ast": PyConst("ast"), "ast.Call": PyConst("ast.Call"), "ast.Name": PyConst("ast.Name"), "format_expr": n_format_expr,
         "compile": n_compile, "eval": n_eval, "getattr": n_getattr}
    env = {
        "is_call": lambda e, a, k, n, s: V(TBool, IS_CALL(a[0].t)),
        "func_of": lambda e, a, k, n, s: V(NODE, FUNC(a[0].t)),
        "resolves": lambda e, a, k, n, s: V(TBool, RESOLVES(a[0].t, a[1].t)),
        "stateful": lambda e, a, k, n, s: V(TBool, STATEFUL(VALUE(a[0].t, a[1].t))),
    }
    c = Contract(
        "formulaic/utils/stateful_transforms.py::_is_stateful_transform", params={"node": NODE, "env": ENV}, returns="Bool", globals=G, spec_env=env,
        axioms=[eval_axioms], no_monitor=True, raises={},
        ensures=["result == (is_call(node) and resolves(func_of(node), env) and stateful(func_of(node), env))"],
        modifies=[], props=["C04", "C18"])
    cs.append(reg.add(c))
    return reg, cs


def run_proofs(ctx):
    from vf.pyvc.run import run_contracts

    reg, cs = build()
    ctx.assume("_is_stateful_transform: eval(compile(format_expr(e), '', 'eval'), {}, env) is the evaluation of e in env (NameError iff e does not resolve; "
               "other exceptions of evaluating an attribute path are not modelled: A-eval); a bare name evaluates to the environment's entry")
    run_contracts(ctx, cs, reg)
