"""C15 / C14 — `tokenize` (formulaic/parser/algos/tokenize.py) and `Token.update` under contract.

C14 part: the only exception that can escape is the library's FormulaSyntaxError (every partial
operation — quote_context[-1], .pop(-1), attribute access — is discharged as a safety obligation).
C15 part: every emitted token carries a source span inside the formula, 0 <= start <= end < len,
and lies wholly before the position being scanned.  (The ordered / non-overlapping clause is stated
separately; see DESIGN.md for the junk-input finding about empty quoted tokens.)

Token objects are mutable records (token text, kind, source_start, source_end); emitted tokens are
snapshotted.  Regex character classes are uninterpreted predicates.
"""
from __future__ import annotations

import z3

from vf.pyvc.contracts import Contract, Registry
from vf.pyvc.engine import MObj, OutOfSubset, PyConst, lift
from vf.pyvc.run import run_contracts
from vf.pyvc.types import TBool, TEnum, TInt, TNone, TObj, TOpt, TRec, TSeq, TStr, V

KIND = TEnum("TokenKind", ["CONTEXT", "OPERATOR", "VALUE", "NAME", "PYTHON"])
OKIND, OINT = TOpt(KIND), TOpt(TInt)
TOKV = TRec("TokenV", {"token": TStr, "kind": OKIND, "source_start": OINT, "source_end": OINT}, ["token", "kind", "source_start", "source_end"])
KIND_OF_STR = {"context": "CONTEXT", "operator": "OPERATOR", "value": "VALUE", "name": "NAME", "python": "PYTHON"}
MATCHES = z3.Function("re_matches", TObj("Pattern").sort(), z3.StringSort(), z3.BoolSort())
REPLACE_ALL = z3.Function("replace_all", z3.StringSort(), z3.StringSort(), z3.StringSort(), z3.StringSort())


def to_okind(eng, val, node):
    """Token.kind setter: `self._kind = self.Kind(kind) if kind else kind` (assumed: 1-line property setter)"""
    if isinstance(val, V) and val.ty is TNone:
        return V(OKIND, OKIND.sort().none)
    if isinstance(val, V) and val.ty is TStr:
        t = z3.simplify(val.t)
        if not z3.is_string_value(t) or t.as_string() not in KIND_OF_STR:
            raise OutOfSubset(node, "Token.Kind(<non-literal string>)")
        return V(OKIND, OKIND.sort().some(KIND.member(KIND_OF_STR[t.as_string()])))
    if isinstance(val, V) and val.ty == KIND:
        return V(OKIND, OKIND.sort().some(val.t))
    if isinstance(val, V) and val.ty == OKIND:
        return val
    raise OutOfSubset(node, f"Token.kind = {val!r}")


def kind_setter(eng, base, val, node, st):
    return to_okind(eng, val, node)


def n_Token(eng, args, kw, n, st):
    """Token(token='', *, kind=None, source=None, source_start=None, source_end=None); source_end = source_end or source_start"""
    tok = args[0] if args else kw.get("token", lift(""))
    start = kw.get("source_start", lift(None))
    end = kw.get("source_end", lift(None))
    start = eng.coerce(start, OINT, n)
    end = eng.coerce(end, OINT, n)
    s = OINT.sort()
    end_falsy = z3.Or(s.is_none(end.t), s.v(end.t) == 0)
    end2 = V(OINT, z3.simplify(z3.If(end_falsy, start.t, end.t)))
    return MObj("Token", {"token": tok, "kind": to_okind(eng, kw.get("kind", lift(None)), n), "source": kw.get("source", lift(None)),
                          "source_start": start, "source_end": end2})


def token_bool(eng, v):
    return z3.Length(v.attrs["token"].t) > 0


def n_TokenKind(eng, args, kw, n, st):
    return V(KIND, to_okind(eng, args[0], n).ty.sort().v(to_okind(eng, args[0], n).t))


def pattern_match(eng, args, kw, n, st):
    pat, ch = args
    return V(TBool, MATCHES(pat.t, ch.t))


def replace_axioms():
    s, a, b = z3.Strings("ra!s ra!a ra!b")
    return [z3.ForAll([s, a, b], z3.Implies(z3.And(z3.Length(s) == 1, z3.Length(a) == 1), REPLACE_ALL(s, a, b) == z3.If(s == a, b, s)),
                      patterns=[REPLACE_ALL(s, a, b)])]


G = {"Token": PyConst("Token"), "Token.__call__": n_Token, "Token.Kind": PyConst("Token.Kind")}
for _k, _m in KIND_OF_STR.items():
    G["Token.Kind." + _m] = V(KIND, KIND.member(_m))
RAWTOK = {"__class__": "Token", "token": "Str", "kind": OKIND, "source_start": OINT, "source_end": OINT}


def build():
    reg = Registry()
    cs = []
    reg.methods[("Token", "kind.setter")] = kind_setter
    reg.methods[("Token", "__bool__")] = token_bool
    reg.methods[("Pattern", "match")] = pattern_match
    exc_for_token = Contract("exc_for_token", params={"token": "TokenV", "message": "Str"}, trusted=True, raises_type="FormulaSyntaxError",
                             notes="formulaic.parser.utils.exc_for_token constructs a FormulaSyntaxError (source context rendering not modelled)")

    G2 = dict(G)
    G2["Token.Kind.__call__"] = n_TokenKind
    update = reg.add(Contract(
        "formulaic/parser/types/token.py::Token.update", params={"self": RAWTOK, "char": "Str", "source_index": "Int", "kind": OKIND},
        returns="self", globals=G2,
        ensures=[
            "self.token == old_self.token + char",
            "self.source_start == ite(old_self.source_start is None, source_index, old_self.source_start)",
            "self.source_end == source_index",
            "self.kind == ite(kind is None, old_self.kind, kind)",
        ], modifies=["token", "source_start", "source_end", "kind"], props=["C15"]))
    update.defaults = {"kind": V(OKIND, OKIND.sort().none)}
    update.adapters = {"kind": to_okind}   # call sites pass kind="context" etc.: Token.Kind(<literal>) conversion
    cs.append(update)

    SPAN_OK = ("{T}.source_start is not None and {T}.source_end is not None and 0 <= {T}.source_start and "
               "{T}.source_start <= {T}.source_end and {T}.source_end < {HI}")
    tok = Contract(
        "formulaic/parser/algos/tokenize.py::tokenize",
        params={"formula": "Str", "word_chars": "Pattern", "numeric_chars": "Pattern", "whitespace_chars": "Pattern"},
        returns=TSeq(TOKV), yields=TOKV, globals=G, calls={"exc_for_token": exc_for_token}, axioms=[replace_axioms],
        local_types={"quote_context": "Seq[Str]"},
        raises={"FormulaSyntaxError": None},
        loops={0: {"inv": [
            "take >= 0",
            # every emitted token has a span inside the part of the formula already scanned
            "forall(lambda k: implies(0 <= k and k < len(_yielded), " + SPAN_OK.format(T="_yielded[k]", HI="_i") + "))",
            # the token being built: its span (once it has one) is also inside the scanned part, start and end come together
            "(token.source_start is None) == (token.source_end is None)",
            "implies(token.source_start is not None, 0 <= token.source_start and token.source_start <= token.source_end and token.source_end < _i)",
            "implies(len(token.token) > 0, token.source_start is not None)",
            # spans of emitted tokens are ordered and do not overlap; the token being built starts after all of them
            "forall(lambda k: implies(0 <= k and k + 1 < len(_yielded), _yielded[k].source_end < _yielded[k + 1].source_start))",
            "implies(len(_yielded) > 0 and token.source_start is not None, _yielded[len(_yielded) - 1].source_end < token.source_start)",
            # a token that has a position but no text yet can only exist inside a quoted section
            "implies(token.source_start is not None and len(token.token) == 0, len(quote_context) > 0)",
            "forall(lambda q: implies(0 <= q and q < len(quote_context), quote_context[q] in ('\"', \"'\", '`', ')', ']', '}', '%')))",
        ]}},
        ensures=[
            "forall(lambda k: implies(0 <= k and k < len(result), " + SPAN_OK.format(T="result[k]", HI="len(formula)") + "))",
            "forall(lambda k: implies(0 <= k and k + 1 < len(result), result[k].source_end < result[k + 1].source_start))",
        ], props=["C14", "C15"])
    cs.append(tok)
    # ---- the rendering of a token's span (used by every FormulaSyntaxError message)
    SRC = {"__class__": "Token", "source": "Opt[Str]", "source_start": OINT, "source_end": OINT}
    for label, col, pre_mid, mid_post in (("plain", "False", "'⧛'", "'⧚'"), ("colorized", "True", "'⧛\x1b[1;31m'", "'\x1b[0m⧚'")):
        gsc = Contract(
            "formulaic/parser/types/token.py::Token.get_source_context", params={"self": SRC, "colorize": "Bool"}, returns="Opt[Str]",
            requires=[f"colorize == {col}",
                      # a recorded span lies inside the source (proved for every token that tokenize emits, above)
                      "implies(self.source is not None and self.source_start is not None and self.source_end is not None, "
                      "0 <= self.source_start and self.source_start <= self.source_end and self.source_end < len(self.source))"],
            ensures=[
                "(result is None) == (self.source is None or self.source == '' or self.source_start is None or self.source_end is None)",
                # the markers enclose exactly the text of the recorded span; what precedes and follows is the rest of the source, unchanged
                "implies(result is not None, result == self.source[:self.source_start] + " + pre_mid +
                " + self.source[self.source_start:self.source_end + 1] + " + mid_post + " + self.source[self.source_end + 1:])",
                "implies(result is not None, len(result) == len(self.source) + len(" + pre_mid + ") + len(" + mid_post + "))",
            ], modifies=[], props=["C15"])
        gsc.label = label
        cs.append(gsc)
    return reg, cs


CONCRETE_ENV = {}


def workloads():
    from vf.pyvc import workload

    def w():
        from formulaic.parser.algos.tokenize import tokenize

        extra = ["a + `b c`", "f(x, 'a b') + {a + b}", "a %in% b", "y ~ (a + b):c | d", "`a", "f(", "'abc", "{}", "a\\\\b", "`x`:`y z` - 1", "  a  +  b ", "[a ~ b]"]
        for f in workload.FORMULAS + extra:
            try:
                list(tokenize(f))
            except Exception:
                pass

    return [w]


def run_proofs(ctx):
    reg, cs = build()
    ctx.assume("A-lib(re): Pattern.match(char) is an uninterpreted predicate of (pattern, char)",
               "A-lib(str.replace): on a 1-character string, s.replace(a, b) == (b if s == a else s)",
               "Token.__init__ and the Token.kind setter are assumed (modelled natively: 6 + 1 lines); exc_for_token returns a FormulaSyntaxError")
    run_contracts(ctx, cs, reg, workloads=workloads(), concrete_env=CONCRETE_ENV)
