"""C04 — deductive part: (i) `scale` in REPLAY mode applies the recorded statistics and writes nothing to `_state`
(vf/proofs/c13.py); (ii) `_enforce_structure` emits exactly the recorded column names in the recorded order for any data
(vf/proofs/c09.py).  Row-locality of the other transforms, pickling and end-to-end replay are bounded."""
from vf.pyvc.run import run_contracts


def run_proofs(ctx):
    from vf.proofs import c09, c13

    reg, cs = c13.build()
    ctx.assume("A-float: floating point treated as real arithmetic", "A-lib(numpy): aggregate/broadcast axioms (vf/proofs/c13.py)")
    run_contracts(ctx, cs, reg, workloads=c13.workloads(), concrete_env=c13.CONCRETE_ENV)
    reg2, cs2 = c09.build()
    run_contracts(ctx, cs2, reg2, workloads=c09.workloads(), concrete_env=c09.CONCRETE_ENV)
    from vf.proofs import c02

    reg3, cs3 = c02.build()
    run_contracts(ctx, cs3, reg3, workloads=c02.workloads(), concrete_env=c02.CONCRETE_ENV)
    from vf.proofs import c18_eval

    c18_eval.run_proofs(ctx)
    from vf.proofs import c04_stateful

    c04_stateful.run_proofs(ctx)      # which calls stateful_eval threads recorded state into
