"""C09 / C18 — `FormulaMaterializer._evaluate_factor` (formulaic/materializers/base.py) under contract.

C09  "a factor whose kind differs from the recorded one causes an encoding error instead of a matrix": when the factor has a
     recorded encoder state in the spec it is evaluated against, the call returns normally only if the kind of the evaluated
     values IS the recorded kind (otherwise FactorEncodingError); a declared factor kind is honoured or rejected likewise;
     the kind of a returned factor is never UNKNOWN.
C18  purity: the function stores into `self.factor_cache` only - the Factor object (which belongs to the caller's Formula), the
     spec and every other cache entry are left alone; a second evaluation of the same expression returns the cached object.

Model: `value` is a mutable FactorValues object carrying a metadata object (kind, spans_intercept).  Raw looked-up / evaluated
values are opaque; `FactorValues(raw)` inherits an arbitrary kind (wrapping an already wrapped value keeps its metadata).
"""
from __future__ import annotations

import z3

from vf.pyvc.contracts import Contract, Registry
from vf.pyvc.engine import MObj, OutOfSubset, PyConst, lift
from vf.pyvc.run import run_contracts
from vf.pyvc.types import TBool, TData, TDict, TEnum, TObj, TStr, TTup, V

KINDF = TEnum("FactorKind", ["UNKNOWN", "CONSTANT", "NUMERICAL", "CATEGORICAL"])
EVALM = TEnum("EvalMethod9", ["LITERAL", "LOOKUP", "PYTHON"])
NA = TEnum("NAAction9", ["DROP", "RAISE", "IGNORE"])
RAW, VARS, META, ENCSTATE, DROPREF = TObj("RawValue"), TObj("Variables"), TObj("FactorMeta"), TObj("EncoderState"), TObj("DropRows")
EF = TData("EvaluatedFactor9", {"expr": TStr, "kind": KINDF})
KIND_OF_RAW = z3.Function("kind_of_raw", RAW.sort(), KINDF.sort())
SPANS_OF_RAW = z3.Function("spans_of_raw", RAW.sort(), z3.BoolSort())
IS_CAT = z3.Function("is_categorical", RAW.sort(), z3.BoolSort())


def kind_member(m):
    return V(KINDF, KINDF.member(m))


def n_FactorValues(eng, args, kw, n, st):
    """FactorValues(values, kind=..., spans_intercept=...): wraps (re-wraps) a value; metadata not given is inherited"""
    v = args[0]
    if isinstance(v, MObj) and v.cls == "FactorValues":
        raw, meta0 = v.attrs["__wrapped__"], v.attrs["__formulaic_metadata__"]
        kind0, spans0 = meta0.attrs["kind"], meta0.attrs["spans_intercept"]
    elif isinstance(v, V) and v.ty == RAW:
        raw, kind0, spans0 = v, V(KINDF, KIND_OF_RAW(v.t)), V(TBool, SPANS_OF_RAW(v.t))
    else:
        raise OutOfSubset(n, f"FactorValues({v!r})")
    kind = kw.get("kind", kind0)
    if isinstance(kind, V) and kind.ty is TStr:
        raise OutOfSubset(n, "FactorValues(kind=<str>)")
    spans = kw.get("spans_intercept", spans0)
    meta = MObj("FactorValuesMetadata", {"kind": kind, "spans_intercept": spans})
    return MObj("FactorValues", {"__wrapped__": raw, "__formulaic_metadata__": meta})


def n_EvaluatedFactor(eng, args, kw, n, st):
    f, vals = kw["factor"], kw["values"]
    if not (isinstance(f, MObj) and isinstance(vals, MObj) and vals.cls == "FactorValues"):
        raise OutOfSubset(n, "EvaluatedFactor(...) of unexpected arguments")
    return V(EF, EF.mk(f.attrs["expr"].t, vals.attrs["__formulaic_metadata__"].attrs["kind"].t))


def evalm_value(eng, args, kw, n, st):
    (m,) = args
    t = z3.If(m.t == EVALM.member("LOOKUP"), z3.StringVal("lookup"), z3.If(m.t == EVALM.member("PYTHON"), z3.StringVal("python"), z3.StringVal("literal")))
    return V(TStr, t)


evalm_value.is_property = True


def kind_value(eng, args, kw, n, st):
    return eng.fresh(st, TStr, "kind_value")


kind_value.is_property = True
T = "formulaic/materializers/base.py::FormulaMaterializer."
SELF = {"__class__": "FormulaMaterializer", "factor_cache": TDict(TStr, EF)}
FACTOR = {"__class__": "Factor", "expr": "Str", "eval_method": EVALM, "kind": KINDF, "metadata": META}
SPEC = {"__class__": "ModelSpec", "encoder_state": TDict(TStr, TTup(KINDF, ENCSTATE)), "na_action": NA}


def build():
    reg = Registry()
    cs = []
    reg.methods[("EvalMethod9", "value")] = evalm_value
    reg.methods[("FactorKind", "value")] = kind_value
    lookup = Contract("FormulaMaterializer._lookup", params={"self": "Py", "name": "Str"}, returns=TTup(RAW, VARS), trusted=True,
                      raises={"NameError": None, "Exception": None}, notes="name resolution in data > context > transforms; may raise anything (user data)")
    evaluate = Contract("FormulaMaterializer._evaluate", params={"self": "Py", "expr": "Str", "metadata": META, "spec": "Py"}, returns=TTup(RAW, VARS), trusted=True,
                        raises={"Exception": None}, notes="stateful_eval of a user expression: may raise anything")
    is_cat = Contract("FormulaMaterializer._is_categorical", params={"self": "Py", "values": "Py"}, returns=TBool, trusted=True,
                      notes="dtype test of the concrete materializer (C08 bounded)")
    check_nulls = Contract("FormulaMaterializer._check_for_nulls", params={"self": "Py", "name": "Str", "values": "Py", "na_action": NA, "drop_rows": DROPREF},
                           returns=None, trusted=True, raises={"ValueError": None},
                           notes="proved in vf/proofs/c06.py (updates the caller's drop set; raises ValueError under the raise policy iff there is a null)")
    for nm, k in (("_lookup", lookup), ("_evaluate", evaluate), ("_is_categorical", is_cat), ("_check_for_nulls", check_nulls)):
        reg.add(k, as_method=("FormulaMaterializer", nm))

    def n_literal_eval(eng, args, kw, n, st):
        k = Contract("ast.literal_eval", params={"s": "Str"}, returns=RAW, trusted=True, raises={"ValueError": None, "SyntaxError": None})
        return eng.apply_contract(k, args, kw, n, st)

    G = {"FactorValues": PyConst("FactorValues"), "FactorValues.__call__": n_FactorValues, "EvaluatedFactor": PyConst("EvaluatedFactor"),
         "EvaluatedFactor.__call__": n_EvaluatedFactor, "Factor": PyConst("Factor"), "ast": PyConst("ast"), "ast.literal_eval": n_literal_eval,
         "type": lambda eng, args, kw, n, st: PyConst("type-of-exception"), "FactorEvaluationError": PyConst("FactorEvaluationError"),
         "FactorEncodingError": PyConst("FactorEncodingError")}
    for m in KINDF.members:
        G["Factor.Kind." + m] = kind_member(m)
    miss = "factor.expr not in old_self.factor_cache"
    c = Contract(
        T + "_evaluate_factor", params={"self": SELF, "factor": FACTOR, "spec": SPEC, "drop_rows": DROPREF}, globals=G,
        frame_objects=("self", "factor", "spec"), modifies=["factor_cache"],        # C18: nothing else is written - in particular not `factor.kind`
        raises={"FactorEvaluationError": None, "FactorEncodingError": None, "ValueError": None},
        ensures=[
            "factor.expr in self.factor_cache and result == self.factor_cache[factor.expr]",
            # cache hit: nothing changes, the cached evaluation is returned
            "implies(factor.expr in old_self.factor_cache, self.factor_cache == old_self.factor_cache)",
            # every other entry is untouched
            "forall(lambda k=Str: implies(k != factor.expr, (k in self.factor_cache) == (k in old_self.factor_cache) and "
            "implies(k in old_self.factor_cache, self.factor_cache[k] == old_self.factor_cache[k])))",
            # C09: evaluated against a spec that recorded this factor, the kind is the recorded kind (or FactorEncodingError was raised)
            f"implies({miss} and factor.expr in spec.encoder_state, result.kind == spec.encoder_state[factor.expr][0])",
            # a kind declared on the factor is honoured
            f"implies({miss} and factor.kind != Factor.Kind.UNKNOWN, result.kind == factor.kind)",
            # kind inference always resolves UNKNOWN
            f"implies({miss}, result.kind != Factor.Kind.UNKNOWN)",
            "factor.kind == old_factor.kind and factor.expr == old_factor.expr",
        ], props=["C09", "C18"])
    cs.append(reg.add(c))
    return reg, cs


def run_proofs(ctx):
    reg, cs = build()
    ctx.assume("_evaluate_factor: _lookup/_evaluate/ast.literal_eval may raise anything; _is_categorical is total; FactorValues(v) inherits the metadata of an "
               "already wrapped value (modelled: arbitrary kind) and takes the kind/spans_intercept it is given",
               "EvaluatedFactor modelled by (expr, kind of its values at construction)")
    run_contracts(ctx, cs, reg)
