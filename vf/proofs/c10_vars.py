"""C10 — `ModelSpec.term_variables` (formulaic/model_spec.py): the variables of a term are the variables of ALL the scoped terms that were
emitted for it (rank reduction may split one formula term into several scoped terms that do not all contain every factor), which is
what `variable_terms` / `variable_indices` ("variable-to-column indices cover exactly the columns of the terms using that variable")
are computed from."""
from __future__ import annotations

import z3

from vf.pyvc import seqs as SQ
from vf.pyvc.contracts import Contract, Registry
from vf.pyvc.engine import OutOfSubset, PyConst
from vf.pyvc.types import TBool, TDict, TObj, TRec, TSeq, TSet, TStr, V
from vf.proofs.c10 import TERM

VAR = TObj("Variable")
STV = TObj("ScopedTermWithVars")
VARS_OF = z3.Function("scoped_term_variables", STV.sort(), TSet(VAR).sort())
ROW = TRec("ETSv", {"term": TERM, "scoped_terms": TSeq(STV), "columns": TSeq(TStr)}, ["term", "scoped_terms", "columns"])


def build():
    reg = Registry()
    cs = []

    def st_variables(eng, args, kw, n, st):
        return V(TSet(VAR), VARS_OF(args[0].t))

    st_variables.is_property = True
    reg.methods[("ScopedTermWithVars", "variables")] = st_variables

    def n_union(eng, args, kw, n, st):
        """Variable.union(*sets): the union of the given sets of variables (roles/sources merged per name: modelled by the name)"""
        if len(args) == 1 and isinstance(args[0], tuple) and args[0][0] == "star":
            seq = args[0][1]
            if not (isinstance(seq, V) and isinstance(seq.ty, TSeq) and seq.ty.elem == TSet(VAR)):
                raise OutOfSubset(n, f"Variable.union(*{seq!r})")
            th = SQ.theory(TSet(VAR).sort())
            r = eng.fresh(st, TSet(VAR), "union")
            v = z3.Const("un!v", VAR.sort())
            j = z3.Int("un!j")
            st.assume(z3.ForAll([v], z3.Implies(z3.IsMember(v, r.t), z3.Exists([j], z3.And(0 <= j, j < th.Len(seq.t), z3.IsMember(v, th.At(seq.t, j))), patterns=[th.At(seq.t, j)])),
                                patterns=[z3.IsMember(v, r.t)]))
            st.assume(z3.ForAll([v, j], z3.Implies(z3.And(0 <= j, j < th.Len(seq.t), z3.IsMember(v, th.At(seq.t, j))), z3.IsMember(v, r.t)),
                                patterns=[z3.MultiPattern(z3.IsMember(v, th.At(seq.t, j)), r.t)] if False else [z3.IsMember(v, th.At(seq.t, j))]))
            return r
        raise OutOfSubset(n, "Variable.union of explicit arguments")

    G = {"Variable": PyConst("Variable"), "Variable.union": n_union}
    SELF = {"__class__": "ModelSpec", "structure": TSeq(ROW)}
    structure = reg.add(Contract(
        "formulaic/model_spec.py::ModelSpec.__structure", params={"self": SELF}, returns=TSeq(ROW), is_property=True, trusted=True,
        ensures=["result == self.structure"], notes="proved in vf/proofs/c10.py (returns the recorded structure or raises RuntimeError when there is none)"),
        as_method=("ModelSpec", "_ModelSpec__structure"))
    INR = "0 <= j and j < {n}"
    c = Contract(
        "formulaic/model_spec.py::ModelSpec.term_variables", params={"self": SELF}, returns=TDict(TERM, TSet(VAR)), is_property=True, globals=G,
        lets={"S": "self.structure"}, local_types={"term_variables": TDict(TERM, TSet(VAR))},
        requires=["forall(lambda i, j: implies(0 <= i and i < j and j < len(S), S[i].term != S[j].term))"],
        loops={0: {"inv": [
            "len(keys(term_variables)) == _i",
            "forall(lambda j: implies(0 <= j and j < _i, keys(term_variables)[j] == S[j].term))",
            "forall(lambda j, v=Variable: implies(0 <= j and j < _i and v in term_variables[S[j].term], "
            "exists(lambda m: 0 <= m and m < len(S[j].scoped_terms) and v in S[j].scoped_terms[m].variables, trigger=lambda m: S[j].scoped_terms[m])))",
            "forall(lambda j, m, v=Variable: implies(0 <= j and j < _i and 0 <= m and m < len(S[j].scoped_terms) and v in S[j].scoped_terms[m].variables, "
            "v in term_variables[S[j].term]))",
        ]}},
        ensures=[
            "len(keys(result)) == len(S)",
            "forall(lambda j: implies(0 <= j and j < len(S), keys(result)[j] == S[j].term))",
            # a variable is reported for a term exactly when SOME scoped term emitted for it uses the variable
            "forall(lambda j, v=Variable: implies(0 <= j and j < len(S) and v in result[S[j].term], "
            "exists(lambda m: 0 <= m and m < len(S[j].scoped_terms) and v in S[j].scoped_terms[m].variables, trigger=lambda m: S[j].scoped_terms[m])))",
            "forall(lambda j, m, v=Variable: implies(0 <= j and j < len(S) and 0 <= m and m < len(S[j].scoped_terms) and v in S[j].scoped_terms[m].variables, "
            "v in result[S[j].term]))",
        ], modifies=[], props=["C10", "C17"])
    cs.append(reg.add(c))
    return reg, cs


def run_proofs(ctx):
    from vf.pyvc.run import run_contracts

    reg, cs = build()
    ctx.assume("term_variables: Variable.union is the set union by variable name (roles/sources merged); ScopedTerm.variables is a function of the scoped term")
    run_contracts(ctx, cs, reg)
