"""C14 / C01 — `tokens_to_ast` (formulaic/parser/algos/tokens_to_ast.py), the enriched shunting-yard, under contract.

What is proved (for every token sequence and every operator table):
  * exception safety: the only exception that escapes is FormulaSyntaxError (raised by exc_for_token / exc_for_missing_operator or by
    `operator_resolver.resolve`): no IndexError from the stacks, no KeyError from the context-marker table, and no AttributeError from
    treating a stacked context marker as an operator;
  * termination of the three `while` loops (variant: the height of the operator stack).

The key is the typed-stack invariant: the operator stack holds OrderedOperator(operator, token, index) entries whose `operator` is either
an Operator or - for an open context marker - the marker Token itself; `entry.operator` is an Operator whenever `entry.token.kind` is
not CONTEXT.  `operate` (a nested def, inlined at its three call sites) reads `.fixity`/`.arity` of `entry.operator`, and the loops read
`.precedence`: each such access carries the obligation "this entry holds an Operator".

Model: `Opish` = Operator | Token as a datatype with a tag; output-queue elements (tokens and AST nodes) are opaque `Node`s.
"""
from __future__ import annotations

import z3

from vf.pyvc import seqs as SQ
from vf.pyvc.contracts import Contract, Registry
from vf.pyvc.engine import MObj, OutOfSubset, PyConst, lift
from vf.pyvc.run import run_contracts
from vf.pyvc.types import TBool, TData, TDict, TEnum, TInt, TObj, TReal, TRec, TSeq, TSet, TStr, TTup, V

KIND = TEnum("TokKind", ["CONTEXT", "OPERATOR", "VALUE", "NAME", "PYTHON"])
FIX = TEnum("Fixity", ["PREFIX", "INFIX", "POSTFIX"])
ASSOC = TEnum("Associativity", ["LEFT", "RIGHT", "NONE"])
TOKEN = TRec("Tok", {"token": TStr, "kind": KIND}, ["token", "kind"])
OPERATOR = TRec("Oper", {"arity": TInt, "precedence": TReal, "fixity": FIX, "associativity": ASSOC, "disabled": TBool},
                ["arity", "precedence", "fixity", "associativity", "disabled"])
OPISH = TData("Opish", {"is_operator": TBool, "op": OPERATOR, "tok": TOKEN})
ENTRY = TData("OrderedOperator", {"operator": OPISH, "token": TOKEN, "index": TInt})
ENTRY.unpack = True         # a namedtuple: `operator, token, index = entry`
NODE = TOKEN       # output-queue elements (Token | ASTNode) are never inspected by tokens_to_ast: an ASTNode is an opaque value of the same sort
ACCEPTS = z3.Function("accepts_context", OPERATOR.sort(), TSeq(OPISH).sort(), z3.BoolSort())
MKNODE = z3.Function("ASTNode", OPERATOR.sort(), TSeq(NODE).sort(), NODE.sort())
PAIR = TTup(TOKEN, TSeq(OPERATOR))


def opish_of(eng, v, n):
    if isinstance(v, V) and v.ty == OPISH:
        return v
    if isinstance(v, V) and v.ty == OPERATOR:
        return V(OPISH, OPISH.mk(z3.BoolVal(True), v.t, z3.Const("opish!notok", TOKEN.sort())))
    if isinstance(v, V) and v.ty == TOKEN:
        return V(OPISH, OPISH.mk(z3.BoolVal(False), z3.Const("opish!noop", OPERATOR.sort()), v.t))
    raise OutOfSubset(n, f"neither an Operator nor a Token: {v!r}")


def n_OrderedOperator(eng, args, kw, n, st):
    op, tok, idx = args
    return V(ENTRY, ENTRY.mk(opish_of(eng, op, n).t, tok.t, idx.t))


def opish_attr(name):
    def prop(eng, args, kw, n, st):
        (x,) = args
        # an attribute of Operator read from a stack entry: the entry must hold an Operator (a Token has no such attribute)
        eng.require(st, "safe.attr", n, OPISH.get(x.t, "is_operator"), "AttributeError")
        return eng.getattr(V(OPERATOR, OPISH.get(x.t, "op")), name, n, st)

    prop.is_property = True
    return prop


def oper_accepts(eng, args, kw, n, st):
    op, ctxt = args
    return V(TBool, ACCEPTS(op.t, ctxt.t))


def n_ASTNode(eng, args, kw, n, st):
    op, children = args
    if isinstance(op, V) and op.ty == OPISH:
        eng.require(st, "safe.attr", n, OPISH.get(op.t, "is_operator"), "AttributeError")
        op = V(OPERATOR, OPISH.get(op.t, "op"))
    return V(NODE, MKNODE(op.t, children.t))


def tok_kind_cls(eng, args, kw, n, st):
    return PyConst("Token.Kind")


tok_kind_cls.is_property = True


def tok_eq_other(eng, x, y, n, st):
    """Token.__eq__(str): compares the token text"""
    if y.ty is TStr:
        return TOKEN.field_fn("token")(x.t) == y.t
    raise OutOfSubset(n, f"Token == {y.ty}")


def const_set(items):
    t = z3.EmptySet(z3.StringSort())
    for x in items:
        t = z3.SetAdd(t, z3.StringVal(x))
    return V(TSet(TStr), t)


def const_dict(d):
    ty = TDict(TStr, TStr)
    srt = ty.sort()
    keys = SQ.empty(TSeq(TStr).sort())
    vals = z3.K(z3.StringSort(), z3.StringVal(""))
    for k, v in d.items():
        keys = SQ.append1(keys, z3.StringVal(k))
        vals = z3.Store(vals, z3.StringVal(k), z3.StringVal(v))
    return V(ty, srt.mk(keys, vals))


P = "formulaic/parser/algos/tokens_to_ast.py::"
STACK_INV = "forall(lambda k: implies(0 <= k and k < len(operator_stack) and operator_stack[k].token.kind != Token.Kind.CONTEXT, operator_stack[k].operator.is_operator))"


def build():
    reg = Registry()
    cs = []
    for a in ("arity", "precedence", "fixity", "associativity", "disabled"):
        reg.methods[("Opish", a)] = opish_attr(a)
    reg.methods[("Oper", "accepts_context")] = oper_accepts
    reg.methods[("Tok", "Kind")] = tok_kind_cls
    reg.methods[("Tok", "__eq_other__")] = tok_eq_other

    exc_for_token = Contract("exc_for_token", params={"token": TOKEN, "message": "Str"}, trusted=True, raises_type="FormulaSyntaxError",
                             notes="formulaic.parser.utils.exc_for_token constructs a FormulaSyntaxError (that it never raises itself is proved in vf/proofs/c14_errors.py)")
    exc_missing = Contract("exc_for_missing_operator", params={"lhs": NODE, "rhs": NODE, "extra": "Opt[Str]"}, trusted=True, raises_type="FormulaSyntaxError",
                           notes="formulaic.parser.utils.exc_for_missing_operator constructs a FormulaSyntaxError (that it never raises itself, for every pair of trees, is proved in vf/proofs/c14_errors.py)")
    exc_missing.defaults = {"extra": None}
    resolve = Contract("OperatorResolver.resolve", params={"self": TObj("OperatorResolver"), "token": TOKEN}, returns=TSeq(PAIR), trusted=True,
                       raises={"FormulaSyntaxError": None},
                       notes="OperatorResolver.resolve / DefaultOperatorResolver.resolve: proved in vf/proofs/c01.py to raise FormulaSyntaxError only")
    reg.add(resolve, as_method=("OperatorResolver", "resolve"))

    G = {"OrderedOperator": PyConst("OrderedOperator"), "OrderedOperator.__call__": n_OrderedOperator, "ASTNode": PyConst("ASTNode"), "ASTNode.__call__": n_ASTNode,
         "Token": PyConst("Token"), "Operator": PyConst("Operator"),
         "CONTEXT_OPENERS": const_set(["(", "["]), "CONTEXT_CLOSERS": const_dict({")": "(", "]": "["})}
    for m in KIND.members:
        G["Token.Kind." + m] = V(KIND, KIND.member(m))
    for m in FIX.members:
        G["Operator.Fixity." + m] = V(FIX, FIX.member(m))
    for m in ASSOC.members:
        G["Operator.Associativity." + m] = V(ASSOC, ASSOC.member(m))

    c = Contract(
        P + "tokens_to_ast", params={"tokens": TSeq(TOKEN), "operator_resolver": TObj("OperatorResolver")}, globals=G,
        calls={"exc_for_token": exc_for_token, "exc_for_missing_operator": exc_missing},
        local_types={"output_queue": TSeq(NODE), "operator_stack": TSeq(ENTRY), "disabled_operators": TSet(TOKEN)},
        raises={"FormulaSyntaxError": None},          # C14: nothing else escapes
        loops={   # ordinals: breadth-first order of the loops in the function
            0: {"inv": [STACK_INV]},                                                    # for token in tokens
            1: {"inv": [STACK_INV], "variant": "len(operator_stack)"},                  # final unwinding of the operator stack
            2: {"inv": [STACK_INV]},                                                    # for operator_token, operators in resolve(token)
            3: {"inv": [STACK_INV], "variant": "len(operator_stack)"},                  # closer: unwind to the innermost open marker
            4: {"inv": [STACK_INV]},                                                    # for operator in operators
            5: {"inv": [STACK_INV], "variant": "len(operator_stack)"},                  # apply stacked operators of higher precedence
        },
        ensures=[], modifies=[], props=["C14", "C01"])
    cs.append(c)
    return reg, cs


def run_proofs(ctx):
    reg, cs = build()
    ctx.assume("tokens_to_ast: Operator.accepts_context is total (user-supplied callables in the default table are proved/observed total by the bounded driver); "
               "operator_resolver.resolve raises FormulaSyntaxError only (proved for the default resolver in vf/proofs/c01.py)",
               "namedtuple OrderedOperator modelled as a datatype; Token|Operator union modelled as a tagged datatype (Opish)")
    run_contracts(ctx, cs, reg)
