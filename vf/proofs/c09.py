"""C09 / C04 — _enforce_structure never adds, removes or renames an output column
(formulaic/materializers/base.py).  For every term the emitted mapping has EXACTLY the recorded
column names, in the recorded order, or the call raises FactorEncodingError; when the generated
names agree with the recorded ones, every emitted column is the generated column of that name.
"""
from __future__ import annotations

import z3

from vf.pyvc.contracts import Contract, Registry
from vf.pyvc.run import run_contracts
from vf.pyvc.types import TDict, TObj, TSeq, TStr, TTup
from vf.proofs.c10 import ETS, TERM

ST = TObj("ScopedTerms")
COL = TObj("Column")
COLS = TDict(TStr, COL)
ITEM = TTup(TERM, ST, COLS)


SAMEON = z3.Function("same_on", COLS.sort(), COLS.sort(), TSeq(TStr).sort(), z3.BoolSort())


def same_on(eng, args, kw, n, st):
    """same_on(D1, D2, names): D1 and D2 agree on every listed name"""
    from vf.pyvc.types import TBool, V

    return V(TBool, SAMEON(*[a.t for a in args]))


def same_on_axioms():
    from vf.pyvc import seqs as SQ

    d1, d2 = z3.Consts("so!d1 so!d2", COLS.sort())
    ns = z3.Const("so!ns", TSeq(TStr).sort())
    j = z3.Int("so!j")
    val = COLS.sort().val
    return [z3.ForAll([d1, d2, ns], SAMEON(d1, d2, ns) == z3.ForAll([j], z3.Implies(z3.And(0 <= j, j < SQ.length(ns)),
                      z3.Select(val(d1), SQ.at(ns, j)) == z3.Select(val(d2), SQ.at(ns, j))), patterns=[SQ.at(ns, j)]), patterns=[SAMEON(d1, d2, ns)])]


def build():
    reg = Registry()
    cs = []
    enc_const = Contract("FormulaMaterializer._encode_constant", params={"self": "Mat", "value": "Int", "metadata": "None", "encoder_state": "Dict[Str,Column]",
                                                                       "spec": "SpecObj", "drop_rows": "Seq[Int]"},
                         returns=COL, trusted=True, notes="abstract method: constant column (bounded under C02/C05)")
    reg.add(enc_const, as_method=("FormulaMaterializer", "_encode_constant"))
    INV_K = ("_yielded[k][0] == cols[k][0] and _yielded[k][1] == cols[k][1] and keys(_yielded[k][2]) == S[k].columns")
    KEEP = "implies(len(cols[k][2]) == len(S[k].columns), same_on({R}[k][2], cols[k][2], S[k].columns))"
    cs.append(reg.add(Contract(
        "formulaic/materializers/base.py::FormulaMaterializer._enforce_structure",
        params={"self": {"__class__": "FormulaMaterializer"}, "cols": TSeq(ITEM), "spec": {"__class__": "ModelSpec", "structure": "Seq[ETS]"}, "drop_rows": "Seq[Int]"},
        returns=TSeq(ITEM), yields=ITEM, lets={"S": "spec.structure"}, spec_env={"same_on": same_on}, axioms=[same_on_axioms],
        requires=["forall(lambda k: implies(0 <= k and k < len(S), distinct(S[k].columns)))"],
        raises={"RuntimeError": "len(cols) != len(S)", "FactorEncodingError": None},
        loops={0: {"inv": [
            "len(_yielded) == _i",
            "forall(lambda k: implies(0 <= k and k < _i, " + INV_K + "))",
            "forall(lambda k: implies(0 <= k and k < _i, " + KEEP.format(R="_yielded") + "))",
        ]}},
        ensures=[
            "len(result) == len(cols)",
            # term and scoped terms pass through; the emitted names are exactly the recorded names in recorded order
            "forall(lambda k: implies(0 <= k and k < len(cols), result[k][0] == cols[k][0] and result[k][1] == cols[k][1] and keys(result[k][2]) == S[k].columns))",
            # when as many columns were generated as recorded, each emitted column is the generated column of that name
            "forall(lambda k: implies(0 <= k and k < len(cols), " + KEEP.format(R="result") + "))",
        ],
        modifies=[], props=["C09", "C04"])))
    return reg, cs


CONCRETE_ENV = {"same_on": lambda d1, d2, names: all(d1[n] is d2[n] for n in names)}


def workloads():
    from vf.pyvc import workload

    def w():
        import warnings

        import formulaic

        fr = workload.frames()
        df = fr["df"]
        for f in workload.FORMULAS[:24]:
            with warnings.catch_warnings():
                warnings.simplefilter("ignore")
                try:
                    mm = formulaic.model_matrix(f, df)
                    specs = mm.model_spec
                    specs.get_model_matrix(df.iloc[:5])
                    specs.get_model_matrix(df.iloc[[0, 0, 3]])
                except Exception:
                    pass

    return [w]


def run_proofs(ctx):
    reg, cs = build()
    ctx.assume("recorded column names of a term are pairwise distinct (requires); _encode_constant assumed (abstract)")
    run_contracts(ctx, cs, reg, workloads=workloads(), concrete_env=CONCRETE_ENV)
    from vf.proofs import c09_eval

    c09_eval.run_proofs(ctx)
    from vf.proofs import c08

    c08.run_proofs(ctx)       # kind inference (_is_categorical): which values the kind guard above treats as categorical
