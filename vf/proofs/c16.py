"""C16 — the scaled-factor algebra of linear constraints under contract (formulaic/utils/constraints.py).

A set of ScaledFactor objects compares/hashes its elements by `.factor` only, so it is a finite map
factor -> scale ("keyed set", vf/pyvc/types.py::TKSet).  coef(S, f) = scale of f in S, 0 if absent:
the denotation of S is  x |-> sum_f coef(S, f) * x_f  (f = 1 is the constant).  Contracts are stated
coefficient-wise, so no induction over the size of the sets is needed:

   add_terms(a, b):    coef(r, f) == coef(a, f) + coef(b, f)
   sub_terms(a, b):    coef(r, f) == coef(a, f) - coef(b, f)
   negate_terms(a):    coef(r, f) == -coef(a, f)
   mul_term / div_term: scalar * term, term / scalar; RuntimeError exactly when both operands are non-constant /
                        the divisor is non-constant ("specifications that are not linear are rejected")
"""
from __future__ import annotations

import z3

from vf.pyvc import seqs as SQ
from vf.pyvc.contracts import Contract, Registry
from vf.pyvc.engine import MObj, OutOfSubset, PyConst, lift
from vf.pyvc.run import run_contracts
from vf.pyvc.types import TBool, TData, TInt, TKSet, TObj, TReal, V

FKEY = TObj("FactorKey")          # a Factor modulo Factor.__eq__, or the literal 1
ONE = z3.Const("FactorKey:1", FKEY.sort())
SF = TData("ScaledFactor", {"factor": FKEY, "scale": TReal})
KS = TKSet(SF, "factor", "scale")


def coef(eng, args, kw, n, st):
    S, f = args
    s_ = KS.sort()
    return V(TReal, z3.If(SQ.has(s_.keys(S.t), f.t), z3.Select(s_.val(S.t), f.t), z3.RealVal(0)))


def n_ScaledFactor(eng, args, kw, n, st):
    f = args[0]
    if isinstance(f, V) and f.ty is TInt:
        if not (z3.is_int_value(z3.simplify(f.t)) and z3.simplify(f.t).as_long() == 1):
            raise OutOfSubset(n, "ScaledFactor(<int other than 1>)")
        f = V(FKEY, ONE)
    sc = kw.get("scale", lift(1))
    return V(SF, SF.mk(f.t, eng.coerce(sc, TReal, n).t))


def sf_eq_one(eng, args, kw, n, st):
    """`term.factor == 1`: Factor.__eq__(int) is NotImplemented -> False; the literal 1 == 1 -> True"""
    a, b = args
    return V(TBool, a.t == ONE)


P = "formulaic/utils/constraints.py::"
OPS = P + "ConstraintOperatorResolver.operators.<locals>."
G = {"ScaledFactor": PyConst("ScaledFactor"), "ScaledFactor.__call__": n_ScaledFactor}
ENV = {"coef": coef, "ONE": V(FKEY, ONE)}
RAW = {"__class__": "ScaledFactor", "factor": FKEY, "scale": "Real"}


def build():
    reg = Registry()
    cs = []
    KEYED = {"ScaledFactor": KS}
    # ---- ScaledFactor dunders (raw objects)
    for name, expr in (("__add__", "self.scale + other.scale"), ("__sub__", "self.scale - other.scale")):
        cs.append(reg.add(Contract(
            P + "ScaledFactor." + name, params={"self": RAW, "other": RAW}, returns=SF, globals=dict(G, isinstance=None) if False else G,
            ensures=[f"result.factor == self.factor and result.scale == {expr}"], modifies=[], props=["C16"])))
    cs.append(reg.add(Contract(P + "ScaledFactor.__neg__", params={"self": RAW}, returns=SF, globals=G,
                               ensures=["result.factor == self.factor and result.scale == -self.scale"], modifies=[], props=["C16"])))
    # value-level versions used at call sites (same contracts over the datatype)
    def v_add(eng, args, kw, n, st):
        a, b = args
        return V(SF, SF.mk(SF.get(a.t, "factor"), SF.get(a.t, "scale") + SF.get(b.t, "scale")))

    def v_sub(eng, args, kw, n, st):
        a, b = args
        return V(SF, SF.mk(SF.get(a.t, "factor"), SF.get(a.t, "scale") - SF.get(b.t, "scale")))

    def v_neg(eng, args, kw, n, st):
        (a,) = args
        return V(SF, SF.mk(SF.get(a.t, "factor"), -SF.get(a.t, "scale")))

    reg.methods[("ScaledFactor", "__add__")] = v_add
    reg.methods[("ScaledFactor", "__sub__")] = v_sub
    reg.methods[("ScaledFactor", "__neg__")] = v_neg
    def fkey_eq_other(eng, x, y, n, st):
        # `factor == 1`: Factor.__eq__(int) -> NotImplemented -> False, while the literal 1 == 1: only the constant key equals 1
        yt = z3.simplify(y.t)
        if y.ty is TInt and z3.is_int_value(yt) and yt.as_long() == 1:
            return x.t == ONE
        raise OutOfSubset(n, "factor compared with something other than the literal 1")

    reg.methods[("FactorKey", "__eq_other__")] = fkey_eq_other

    negate = Contract(OPS + "negate_terms", params={"terms": KS}, returns=KS, spec_env=ENV, keyed=KEYED,
                      ensures=["forall(lambda f=FactorKey: coef(result, f) == -coef(terms, f))",
                               "forall(lambda f=FactorKey: (f in keys(result)) == (f in keys(terms)))"], props=["C16"])
    cs.append(negate)
    common = dict(returns=KS, spec_env=ENV, keyed=KEYED, local_types={"added": KS}, props=["C16"])
    add = Contract(OPS + "add_terms", params={"terms_left": KS, "terms_right": KS},
                   loops={0: {"inv": [
                       "forall(lambda f=FactorKey: implies(f in keys(added), f in keys(terms_left)[:_i]))",
                       "forall(lambda f=FactorKey: implies(f in keys(terms_left)[:_i], f in keys(added)))",
                       "forall(lambda f=FactorKey: implies(f in keys(added), coef(added, f) == coef(terms_left, f) + coef(terms_right, f)))",
                   ]}},
                   ensures=["forall(lambda f=FactorKey: coef(result, f) == coef(old_terms_left, f) + coef(old_terms_right, f))"], **common)
    cs.append(add)
    sub = Contract(OPS + "sub_terms", params={"terms_left": KS, "terms_right": KS}, calls={"negate_terms": negate},
                   loops={0: {"inv": [
                       "forall(lambda f=FactorKey: implies(f in keys(added), f in keys(terms_left)[:_i]))",
                       "forall(lambda f=FactorKey: implies(f in keys(terms_left)[:_i], f in keys(added)))",
                       "forall(lambda f=FactorKey: implies(f in keys(added), coef(added, f) == coef(terms_left, f) - coef(terms_right, f)))",
                   ]}},
                   ensures=["forall(lambda f=FactorKey: coef(result, f) == coef(old_terms_left, f) - coef(old_terms_right, f))"], **common)
    cs.append(sub)
    # ---- scalar multiplication / division of single terms
    VSF = SF
    mul = Contract(OPS + "mul_term", params={"term_left": VSF, "term_right": VSF}, returns=SF, globals=G, spec_env=ENV,
                   raises={"RuntimeError": "term_left.factor != ONE and term_right.factor != ONE"},
                   ensures=["result.scale == term_left.scale * term_right.scale",
                            "result.factor == ite(term_left.factor == ONE, term_right.factor, term_left.factor)"], props=["C16"])
    cs.append(mul)
    # (sibling closures are resolved through their contracts, should one be rewritten in terms of another)
    cs.append(Contract(OPS + "div_term", params={"term_left": VSF, "term_right": VSF}, returns=SF, globals=G, spec_env=ENV, calls={"mul_term": mul},
                       requires=["term_right.scale != 0"],
                       raises={"RuntimeError": "term_right.factor != ONE"},
                       ensures=["result.scale == term_left.scale / term_right.scale", "result.factor == term_left.factor"], props=["C16"]))
    return reg, cs


def run_proofs(ctx):
    reg, cs = build()
    ctx.assume("A-float: scales are reals", "A-eq: ScaledFactor sets are maps factor -> scale because ScaledFactor.__eq__/__hash__ use `.factor` only; "
               "Factor.__eq__(1) is False (NotImplemented) and the literal 1 equals itself", "python sets keep the element already present when an equal one is added")
    run_contracts(ctx, cs, reg)
    from vf.proofs import c16_matrix

    c16_matrix.run_proofs(ctx)
