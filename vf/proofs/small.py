"""Small functions under contract that several properties lean on (each found worth a contract by a seeded change
that the bounded drivers missed at first):

  C11  TreatmentContrasts._find_base_index / SASContrasts._find_base_index   (reference level: the requested base, whatever its label)
  C14  DefaultOperatorResolver.set_feature_flags   (the cached operator table never survives a change of flags)
  C14/C17  Token.required_variables   (never raises: malformed or unusual Python fragments give an empty set)
  C03  ScopedTerm.__eq__ / __hash__   (identity of a scoped term = its SET of scoped factors, order-insensitive)
"""
from __future__ import annotations

import z3

from vf.pyvc import seqs as SQ
from vf.pyvc.contracts import Contract, Registry
from vf.pyvc.engine import MObj, OutOfSubset, PyConst, lift
from vf.pyvc.types import TBool, TData, TInt, TNone, TObj, TOpt, TSeq, TSet, TStr, V

LEVEL = TObj("Level")
FALSY = z3.Function("falsy_level", LEVEL.sort(), z3.BoolSort())      # bool(label) is False (0, False, "")


def build_c11():
    reg = Registry()
    cs = []
    G = {"UNSET": lift(None)}
    for cls, dflt in (("TreatmentContrasts", "0"), ("SASContrasts", "len(levels) - 1")):
        c = Contract(
            f"formulaic/transforms/contrasts.py::{cls}._find_base_index",
            params={"self": {"__class__": cls, "base": TOpt(LEVEL)}, "levels": TSeq(LEVEL)}, returns="Int", globals=G,
            truthy_of={"Level": lambda v: z3.Not(FALSY(v.t))},
            raises={"ValueError": "self.base is not UNSET and self.base not in levels"},
            ensures=[
                f"implies(self.base is UNSET, result == {dflt})",
                # the reference level is the requested base itself (first position holding it), whatever its label is
                "implies(self.base is not UNSET, 0 <= result and result < len(levels) and levels[result] == self.base)",
                "implies(self.base is not UNSET, forall(lambda j: implies(0 <= j and j < result, levels[j] != self.base)))",
            ], modifies=[], props=["C11"])
        c.concrete_env = {"UNSET": __import__("formulaic.transforms.contrasts", fromlist=["UNSET"]).UNSET}
        cs.append(reg.add(c))
    # the column to delete from a FULL-rank coding to make it the reduced one is the REFERENCE level's: the requested base, else the
    # default reference of the coding (Treatment: the first level, SAS: the last); a reduced coding has nothing to drop
    for cls, dflt in (("TreatmentContrasts", "levels[0]"), ("SASContrasts", "levels[len(levels) - 1]")):
        d = Contract(
            f"formulaic/transforms/contrasts.py::{cls}.get_drop_field",
            params={"self": {"__class__": cls, "base": TOpt(LEVEL)}, "levels": TSeq(LEVEL), "reduced_rank": "Bool"}, returns=TOpt(LEVEL), globals=G,
            requires=["len(levels) > 0"], raises={},
            ensures=[
                "implies(reduced_rank, result is None)",
                "implies(not reduced_rank and self.base is not UNSET, result == self.base)",
                f"implies(not reduced_rank and self.base is UNSET, result == {dflt})",
            ], modifies=[], props=["C11"])
        d.concrete_env = {"UNSET": __import__("formulaic.transforms.contrasts", fromlist=["UNSET"]).UNSET}
        d.no_monitor = True
        cs.append(reg.add(d))
    return reg, cs


FLAGS = TObj("FeatureFlags")
FROM_SPEC = z3.Function("FeatureFlags.from_spec", TObj("FlagSpec").sort(), FLAGS.sort())
FLAG_IN = z3.Function("flags_contains", FLAGS.sort(), TObj("FlagSpec").sort(), z3.BoolSort())


def build_c14_flags():
    reg = Registry()
    cs = []

    def n_from_spec(eng, args, kw, n, st):
        return V(FLAGS, FROM_SPEC(args[0].t))

    def flags_contains(eng, args, kw, n, st):
        a, b = args
        if b.t.sort() == FLAGS.sort():      # `flags in other_flags` (Flag.__contains__: every bit of the operand is set)
            return V(TBool, z3.Function("flags_subset", FLAGS.sort(), FLAGS.sort(), z3.BoolSort())(b.t, a.t))
        return V(TBool, FLAG_IN(a.t, b.t))

    reg.methods[("FeatureFlags", "__contains__")] = flags_contains
    G = {"DefaultFormulaParser": PyConst("DefaultFormulaParser"), "DefaultFormulaParser.FeatureFlags": PyConst("DefaultFormulaParser.FeatureFlags"),
         "DefaultFormulaParser.FeatureFlags.from_spec": n_from_spec}
    spec_env = {"from_spec": lambda e, a, k, n, s: V(FLAGS, FROM_SPEC(a[0].t))}
    for label, attrs in (("table-cached", {"operator_table": "OpTable"}), ("table-not-cached", {})):
        selfspec = {"__class__": "DefaultOperatorResolver", "feature_flags": "FeatureFlags"}
        selfspec.update(attrs)
        c = Contract(
            "formulaic/parser/parser.py::DefaultOperatorResolver.set_feature_flags", params={"self": selfspec, "flags": "FlagSpec"}, returns="self",
            globals=G, spec_env=spec_env,
            ensures=["'operator_table' not in self.__dict__",          # the next use rebuilds the table from the new flags
                     "self.feature_flags == from_spec(old_flags)"],
            props=["C14"])
        c.label = label
        cs.append(c)
    return reg, cs


def build_token_required_variables():
    from vf.proofs.c15 import G as TOKG, KIND, OKIND

    reg = Registry()
    cs = []
    VAR = TObj("Variable")
    MKVAR = z3.Function("Variable", z3.StringSort(), VAR.sort())

    def n_Variable(eng, args, kw, n, st):
        return V(VAR, MKVAR(args[0].t))

    def n_filter(eng, args, kw, n, st):
        src = args[1]
        r = eng.fresh(st, TSet(VAR), "filtered")
        x = z3.Const("flt!x", VAR.sort())
        st.assume(z3.ForAll([x], z3.Implies(z3.IsMember(x, r.t), z3.IsMember(x, src.t))))
        return r

    gev = Contract("get_expression_variables", params={"expr": "Str", "context": "Ctx"}, returns=TSet(VAR), trusted=True,
                   raises={"SyntaxError": None, "ValueError": None},
                   notes="formulaic.utils.variables.get_expression_variables: ast.parse may raise SyntaxError, and the AST walk raises "
                         "ValueError('Unknown AST node type') for some valid Python (attribute/call applied to a subscript, parenthesised expression, lambda)")
    G = dict(TOKG)
    G.update({"Variable": PyConst("Variable"), "Variable.__call__": n_Variable, "filter": n_filter, "TRANSFORMS": PyConst("TRANSFORMS")})

    def n_get_expr_vars(eng, args, kw, n, st):
        a = list(args[:1]) + [eng.fresh(st, TObj("Ctx"), "ctx")]
        return eng.apply_contract(gev, a, kw, n, st)

    G["get_expression_variables"] = n_get_expr_vars
    c = Contract(
        "formulaic/parser/types/token.py::Token.required_variables",
        params={"self": {"__class__": "Token", "token": "Str", "kind": OKIND}}, returns=TSet(VAR), is_property=True, globals=G,
        raises={},                       # C14: no exception of any type escapes, whatever the fragment
        ensures=["implies(self.kind is None, result == set())"], modifies=[], props=["C14", "C17"])
    cs.append(reg.add(c))
    return reg, cs


def build_scoped_term_identity():
    from vf.proofs.c02 import SFAC

    reg = Registry()
    cs = []
    S = TSeq(SFAC).sort()
    SORTED = z3.Function("sorted_sfac", S, S)
    HASHT = z3.Function("hash_tuple_sfac", S, z3.IntSort())

    def sorted_axioms():
        th = SQ.theory(SFAC.sort())
        a, b = z3.Consts("st!a st!b", S)
        x = z3.Const("st!x", SFAC.sort())
        i, j = z3.Ints("st!i st!j")

        def distinct(s):
            return z3.ForAll([i, j], z3.Implies(z3.And(0 <= i, i < j, j < th.Len(s)), th.At(s, i) != th.At(s, j)))

        # library lemma: sorting by a total order is a canonical form of the element set (for duplicate-free sequences)
        return [z3.ForAll([a, b], z3.Implies(z3.And(distinct(a), distinct(b)),
                                            (SORTED(a) == SORTED(b)) == z3.ForAll([x], th.Has(a, x) == th.Has(b, x))),
                          patterns=[z3.MultiPattern(SORTED(a), SORTED(b))])]

    def n_sorted(eng, args, kw, n, st):
        return V(TSeq(SFAC), SORTED(args[0].t))

    def n_tuple(eng, args, kw, n, st):
        return args[0]

    def n_hash(eng, args, kw, n, st):
        return V(TInt, HASHT(args[0].t))

    G = {"ScopedTerm": PyConst("ScopedTerm"), "sorted": n_sorted, "tuple": n_tuple, "hash": n_hash}
    RAW = {"__class__": "ScopedTerm", "factors": TSeq(SFAC), "scale": "Real"}
    env = {"sorted_key": lambda e, a, k, n, s: V(TSeq(SFAC), SORTED(a[0].t)), "hash_of": lambda e, a, k, n, s: V(TInt, HASHT(a[0].t))}
    cs.append(reg.add(Contract(
        "formulaic/materializers/types/scoped_term.py::ScopedTerm.__eq__", params={"self": RAW, "other": RAW}, returns="Bool", globals=G,
        axioms=[sorted_axioms], requires=["distinct(self.factors)", "distinct(other.factors)"],
        ensures=["result == forall(lambda x=ScopedFactor: (x in self.factors) == (x in other.factors))"],   # same set of scoped factors, any order, any scale
        modifies=[], props=["C03"])))
    cs.append(reg.add(Contract(
        "formulaic/materializers/types/scoped_term.py::ScopedTerm.__hash__", params={"self": RAW}, returns="Int", globals=G, spec_env=env,
        ensures=["result == hash_of(sorted_key(self.factors))"],   # a function of the canonical (order-insensitive) form: equal terms hash alike
        modifies=[], props=["C03"])))
    return reg, cs


BUILDERS = {"C11": [build_c11], "C14": [build_c14_flags, build_token_required_variables], "C17": [build_token_required_variables],
            "C03": [build_scoped_term_identity]}


def _workloads(prop):
    from vf.pyvc import workload

    def w_c11():
        import warnings

        import pandas as pd

        import formulaic

        df = pd.DataFrame({"A": list("xyzxyzxy"), "N": [0, 1, 2, 0, 1, 2, 0, 1], "E": ["", "a", "b", "", "a", "b", "", "a"], "x": range(8)})
        for f in ("C(A)", "C(A, contr.treatment('y'))", "C(A, contr.treatment(base='z'))", "C(N, contr.treatment(0))", "C(N, contr.treatment(2))",
                  "C(E, contr.treatment(''))", "C(E, contr.treatment('b'))", "C(A, contr.SAS)", "C(A, contr.SAS('x'))", "C(N, contr.SAS(0))",
                  "C(A, contr.treatment('q'))", "C(N, contr.SAS(7))", "C(A, contr.treatment):x"):
            for ensure in (True, False):
                with warnings.catch_warnings():
                    warnings.simplefilter("ignore")
                    try:
                        formulaic.model_matrix(f, df, ensure_full_rank=ensure)
                    except Exception:
                        pass

    def w_c14():
        from formulaic.parser import DefaultFormulaParser

        for flags in ("default", "all", "twosided", "multipart", set()):
            try:
                p = DefaultFormulaParser(feature_flags=flags)
                for f in ("a + b", "y ~ a", "a | b", "y ~ a | b"):
                    for again in ("default", "all", set()):
                        try:
                            p.get_terms(f)
                        except Exception:
                            pass
                        p.operator_resolver.set_feature_flags(again)
                        try:
                            p.get_terms(f)
                        except Exception:
                            pass
            except Exception:
                pass
        for f in workload.FORMULAS + ["x[0].y ~ a", "(a).b + c", "(lambda q: q)(a) ~ b", "a[1](2)", "f(x)[0].z", "`my col` + {a b}", "{1 +} ~ a"]:
            try:
                toks = list(__import__("formulaic.parser.algos.tokenize", fromlist=["tokenize"]).tokenize(f))
            except Exception:
                continue
            for t in toks:
                try:
                    t.required_variables
                except Exception:
                    pass

    def w_c03():
        workload.run_materialization(items=["A:B + B:A:D", "a:A + A:a:B", "A*B*D", "B:A + A:B", "0 + A:B + B:A", "a:b:A + A:b:a:B", "A + a:A + B:a"])

    return {"C11": [w_c11], "C14": [w_c14], "C17": [w_c14], "C03": [w_c03]}.get(prop, [])


def run_small(ctx, prop):
    from vf.pyvc.run import run_contracts

    builders = BUILDERS.get(prop, [])
    wl = _workloads(prop)
    for k, b in enumerate(builders):
        reg, cs = b()
        run_contracts(ctx, cs, reg, workloads=wl if k == len(builders) - 1 else (), monitor_extra=())
