"""Small functions under contract that several properties lean on (each found worth a contract by a seeded change
that the bounded drivers missed at first):

  C11  TreatmentContrasts._find_base_index / SASContrasts._find_base_index   (reference level: the requested base, whatever its label)
  C14  DefaultOperatorResolver.set_feature_flags   (the cached operator table never survives a change of flags)
  C14/C17  Token.required_variables   (never raises: malformed or unusual Python fragments give an empty set)
  C03  ScopedTerm.__eq__ / __hash__   (identity of a scoped term = its SET of scoped factors, order-insensitive)
"""
from __future__ import annotations

import z3

from vf.pyvc import seqs as SQ
from vf.pyvc.contracts import Contract, Registry
from vf.pyvc.engine import MObj, OutOfSubset, PyConst, lift
from vf.pyvc.types import TBool, TData, TInt, TNone, TObj, TOpt, TSeq, TSet, TStr, V

LEVEL = TObj("Level")
FALSY = z3.Function("falsy_level", LEVEL.sort(), z3.BoolSort())      # bool(label) is False (0, False, "")


def build_c11():
    reg = Registry()
    cs = []
    G = {"UNSET": lift(None)}
    for cls, dflt in (("TreatmentContrasts", "0"), ("SASContrasts", "len(levels) - 1")):
        c = Contract(
            f"formulaic/transforms/contrasts.py::{cls}._find_base_index",
            params={"self": {"__class__": cls, "base": TOpt(LEVEL)}, "levels": TSeq(LEVEL)}, returns="Int", globals=G,
            truthy_of={"Level": lambda v: z3.Not(FALSY(v.t))},
            raises={"ValueError": "self.base is not None and self.base not in levels"},
            ensures=[
                f"implies(self.base is None, result == {dflt})",
                # the reference level is the requested base itself (first position holding it), whatever its label is
                "implies(self.base is not None, 0 <= result and result < len(levels) and levels[result] == self.base)",
                "implies(self.base is not None, forall(lambda j: implies(0 <= j and j < result, levels[j] != self.base)))",
            ], modifies=[], props=["C11"])
        cs.append(reg.add(c))
    return reg, cs


FLAGS = TObj("FeatureFlags")
FROM_SPEC = z3.Function("FeatureFlags.from_spec", TObj("FlagSpec").sort(), FLAGS.sort())
FLAG_IN = z3.Function("flags_contains", FLAGS.sort(), TObj("FlagSpec").sort(), z3.BoolSort())


def build_c14_flags():
    reg = Registry()
    cs = []

    def n_from_spec(eng, args, kw, n, st):
        return V(FLAGS, FROM_SPEC(args[0].t))

    def flags_contains(eng, args, kw, n, st):
        return V(TBool, FLAG_IN(args[0].t, args[1].t))

    reg.methods[("FeatureFlags", "__contains__")] = flags_contains
    G = {"DefaultFormulaParser": PyConst("DefaultFormulaParser"), "DefaultFormulaParser.FeatureFlags": PyConst("DefaultFormulaParser.FeatureFlags"),
         "DefaultFormulaParser.FeatureFlags.from_spec": n_from_spec}
    spec_env = {"from_spec": lambda e, a, k, n, s: V(FLAGS, FROM_SPEC(a[0].t))}
    for label, attrs in (("table-cached", {"operator_table": "OpTable"}), ("table-not-cached", {})):
        selfspec = {"__class__": "DefaultOperatorResolver", "feature_flags": "FeatureFlags"}
        selfspec.update(attrs)
        c = Contract(
            "formulaic/parser/parser.py::DefaultOperatorResolver.set_feature_flags", params={"self": selfspec, "flags": "FlagSpec"}, returns="self",
            globals=G, spec_env=spec_env,
            ensures=["'operator_table' not in self.__dict__",          # the next use rebuilds the table from the new flags
                     "self.feature_flags == from_spec(flags)"],
            props=["C14"])
        c.label = label
        cs.append(c)
    return reg, cs


def build_token_required_variables():
    from vf.proofs.c15 import G as TOKG, KIND, OKIND

    reg = Registry()
    cs = []
    VAR = TObj("Variable")
    MKVAR = z3.Function("Variable", z3.StringSort(), VAR.sort())

    def n_Variable(eng, args, kw, n, st):
        return V(VAR, MKVAR(args[0].t))

    def n_filter(eng, args, kw, n, st):
        src = args[1]
        r = eng.fresh(st, TSet(VAR), "filtered")
        x = z3.Const("flt!x", VAR.sort())
        st.assume(z3.ForAll([x], z3.Implies(z3.IsMember(x, r.t), z3.IsMember(x, src.t))))
        return r

    gev = Contract("get_expression_variables", params={"expr": "Str", "context": "Ctx"}, returns=TSet(VAR), trusted=True,
                   raises={"SyntaxError": None, "ValueError": None},
                   notes="formulaic.utils.variables.get_expression_variables: ast.parse may raise SyntaxError, and the AST walk raises "
                         "ValueError('Unknown AST node type') for some valid Python (attribute/call applied to a subscript, parenthesised expression, lambda)")
    G = dict(TOKG)
    G.update({"Variable": PyConst("Variable"), "Variable.__call__": n_Variable, "filter": n_filter, "TRANSFORMS": PyConst("TRANSFORMS")})

    def n_get_expr_vars(eng, args, kw, n, st):
        a = list(args[:1]) + [eng.fresh(st, TObj("Ctx"), "ctx")]
        return eng.apply_contract(gev, a, kw, n, st)

    G["get_expression_variables"] = n_get_expr_vars
    c = Contract(
        "formulaic/parser/types/token.py::Token.required_variables",
        params={"self": {"__class__": "Token", "token": "Str", "kind": OKIND}}, returns=TSet(VAR), is_property=True, globals=G,
        raises={},                       # C14: no exception of any type escapes, whatever the fragment
        ensures=["implies(self.kind is None, result == set())"], modifies=[], props=["C14", "C17"])
    cs.append(reg.add(c))
    return reg, cs


def build_scoped_term_identity():
    from vf.proofs.c02 import SFAC

    reg = Registry()
    cs = []
    S = TSeq(SFAC).sort()
    SORTED = z3.Function("sorted_sfac", S, S)
    HASHT = z3.Function("hash_tuple_sfac", S, z3.IntSort())

    def sorted_axioms():
        th = SQ.theory(SFAC.sort())
        a, b = z3.Consts("st!a st!b", S)
        x = z3.Const("st!x", SFAC.sort())
        i, j = z3.Ints("st!i st!j")

        def distinct(s):
            return z3.ForAll([i, j], z3.Implies(z3.And(0 <= i, i < j, j < th.Len(s)), th.At(s, i) != th.At(s, j)))

        # library lemma: sorting by a total order is a canonical form of the element set (for duplicate-free sequences)
        return [z3.ForAll([a, b], z3.Implies(z3.And(distinct(a), distinct(b)),
                                            (SORTED(a) == SORTED(b)) == z3.ForAll([x], th.Has(a, x) == th.Has(b, x))),
                          patterns=[z3.MultiPattern(SORTED(a), SORTED(b))])]

    def n_sorted(eng, args, kw, n, st):
        return V(TSeq(SFAC), SORTED(args[0].t))

    def n_tuple(eng, args, kw, n, st):
        return args[0]

    def n_hash(eng, args, kw, n, st):
        return V(TInt, HASHT(args[0].t))

    G = {"ScopedTerm": PyConst("ScopedTerm"), "sorted": n_sorted, "tuple": n_tuple, "hash": n_hash}
    RAW = {"__class__": "ScopedTerm", "factors": TSeq(SFAC), "scale": "Real"}
    env = {"sorted_key": lambda e, a, k, n, s: V(TSeq(SFAC), SORTED(a[0].t)), "hash_of": lambda e, a, k, n, s: V(TInt, HASHT(a[0].t))}
    cs.append(reg.add(Contract(
        "formulaic/materializers/types/scoped_term.py::ScopedTerm.__eq__", params={"self": RAW, "other": RAW}, returns="Bool", globals=G,
        axioms=[sorted_axioms], requires=["distinct(self.factors)", "distinct(other.factors)"],
        ensures=["result == forall(lambda x=ScopedFactor: (x in self.factors) == (x in other.factors))"],   # same set of scoped factors, any order, any scale
        modifies=[], props=["C03"])))
    cs.append(reg.add(Contract(
        "formulaic/materializers/types/scoped_term.py::ScopedTerm.__hash__", params={"self": RAW}, returns="Int", globals=G, spec_env=env,
        ensures=["result == hash_of(sorted_key(self.factors))"],   # a function of the canonical (order-insensitive) form: equal terms hash alike
        modifies=[], props=["C03"])))
    return reg, cs


BUILDERS = {"C11": [build_c11], "C14": [build_c14_flags, build_token_required_variables], "C17": [build_token_required_variables],
            "C03": [build_scoped_term_identity]}


def run_small(ctx, prop):
    from vf.pyvc.run import run_contracts

    for b in BUILDERS.get(prop, []):
        reg, cs = b()
        run_contracts(ctx, cs, reg)
