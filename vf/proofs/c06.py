"""C06 — missing-data policy logic under contract (formulaic/materializers/base.py::_check_for_nulls).

nulls_of(values): the set of row positions at which an evaluated factor is null (spec function;
find_nulls is assumed to compute it — its singledispatch variants sit on numpy/pandas/scipy and are
exercised by the bounded driver).  From the C06 statement:
  IGNORE : nothing is dropped, nothing is raised
  RAISE  : an error occurs if and only if the factor has a null
  DROP   : the caller's drop set ends up equal to  old drop set  U  nulls_of(values)
"""
from __future__ import annotations

import z3

from vf.pyvc.contracts import Contract, Registry
from vf.pyvc.engine import PyConst
from vf.pyvc.run import run_contracts
from vf.pyvc.types import TEnum, TInt, TObj, TSet, TStr, V

NA = TEnum("NAAction", ["DROP", "RAISE", "IGNORE"])
VALUES = TObj("FactorValues")
NULLS = z3.Function("nulls_of", VALUES.sort(), TSet(TInt).sort())


def nulls_of(eng, args, kw, n, st):
    return V(TSet(TInt), NULLS(args[0].t))


def build():
    reg = Registry()
    cs = []
    find_nulls = Contract("find_nulls", params={"values": "FactorValues"}, returns=TSet(TInt), trusted=True,
                          spec_env={"nulls_of": nulls_of}, ensures=["result == nulls_of(values)"],
                          notes="formulaic.utils.null_handling.find_nulls (singledispatch over numpy/pandas/scipy types) returns exactly the null row positions; "
                                "assumed not to raise for the value types the materializers produce")
    G = {"NAAction": PyConst("NAAction"), "NAAction.DROP": V(NA, NA.member("DROP")), "NAAction.RAISE": V(NA, NA.member("RAISE")),
         "NAAction.IGNORE": V(NA, NA.member("IGNORE"))}
    cs.append(reg.add(Contract(
        "formulaic/materializers/base.py::FormulaMaterializer._check_for_nulls",
        params={"self": {"__class__": "FormulaMaterializer"}, "name": "Str", "values": "FactorValues", "na_action": NA, "drop_rows": "Set[Int]"},
        returns=None, globals=G, calls={"find_nulls": find_nulls}, spec_env={"nulls_of": nulls_of},
        raises={"ValueError": "na_action is NAAction.RAISE and nulls_of(values) != set()"},
        ensures=[
            "implies(na_action is NAAction.IGNORE, drop_rows == old_drop_rows)",
            "implies(na_action is NAAction.RAISE, drop_rows == old_drop_rows)",
            "implies(na_action is NAAction.DROP, drop_rows == old_drop_rows | nulls_of(values))",
        ],
        modifies=[], props=["C06"])))
    return reg, cs


def _c_nulls(values):
    from formulaic.utils.null_handling import find_nulls

    return set(find_nulls(values))


class _NAProxy:
    pass


def _concrete_env():
    from formulaic.materializers.types import NAAction

    return {"nulls_of": _c_nulls, "NAAction": NAAction}


CONCRETE_ENV = None


def workloads():
    from vf.pyvc import workload

    def w():
        import warnings

        import formulaic

        fr = workload.frames()
        for f in ["a + b", "A + a", "y ~ a + b", "a:b + A"]:
            for na in ("drop", "ignore", "raise"):
                for d in fr.values():
                    with warnings.catch_warnings():
                        warnings.simplefilter("ignore")
                        try:
                            formulaic.model_matrix(f, d, na_action=na)
                        except Exception:
                            pass

    return [w]


def run_proofs(ctx):
    global CONCRETE_ENV
    CONCRETE_ENV = _concrete_env()
    reg, cs = build()
    ctx.assume("A-lib(find_nulls): returns exactly the set of null row positions of an evaluated factor and does not raise for materializer-produced values",
               "NAAction has exactly the members DROP, RAISE, IGNORE (finite enum sort)")
    run_contracts(ctx, cs, reg, workloads=workloads(), concrete_env=CONCRETE_ENV)
    from vf.proofs.plumbing import run_plumbing

    run_plumbing(ctx)
    from vf.proofs._conformance import find_nulls_drop_rows

    find_nulls_drop_rows(ctx, "C06")
    from vf.proofs import materialize

    materialize.run_proofs(ctx)
    from vf.proofs import c06_rows

    c06_rows.run_proofs(ctx)          # rows of list-valued factors are removed by position
