"""C06 — `drop_rows` for plain Python lists (formulaic/utils/null_handling.py): rows are removed BY POSITION.

From the statement: "the missing-data policy removes exactly the right rows, by position".  Factor values that are plain lists (numeric
context variables, literals) are shortened by the list implementation of `drop_rows`; contract, for every list and every collection of
indices:  every element of the result is the element at a position that is NOT among the indices; every such position is represented;
and two kept positions appear in the result in their original order.  (For a list of pairwise different elements this says that the result
is exactly the sub-list of the kept positions.)
"""
from __future__ import annotations

from vf.pyvc.contracts import Contract, Registry
from vf.pyvc.types import TInt, TObj, TSeq

ITEM = TObj("Item06")


def build():
    reg = Registry()
    cs = []
    c = Contract(
        "formulaic/utils/null_handling.py::<dispatch:drop_rows/list>", params={"values": TSeq(ITEM), "indices": TSeq(TInt)}, returns=TSeq(ITEM),
        no_monitor=True, raises={},
        ensures=[
            "len(result) <= len(values)",
            # every element of the result is the element AT a kept position (nothing is taken from a dropped position) ...
            "forall(lambda k: implies(0 <= k and k < len(result), exists(lambda p: 0 <= p and p < len(values) and p not in indices and result[k] == values[p])))",
            # ... every kept position is represented, and kept positions keep their relative order
            "forall(lambda p: implies(0 <= p and p < len(values) and p not in indices, exists(lambda k: 0 <= k and k < len(result) and result[k] == values[p])))",
            "forall(lambda p, q: implies(0 <= p and p < q and q < len(values) and p not in indices and q not in indices, "
            "exists(lambda k, l: 0 <= k and k < l and l < len(result) and result[k] == values[p] and result[l] == values[q])))",
        ], modifies=[], props=["C06"])
    cs.append(reg.add(c))
    return reg, cs


def run_proofs(ctx):
    from vf.pyvc.run import run_contracts

    reg, cs = build()
    ctx.assume("drop_rows[list]: `i not in indices` is membership in the given collection of positions")
    run_contracts(ctx, cs, reg)
