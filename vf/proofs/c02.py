"""C02 / C04 / C10 — `ScopedTerm.copy` (formulaic/materializers/types/scoped_term.py) under contract: the copy that is recorded
in ModelSpec.structure (without_values=True) denotes the same scoped term: same literal scale, same factors in the same order with
the same reduced flags.  (Replaying a spec multiplies the regenerated columns by the RECORDED scale; a copy that loses it breaks
'every column holds the product its name denotes' on reuse.)

EvaluatedFactor is modelled modulo EvaluatedFactor.__eq__ (compares `.factor` only), so `.replace(values=None)` is the identity on
the quotient (assumed contract)."""
from __future__ import annotations

import z3

from vf.pyvc import stdlib
from vf.pyvc.contracts import Contract, Registry
from vf.pyvc.engine import MObj, PyConst
from vf.pyvc.run import run_contracts
from vf.pyvc.types import TBool, TData, TObj, TReal, TSeq, V

EF = TObj("EvaluatedFactor")
SFAC = TData("ScopedFactor", {"factor": EF, "reduced": TBool})


def n_ScopedFactor(eng, args, kw, n, st):
    f = kw.get("factor", args[0] if args else None)
    r = kw.get("reduced", args[1] if len(args) > 1 else V(TBool, z3.BoolVal(False)))
    return V(SFAC, SFAC.mk(f.t, r.t))


def n_ScopedTerm(eng, args, kw, n, st):
    """ScopedTerm(factors, scale=1): self.factors = tuple(dict.fromkeys(factors)); self.scale = scale"""
    it = args[0] if args else kw["factors"]
    fs = stdlib.oset_new(eng, it, SFAC, n, st)
    sc = kw.get("scale", args[1] if len(args) > 1 else V(TReal, z3.RealVal(1)))
    return MObj("ScopedTerm", {"factors": V(TSeq(SFAC), fs.t), "scale": eng.coerce(sc, TReal, n)})


def ef_replace(eng, args, kw, n, st):
    return args[0]   # dataclasses.replace(self, values=None): equal to self under EvaluatedFactor.__eq__ (A-eq)


def build():
    reg = Registry()
    reg.methods[("EvaluatedFactor", "replace")] = ef_replace
    cs = []
    G = {"ScopedFactor": PyConst("ScopedFactor"), "ScopedFactor.__call__": n_ScopedFactor, "ScopedTerm": PyConst("ScopedTerm"),
         "ScopedTerm.__call__": n_ScopedTerm}
    for label, wv in (("with-values", "False"), ("without-values", "True")):
        c = Contract(
            "formulaic/materializers/types/scoped_term.py::ScopedTerm.copy",
            params={"self": {"__class__": "ScopedTerm", "factors": TSeq(SFAC), "scale": "Real"}, "without_values": "Bool"},
            requires=[f"without_values == {wv}", "distinct(self.factors)"], globals=G,
            axioms=[lambda: stdlib.seq_axioms(SFAC)],
            ensures=[
                "result.scale == self.scale",
                "len(result.factors) == len(self.factors)",
                "forall(lambda i: implies(0 <= i and i < len(self.factors), result.factors[i].factor == self.factors[i].factor "
                "and result.factors[i].reduced == self.factors[i].reduced))",
            ], modifies=[], props=["C02", "C04", "C10"])
        c.label = label
        cs.append(c)
    return reg, cs


CONCRETE_ENV = {}


def workloads():
    from vf.pyvc import workload

    def w():
        workload.run_materialization(items=["2.5:a", "a + 3:A", "A:B + 0.5:a:A", "a*A", "1"])

    return [w]


def run_proofs(ctx):
    reg, cs = build()
    ctx.assume("A-eq: EvaluatedFactor modelled modulo its __eq__ (compares .factor); dataclasses.replace(values=None) is the identity on that quotient",
               "A-lib: dict.fromkeys = first-occurrence dedup (ScopedTerm.__init__ is modelled natively: 2 lines)")
    run_contracts(ctx, cs, reg, workloads=workloads(), concrete_env=CONCRETE_ENV)
