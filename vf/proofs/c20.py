"""C20 — differentiate_term is the term-wise partial derivative (formulaic/utils/calculus.py).

Model (assumption A-eq): Factor is the quotient of the class by Factor.__eq__, i.e. a factor is
determined by its `expr` (Factor.__eq__/__hash__ are proved to compare/hash `expr` only, which
justifies the quotient); `eval_method` is not a function of the quotient and is left unspecified.
Term results are raw objects with a `factors` sequence.

Postcondition, from the statement ("zero if the variable does not occur in the term, the term with
that factor removed if it does (one if nothing remains), applied successively"):
   zero      <=> some wrt[i] is not among the factor expressions that are still present when it
                 is reached (absent from the term, or already consumed by an earlier wrt[j])
   otherwise the result keeps exactly the factors whose expr is not in wrt, in their original order
   (a duplicate-free subsequence of the original factors), or the literal 1 if none is left.
"""
from __future__ import annotations

import z3

from vf.pyvc import seqs as SQ
from vf.pyvc import stdlib
from vf.pyvc.contracts import Contract, Registry
from vf.pyvc.engine import OutOfSubset
from vf.pyvc.run import run_contracts
from vf.pyvc.types import MObj, TBool, TEnum, TInt, TObj, TRec, TSeq, TSet, TStr, V

FACTOR = TRec("Factor", {"expr": TStr}, ["expr"])
EVAL = TEnum("EvalMethod", ["LITERAL", "LOOKUP", "PYTHON"])
MKF = z3.Function("mkFactor", z3.StringSort(), FACTOR.sort())


def factor_axioms():
    f, g = z3.Consts("fa!f fa!g", FACTOR.sort())
    s = z3.String("fa!s")
    ex = FACTOR.field_fn("expr")
    return [
        z3.ForAll([s], ex(MKF(s)) == s, patterns=[MKF(s)]),
        z3.ForAll([f, g], z3.Implies(ex(f) == ex(g), f == g), patterns=[z3.MultiPattern(ex(f), ex(g))]),
    ]


def n_Factor(eng, args, kw, n, st):
    """Factor(expr, eval_method=...) modulo Factor.__eq__ (equality and hash are by expression only: the other fields do not take part)"""
    if set(kw) - {"eval_method", "kind", "metadata", "token"}:
        raise OutOfSubset(n, "Factor(...) with an unknown option")
    eng.uses_axioms(factor_axioms)
    return V(FACTOR, MKF(args[0].t))


def n_Term(eng, args, kw, n, st):
    """Term(factors): self.factors = tuple(dict.fromkeys(factors))"""
    it = args[0] if args else kw["factors"]
    fs = stdlib.oset_new(eng, it, FACTOR, n, st)
    return MObj("Term", {"factors": V(TSeq(FACTOR), fs.t)})


def n_OrderedSet(eng, args, kw, n, st):
    if not args:
        return stdlib.oset_new(eng, (), FACTOR, n, st)
    return stdlib.oset_new(eng, args[0], FACTOR, n, st)


LITERAL = z3.Function("is_literal_factor", FACTOR.sort(), z3.BoolSort())


def term_degree(eng, args, kw, n, st):
    """Term.degree: the number of non-literal factors (modelled by: >= 0, <= number of factors, 0 exactly when every factor is a literal)"""
    t = args[0]
    fs = t.attrs["factors"] if isinstance(t, MObj) else None
    if fs is None:
        raise OutOfSubset(n, "degree of something other than a Term object")
    th = SQ.theory(FACTOR.sort())
    d = eng.fresh(st, TInt, "degree")
    f = z3.Const("dg!f", FACTOR.sort())
    st.assume(z3.And(d.t >= 0, d.t <= th.Len(fs.t)))
    st.assume((d.t == 0) == z3.ForAll([f], z3.Implies(th.Has(fs.t, f), LITERAL(f)), patterns=[th.Has(fs.t, f)]))
    return d


term_degree.is_property = True


def n_eval_method(eng, args, kw, n, st):
    return eng.fresh(st, EVAL, "eval_method")


CALC = "formulaic/utils/calculus.py::"
from vf.pyvc.engine import PyConst

GLOBALS = {"Factor": n_Factor, "Term": n_Term, "OrderedSet": n_OrderedSet}

ZERO = "exists(lambda i: 0 <= i and i < len(wrt) and not present(i), trigger=lambda i: wrt[i])"
# present(i): the i-th differentiation variable is a factor of the term that no earlier variable consumed
PRESENT = (["i"], "exists(lambda f=Factor: f in F0 and f.expr == wrt[i] and wrt[i] not in wrt[:i])")
REST = "(f in F0 and f.expr not in wrt)"


def build():
    reg = Registry()
    cs = []
    reg.methods[("Term", "degree")] = term_degree
    # Factor.eval_method on the quotient: unspecified
    reg.add(Contract("Factor.eval_method", params={"self": "Factor"}, returns=EVAL, is_property=True, trusted=True,
                     notes="eval_method is not a function of the Factor quotient (A-eq): unspecified"), as_method=("Factor", "eval_method"))

    fs = reg.add(Contract(
        CALC + "_factor_symbols", params={"factor": "Factor", "use_sympy": "Bool"}, returns="Set[Str]",
        requires=["not use_sympy"],
        ensures=["forall(lambda s=Str: (s in result) == (s == factor.expr))"], props=["C20"]))
    cs.append(fs)

    df = reg.add(Contract(
        CALC + "_differentiate_factors", params={"factors": "Set[Factor]", "var": "Str", "use_sympy": "Bool"}, returns="Set[Factor]",
        requires=["not use_sympy"],
        raises={"RuntimeError": "len(factors) != 1"},
        ensures=["result == set()"], globals=GLOBALS, props=["C20"]))
    cs.append(df)

    dt = reg.add(Contract(
        CALC + "differentiate_term",
        params={"term": {"__class__": "Term", "factors": "Seq[Factor]"}, "wrt": "Seq[Str]", "use_sympy": "Bool"},
        lets={"F0": "term.factors"}, defs={"present": PRESENT},
        requires=["not use_sympy", "distinct(term.factors)"],
        globals=GLOBALS, calls={"_factor_symbols": fs, "_differentiate_factors": df},
        axioms=[factor_axioms, lambda: stdlib.seq_axioms(FACTOR), lambda: stdlib.card_axioms(FACTOR)],
        loops={0: {"inv": [
            "subseq(factors, F0)",
            "forall(lambda f=Factor: (f in factors) == (f in F0 and f.expr not in wrt[:_i]))",
            "forall(lambda i: implies(0 <= i and i < _i, present(i)), trigger=lambda i: wrt[i])",
        ]}},
        ensures=[
            f"implies({ZERO}, len(result.factors) == 1 and result.factors[0].expr == '0')",
            f"implies(not {ZERO} and exists(lambda f=Factor: {REST}), subseq(result.factors, F0) and distinct(result.factors) and forall(lambda f=Factor: (f in result.factors) == {REST}))",
            f"implies(not {ZERO} and not exists(lambda f=Factor: {REST}), len(result.factors) == 1 and result.factors[0].expr == '1')",
        ],
        props=["C20"]))
    cs.append(dt)

    # Factor.__eq__ / __hash__ on raw objects: justify the quotient used above
    RAWF = {"__class__": "Factor", "expr": "Str"}
    cs.append(reg.add(Contract(
        "formulaic/parser/types/factor.py::Factor.__eq__", params={"self": RAWF, "other": RAWF}, returns="Bool",
        ensures=["result == (self.expr == other.expr)"], globals={"Factor": PyConst("Factor")}, props=["C20", "C01", "C10"])))
    cs.append(reg.add(Contract(
        "formulaic/parser/types/factor.py::Factor.__hash__", params={"self": RAWF}, returns="Int",
        ensures=["result == hash(self.expr)"], props=["C20", "C01", "C10"])))
    return reg, cs


def _c_subseq(a, b):
    it = iter(b)
    return all(any(x == y for y in it) for x in a)


CONCRETE_ENV = {"subseq": _c_subseq, "dedup": lambda s: list(dict.fromkeys(s))}


def workloads():
    def w():
        import itertools

        from formulaic import Formula

        for f in ["a + b + a:b + a:b:c", "a:b:c:d", "1 + a", "x + x:y + y:z:x", "a + log(a)"]:
            fm = Formula(f)
            for k in (1, 2, 3):
                for vs in itertools.product("abcxyq", repeat=k):
                    fm.differentiate(*vs)

    return [w]


def run_proofs(ctx):
    reg, cs = build()
    ctx.assume("A-eq: Factor is modelled modulo Factor.__eq__ (a factor is determined by `expr`; Factor.__eq__/__hash__ proved to use `expr` only)",
               "A-lib: dict.fromkeys = first-occurrence dedup; collections.abc.Set.__sub__/__or__ as inherited by OrderedSet; set cardinality axioms (vf/pyvc/stdlib.py)",
               "use_sympy=False path only (sympy is not installed in /venv)")
    run_contracts(ctx, cs, reg, workloads=workloads(), concrete_env=CONCRETE_ENV)
    from vf.proofs.terms import run_terms

    run_terms(ctx, "C20")
    from vf.proofs.c20_spec import run_proofs as spec_proofs

    spec_proofs(ctx)
