"""C01 — `replace_tokens` (formulaic/parser/utils.py): the token-stream rewrite behind `0` -> `-1` and friends.

From the statement: "removal by '-1'/'+0'" is implemented by rewriting VALUE tokens `0` into `- 1` on the token stream before parsing;
a quoted NAME `0` must stay a variable.  Contract, for every token sequence, text, replacement sequence and kind filter: the output is
the input with EXACTLY the tokens whose text equals `token_to_replace` AND (no kind filter given OR whose kind is the filter) replaced by
the replacement tokens, every other token kept, order preserved - stated through the spec function
    out(0) = [],   out(n+1) = out(n) + (replacement if matches(tokens[n]) else [tokens[n]])
(the generator yields out(len(tokens))), plus the consequence that a stream without matching tokens is returned unchanged.
"""
from __future__ import annotations

import z3

from vf.pyvc.contracts import Contract, Registry
from vf.pyvc.engine import OutOfSubset, PyConst
from vf.pyvc.types import TBool, TEnum, TObj, TOpt, TRec, TSeq, TStr, V

KIND = TEnum("TokKind01", ["CONTEXT", "OPERATOR", "VALUE", "NAME", "PYTHON"])
TOK = TRec("Tok01", {"token": TStr, "kind": KIND}, ["token", "kind"])


def build():
    reg = Registry()
    cs = []

    def n_isinstance(eng, args, kw, n, st):
        v, cls = args
        if isinstance(cls, PyConst) and cls.name == "Token":
            return V(TBool, z3.BoolVal(isinstance(v, V) and v.ty == TOK))        # the sequence variant: `replacement` is a sequence of tokens
        raise OutOfSubset(n, "isinstance test other than (replacement, Token)")

    MATCH = "(tokens[{i}].token == token_to_replace and (kind is None or tokens[{i}].kind == the(kind)))"
    c = Contract(
        "formulaic/parser/utils.py::replace_tokens",
        params={"tokens": TSeq(TOK), "token_to_replace": "Str", "replacement": TSeq(TOK), "kind": TOpt(KIND)}, returns=TSeq(TOK), yields=TOK,
        globals={"isinstance": n_isinstance, "Token": PyConst("Token")}, no_monitor=True, raises={},
        truthy_of={"TokKind01": "always"},
        spec_env={"the": lambda e, a, k, n, s: V(a[0].ty.t, a[0].ty.sort().v(a[0].t))},
        defs={"out": (["n"], "ite(n <= 0, tokens[:0], out(n - 1) + ite(" + MATCH.format(i="n - 1") + ", replacement, tokens[n - 1:n]))", "Seq[Tok01]")},
        loops={0: {"inv": ["_yielded == out(_i)",
                           "implies(forall(lambda i: implies(0 <= i and i < _i, not " + MATCH.format(i="i") + ")), _yielded == tokens[:_i])"]}},
        ensures=[
            "result == out(len(tokens))",
            "implies(forall(lambda i: implies(0 <= i and i < len(tokens), not " + MATCH.format(i="i") + ")), result == tokens)",
        ], modifies=[], props=["C01", "C15"])
    c.label = "replacement-sequence"
    cs.append(reg.add(c))
    return reg, cs


def run_proofs(ctx):
    from vf.pyvc.run import run_contracts

    reg, cs = build()
    ctx.assume("replace_tokens: tokens are records (text, kind); variant with a SEQUENCE of replacement tokens (the single-token variant yields that token instead)")
    run_contracts(ctx, cs, reg)
