"""C20 — `ModelSpec.differentiate` (formulaic/model_spec.py): the derivative spec is the spec of the DERIVATIVE formula.

From the statement: "every non-zero derivative term materializes to the exact finite difference of the original term's column" - materializing
the derivative goes through the spec, and a spec that has been materialized before records the scoped-term STRUCTURE of its formula, which
`_build_model_matrix` re-uses instead of the formula's terms.  Contract: the returned spec carries the differentiated formula
(`Formula.differentiate` of the original with the same variables and sympy flag - term-wise rule proved in vf/proofs/c20.py) and NO recorded
structure, so it is materialized from its own terms; every other field is the original's (dataclasses.replace, assumed).
Before fix M6 the structure of the original formula was kept and materializing the derivative raised KeyError.
"""
from __future__ import annotations

import z3

from vf.pyvc.contracts import Contract, Registry
from vf.pyvc.engine import OutOfSubset, PyConst
from vf.pyvc.types import TBool, TObj, TOpt, TSeq, TStr, V

SPEC, FORMULA, STRUCT = TObj("Spec20"), TObj("Formula20"), TObj("Structure20")
OSTRUCT = TOpt(STRUCT)
FORMULA_OF = z3.Function("spec_formula", SPEC.sort(), FORMULA.sort())
STRUCT_OF = z3.Function("spec_structure", SPEC.sort(), OSTRUCT.sort())
OTHER_OF = z3.Function("spec_other_fields", SPEC.sort(), z3.DeclareSort("SpecRest20"))
DIFF = z3.Function("formula_differentiate", FORMULA.sort(), TSeq(TStr).sort(), z3.BoolSort(), FORMULA.sort())


def build():
    reg = Registry()
    cs = []

    def spec_formula(eng, args, kw, n, st):
        return V(FORMULA, FORMULA_OF(args[0].t))

    spec_formula.is_property = True
    reg.methods[("Spec20", "formula")] = spec_formula

    def formula_differentiate(eng, args, kw, n, st):
        """Formula.differentiate(*wrt, use_sympy=...): a function of the formula, the variables and the flag (vf/proofs/c20.py)"""
        if set(kw) - {"use_sympy"} or len(args) != 2 or not (isinstance(args[1], tuple) and args[1] and args[1][0] == "star"):
            raise OutOfSubset(n, "Formula.differentiate called with something other than (*wrt, use_sympy=...)")
        flag = kw.get("use_sympy")
        return V(FORMULA, DIFF(args[0].t, args[1][1].t, flag.t if flag is not None else z3.BoolVal(False)))

    reg.methods[("Formula20", "differentiate")] = formula_differentiate

    def spec_update(eng, args, kw, n, st):
        """ModelSpec.update(**kwargs) == dataclasses.replace: the named fields take the given values, all others are kept"""
        if len(args) != 1 or "**" in kw or set(kw) - {"formula", "structure"}:
            raise OutOfSubset(n, "ModelSpec.update with fields other than formula= / structure=")
        r = eng.fresh(st, SPEC, "updated")
        st.assume(FORMULA_OF(r.t) == (eng.coerce(kw["formula"], FORMULA, n).t if "formula" in kw else FORMULA_OF(args[0].t)))
        st.assume(STRUCT_OF(r.t) == (eng.coerce(kw["structure"], OSTRUCT, n).t if "structure" in kw else STRUCT_OF(args[0].t)))
        st.assume(OTHER_OF(r.t) == OTHER_OF(args[0].t))
        return r

    reg.methods[("Spec20", "update")] = spec_update
    env = {
        "formula_of": lambda e, a, k, n, s: V(FORMULA, FORMULA_OF(a[0].t)),
        "structure_of": lambda e, a, k, n, s: V(OSTRUCT, STRUCT_OF(a[0].t)),
        "derivative": lambda e, a, k, n, s: V(FORMULA, DIFF(a[0].t, a[1].t, a[2].t)),
        "same_other_fields": lambda e, a, k, n, s: V(TBool, OTHER_OF(a[0].t) == OTHER_OF(a[1].t)),
    }
    c = Contract(
        "formulaic/model_spec.py::ModelSpec.differentiate",
        params={"self": "Spec20", "wrt": TSeq(TStr), "use_sympy": "Bool"}, returns=SPEC, spec_env=env, no_monitor=True,
        ensures=[
            "formula_of(result) == derivative(formula_of(self), wrt, use_sympy)",
            "structure_of(result) is None",           # materialized from the derivative's own terms, never from the structure of the original
            "same_other_fields(result, self)",
        ], modifies=[], props=["C20"])
    cs.append(reg.add(c))
    return reg, cs


def run_proofs(ctx):
    from vf.pyvc.run import run_contracts

    reg, cs = build()
    ctx.assume("ModelSpec.differentiate: ModelSpec.update is dataclasses.replace (named fields replaced, all others kept); Formula.differentiate is a function of "
               "(formula, variables, flag); that a spec without recorded structure is materialized from its formula's terms is bounded (C20 driver, spec routes)")
    run_contracts(ctx, cs, reg)
