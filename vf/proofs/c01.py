"""C01 / C14 — parser functions under contract (formulaic/parser/**).

resolve(): sign runs collapse by parity and nothing else is lost.  Spec functions over strings
(uninterpreted, with homomorphism axioms — no induction is needed because every loop iteration
rewrites  symbol = A ++ R ++ B  into  A ++ s ++ B  with R a run of signs and s its parity sign):

  nonsign(s)   s with every '+'/'-' removed            nonsign(a++b) = nonsign(a)++nonsign(b)
  parity(s)    number of '-' in s, mod 2               parity(a++b) = (parity(a)+parity(b)) % 2
  allsigns(s)  s consists of '+'/'-' only
  signpair(s)  s contains two adjacent sign characters (what  re.search(r"[+\\-]{2,}")  finds)
"""
from __future__ import annotations

import z3

from vf.pyvc import seqs as SQ
from vf.pyvc.contracts import Contract, Registry
from vf.pyvc.engine import MObj, OutOfSubset, PyConst, lift
from vf.pyvc.run import run_contracts
from vf.pyvc.types import TBool, TDict, TInt, TObj, TOpt, TRec, TSeq, TStr, TTup, V

S = z3.StringSort()
NONSIGN = z3.Function("nonsign", S, S)
PARITY = z3.Function("parity", S, z3.IntSort())
ALLSIGNS = z3.Function("allsigns", S, z3.BoolSort())
SIGNPAIR = z3.Function("signpair", S, z3.BoolSort())
REPLACE_ALL = z3.Function("replace_all", S, S, S, S)

TOKEN = TRec("Token", {"token": TStr}, ["token"])
OPLIST = TObj("OpList")
TABLE = TDict(TStr, OPLIST)
PAIR = TTup(TOKEN, OPLIST)
MATCH = TRec("Match", {"start_": TInt, "end_": TInt, "string": TStr}, ["start_", "end_", "string"])


def string_axioms():
    a, b = z3.Strings("sa!a sa!b")
    plus, minus, empty = z3.StringVal("+"), z3.StringVal("-"), z3.StringVal("")
    return [
        z3.ForAll([a, b], NONSIGN(z3.Concat(a, b)) == z3.Concat(NONSIGN(a), NONSIGN(b)), patterns=[NONSIGN(z3.Concat(a, b))]),
        z3.ForAll([a], z3.Implies(ALLSIGNS(a), NONSIGN(a) == empty), patterns=[ALLSIGNS(a)]),
        ALLSIGNS(plus), ALLSIGNS(minus), NONSIGN(empty) == empty, PARITY(empty) == 0,
        z3.ForAll([a, b], PARITY(z3.Concat(a, b)) == (PARITY(a) + PARITY(b)) % 2, patterns=[PARITY(z3.Concat(a, b))]),
        PARITY(minus) == 1, PARITY(plus) == 0,
        z3.ForAll([a], z3.And(PARITY(a) >= 0, PARITY(a) <= 1), patterns=[PARITY(a)]),
        # library lemma (str.replace removes every '+'): on a run of signs what is left are the '-' characters
        z3.ForAll([a], z3.Implies(ALLSIGNS(a), z3.Length(REPLACE_ALL(a, plus, empty)) % 2 == PARITY(a)), patterns=[REPLACE_ALL(a, plus, empty)]),
    ]


def sp(fn, rty):
    return lambda eng, args, kw, n, st: V(rty, fn(*[a.t for a in args]))


SPEC_ENV = {"nonsign": sp(NONSIGN, TStr), "parity": sp(PARITY, TInt), "allsigns": sp(ALLSIGNS, TBool), "signpair": sp(SIGNPAIR, TBool)}


# ---- library contracts: re.search with the sign-run pattern, match objects, str.replace, super() ----------------
def n_re_search(eng, args, kw, n, st):
    """re.search(r"[+\\-]{2,}", s): None iff s has no two adjacent sign characters; otherwise a match whose span
    [start, end) lies inside s, is at least two characters long and consists of sign characters only."""
    pat, s = args
    p = z3.simplify(pat.t)
    if not (z3.is_string_value(p) and p.as_string() in ("[+\\-]{2,}", "[+\\\\-]{2,}")):
        raise OutOfSubset(n, f"re.search with a pattern other than the sign-run pattern: {p}")
    oty = TOpt(MATCH)
    m = eng.fresh(st, oty, "m")
    some = oty.sort().is_some(m.t)
    mv = oty.sort().v(m.t)
    start, end, string = MATCH.field_fn("start_")(mv), MATCH.field_fn("end_")(mv), MATCH.field_fn("string")(mv)
    ln = z3.Length(s.t)
    run = z3.SubString(s.t, start, end - start)
    st.assume(some == SIGNPAIR(s.t))
    st.assume(z3.Implies(some, z3.And(0 <= start, start + 2 <= end, end <= ln, string == s.t, ALLSIGNS(run),
                                      s.t == z3.Concat(z3.SubString(s.t, 0, start), z3.Concat(run, z3.SubString(s.t, end, ln - end))))))
    return m


def m_start(eng, args, kw, n, st):
    return V(TInt, MATCH.field_fn("start_")(args[0].t))


def m_end(eng, args, kw, n, st):
    return V(TInt, MATCH.field_fn("end_")(args[0].t))


def m_group(eng, args, kw, n, st):
    m = args[0].t
    f = MATCH.field_fn
    return V(TStr, z3.SubString(f("string")(m), f("start_")(m), f("end_")(m) - f("start_")(m)))


def n_super(eng, args, kw, n, st):
    me = st.env["self"]
    return MObj("OperatorResolver", me.attrs)


SELF = {"__class__": "DefaultOperatorResolver", "operator_table": "Dict[Str,OpList]"}
BASE = {"__class__": "OperatorResolver", "operator_table": "Dict[Str,OpList]"}
P = "formulaic/parser/"


def build():
    reg = Registry()
    cs = []
    reg.methods[("Match", "start")] = m_start
    reg.methods[("Match", "end")] = m_end
    reg.methods[("Match", "group")] = m_group

    exc_for_token = Contract("exc_for_token", params={"token": "Token", "message": "Str"}, trusted=True, raises_type="FormulaSyntaxError",
                             notes="formulaic.parser.utils.exc_for_token constructs a FormulaSyntaxError")

    _resolve = reg.add(Contract(
        P + "types/operator_resolver.py::OperatorResolver._resolve", params={"self": BASE, "token": "Token", "symbol": "Str"},
        returns=PAIR, calls={"exc_for_token": exc_for_token},
        raises={"FormulaSyntaxError": "symbol not in self.operator_table"},
        ensures=["result == (token, self.operator_table[symbol])"], modifies=[], props=["C01", "C14"]))
    cs.append(_resolve)

    base_resolve = reg.add(Contract(
        P + "types/operator_resolver.py::OperatorResolver.resolve", params={"self": BASE, "token": "Token"},
        returns=TSeq(PAIR), yields=PAIR,
        raises={"FormulaSyntaxError": "token.token not in self.operator_table"},
        ensures=["len(result) == 1", "result[0] == (token, self.operator_table[token.token])"], modifies=[], props=["C01", "C14"]))
    cs.append(base_resolve)

    FINAL = ("nonsign(s) == nonsign(token.token) and parity(s) == parity(token.token) and not signpair(s)")
    resolve = reg.add(Contract(
        P + "parser.py::DefaultOperatorResolver.resolve", params={"self": SELF, "token": "Token"},
        returns=TSeq(PAIR), yields=PAIR, spec_env=SPEC_ENV, axioms=[string_axioms],
        truthy_of={"Match": "always"},          # A-lib(re): "Match objects always have a boolean value of True"
        globals={"re": PyConst("re"), "re.search": n_re_search, "super": n_super},
        lets={"T": "self.operator_table", "t0": "token.token"},
        raises={"FormulaSyntaxError": None},
        loops={
            0: {"inv": ["nonsign(symbol) == nonsign(t0)", "parity(symbol) == parity(t0)"], "variant": "len(symbol)"},
            1: {"inv": ["len(_yielded) == _i", "forall(lambda k: implies(0 <= k and k < _i, _yielded[k] == (token, T[symbol[k]])))"]},
        },
        ensures=[
            # a token that is itself an operator symbol resolves to exactly that operator set
            "implies(t0 in T, len(result) == 1 and result[0] == (token, T[t0]))",
            # otherwise: every run of signs has been collapsed to one sign of the run's parity, no other character
            # was lost or reordered, and the collapsed symbol is resolved whole or character by character
            "implies(t0 not in T, exists(lambda s=Str: " + FINAL + " and "
            "implies(s in T, len(result) == 1 and result[0] == (token, T[s])) and "
            "implies(s not in T, len(result) == len(s) and forall(lambda k: implies(0 <= k and k < len(s), result[k] == (token, T[s[k]])))), "
            "trigger=lambda s: nonsign(s)))",
        ],
        modifies=[], props=["C01", "C14"]))
    cs.append(resolve)
    return reg, cs


def _c_nonsign(s):
    return s.replace("+", "").replace("-", "")


CONCRETE_ENV = {
    "nonsign": _c_nonsign, "parity": lambda s: s.count("-") % 2, "allsigns": lambda s: all(ch in "+-" for ch in s),
    "signpair": lambda s: any(a in "+-" and b in "+-" for a, b in zip(s, s[1:])),
}


def workloads():
    from vf.pyvc import workload

    def w():
        from formulaic.parser import DefaultFormulaParser

        for f in workload.FORMULAS + ["a +- b", "a -+- b", "a:--b", "a*++b", "a ~ --b", "a++b", "a ---b + c", "a+-+-+b", "-a", "+-a", "a:-b"]:
            for p in (DefaultFormulaParser(), DefaultFormulaParser(include_intercept=False)):
                try:
                    p.get_terms(f)
                except Exception:
                    pass

    return [w]


def run_proofs(ctx):
    reg, cs = build()
    ctx.assume("A-lib(re): re.search(r'[+\\-]{2,}', s) is None iff s has no two adjacent sign characters; otherwise its span is in range, at least 2 long and all signs",
               "A-lib(str.replace): on a run of signs, len(run.replace('+','')) is the number of '-' characters",
               "spec functions nonsign/parity are uninterpreted with homomorphism axioms (definitional); Token modelled by its .token text")
    run_contracts(ctx, cs, reg, workloads=workloads(), concrete_env=CONCRETE_ENV)
    from vf.proofs.c01_ops import run_ops

    run_ops(ctx)
    from vf.proofs.terms import run_terms

    run_terms(ctx, "C01")
    from vf.proofs import c01_tokens

    c01_tokens.run_proofs(ctx)      # the token-stream rewrite behind `0` -> `-1`
    from vf.proofs import c14_ast

    c14_ast.run_proofs(ctx)
