"""C12 — the Cox-de Boor recursion of `basis_spline` (formulaic/transforms/basis_spline.py) against the B-spline spec function.

From the statement: "the B-spline transform equals the B-spline design matrix on its recorded knot vector for every degree, knot or df
choice and intercept option ... has df columns".  What is verified is the TAIL of the function, extracted mechanically on every run
(`basis_spline.<from:cache>`: the statements from `cache = defaultdict(dict)` to the `return`); its parameters are the names the tail reads
that the dropped prefix binds: the recorded knot vector `knots` (== `_state["knots"]`), the (already adjusted) observations `x`, `degree`,
`extrapolation`, `include_intercept`.  Dropped and NOT verified here: argument validation, the clip / na / zero adjustment of x, knot
selection from quantiles and padding (bounded stand-in vf/bounded/c12.py).

Spec function (the textbook definition, K = knots, p = degree, last = len(K) - p - 1 = index of the first copy of the upper bound):
    N(i, 0) = 1  if K[i] <= x < K[i+1],  or  x == K[i+1] and i + 1 == last (the basis is right-continuous except at the upper bound, which
                 belongs to the interval that ends there),  else 0
    N(i, d) = w(i, d) * N(i, d-1) + (1 - w(i+1, d)) * N(i+1, d-1),      w(i, d) = (x - K[i]) / (K[i+d] - K[i])  if K[i+d] != K[i]  else 0
    mode 'extend': the first and the last polynomial piece are continued: the interval that starts at the lower bound (i == p) starts at
                 -infinity and the one that ends at the upper bound (i + 1 == last) ends at +infinity
Postcondition, for every real x, every knot vector and every degree >= 0:  the returned columns are exactly the indices 0 .. last-1 (without
0 unless include_intercept) and column i holds N(i, degree).

Model: numpy vectors are treated POINTWISE - `x` is one real observation and every elementwise numpy operation is the operation on that
real (`&` on comparisons is `and`, `.astype(float)` of a comparison is 1.0/0.0); x is finite and not null (`pandas.isnull(x)` is False:
the NaN-propagation branch is not modelled); floating point is real arithmetic; +-numpy.inf is a real constant above / below x;
`defaultdict(dict)` is a dict that holds an empty dict under the keys 0 and 1 (any other key: KeyError obligation); FactorValues(values, ...)
is its values dict (metadata dropped).
"""
from __future__ import annotations

import z3

from vf.pyvc import seqs as SQ
from vf.pyvc.contracts import Contract, Registry
from vf.pyvc.engine import MObj, OutOfSubset, PyConst, lift
from vf.pyvc.types import TBool, TDict, TEnum, TInt, TObj, TReal, TSeq, V

COLS = TDict(TInt, TReal)
CACHE = TDict(TInt, COLS)
INF = z3.Real("numpy.inf")
EXTRAP = TEnum("SplineExtrapolation", ["RAISE", "CLIP", "NA", "ZERO", "EXTEND"])


def build():
    reg = Registry()
    cs = []

    def n_defaultdict(eng, args, kw, n, st):
        if not (len(args) == 1 and isinstance(args[0], PyConst) and args[0].name == "dict"):
            raise OutOfSubset(n, "defaultdict of something other than dict")
        inner = eng.empty_of(COLS)
        c0 = eng.store(eng.empty_of(CACHE), V(TInt, z3.IntVal(0)), inner, n, st)
        return eng.store(c0, V(TInt, z3.IntVal(1)), inner, n, st)

    def n_isnull(eng, args, kw, n, st):
        return V(TBool, z3.BoolVal(False))            # x is a (finite) real: requires

    def n_any(eng, args, kw, n, st):
        return args[0]

    def n_factor_values(eng, args, kw, n, st):
        if set(kw) - {"kind", "spans_intercept", "drop_field", "format", "encoded"}:        # metadata of the wrapper: dropped by the model
            raise OutOfSubset(n, "FactorValues(...) with an unknown option")
        return args[0]

    def bool_astype(eng, args, kw, n, st):
        b, ty = args
        if not (isinstance(ty, PyConst) and ty.name == "float"):
            raise OutOfSubset(n, "astype of something other than float")
        return V(TReal, z3.If(b.t, z3.RealVal(1), z3.RealVal(0)))

    reg.methods[("Bool", "astype")] = bool_astype
    reg.methods[("Bool", "__and__")] = lambda eng, args, kw, n, st: V(TBool, z3.And(args[0].t, args[1].t))     # elementwise & of two comparisons
    G = {"numpy": PyConst("numpy"), "pandas": PyConst("pandas"), "defaultdict": n_defaultdict, "dict": PyConst("dict"), "float": PyConst("float"),
         "numpy.inf": V(TReal, INF), "pandas.isnull": n_isnull, "numpy.any": n_any, "FactorValues": n_factor_values,
         "SplineExtrapolation": PyConst("SplineExtrapolation")}
    for m_ in EXTRAP.members:
        G["SplineExtrapolation." + m_] = V(EXTRAP, EXTRAP.member(m_))
    K, P = "knots", "degree"
    LAST = "(len(knots) - degree - 1)"
    defs = {
        "slot": (["n"], "n % 2", "Int"),
        "w": (["i", "d"], "ite(knots[i + d] != knots[i], (x - knots[i]) / (knots[i + d] - knots[i]), 0.0)", "Real"),
        "lo": (["i"], "ite(extrapolation is SplineExtrapolation.EXTEND and i == degree, -INF, knots[i])", "Real"),
        "hi": (["i"], f"ite(extrapolation is SplineExtrapolation.EXTEND and i + 1 == {LAST}, INF, knots[i + 1])", "Real"),
        "N0": (["i"], f"ite(lo(i) <= x and (x < hi(i) or (extrapolation is not SplineExtrapolation.EXTEND and i + 1 == {LAST} and x == knots[i + 1])), 1.0, 0.0)", "Real"),
        "N": (["i", "d"], "ite(d <= 0, N0(i), w(i, d) * N(i, d - 1) + (1 - w(i + 1, d)) * N(i + 1, d - 1))", "Real"),
    }
    FULL = ("forall(lambda j: implies(0 <= j and j < len(knots) - 1 - {d}, j in cache[{s}] and cache[{s}][j] == N(j, {d})), trigger=lambda j: [cache[{s}][j], j in cache[{s}]])",
            "forall(lambda j: implies(j in cache[{s}], 0 <= j and j < len(knots) - 1 - {d}), trigger=lambda j: j in cache[{s}])")
    PART = ("forall(lambda j: implies(0 <= j and j < {k}, j in cache[{s}] and cache[{s}][j] == N(j, {d})), trigger=lambda j: [cache[{s}][j], j in cache[{s}]])",
            "forall(lambda j: implies(j in cache[{s}], 0 <= j and j < {k}), trigger=lambda j: j in cache[{s}])")
    BOTH = "0 in cache and 1 in cache"
    c = Contract(
        "formulaic/transforms/basis_spline.py::basis_spline.<from:cache>",
        params={"knots": TSeq(TReal), "x": TReal, "extrapolation": EXTRAP, "degree": TInt, "include_intercept": TBool},
        returns=COLS, globals=G, spec_env={"INF": V(TReal, INF)}, defs=defs, no_monitor=True,
        local_types={"cache": CACHE},
        requires=["degree >= 0", "len(knots) >= 2 * degree + 2", "-INF < x and x < INF"],
        loops={
            0: {"index": "_a", "inv": [BOTH] + [t.format(k="_a", s="0", d="0") for t in PART]},
            1: {"index": "_d", "inv": [BOTH] + [t.format(s="slot(_d)", d="_d") for t in FULL]},
            3: {"index": "_k", "inv": [BOTH, "d == _d + 1"] + [t.format(s="slot(d - 1)", d="(d - 1)") for t in FULL] + [t.format(k="_k", s="slot(d)", d="d") for t in PART]},
        },
        ensures=[
            # exactly the columns 0 .. last-1, the first one only with include_intercept ("has df columns": last == df + (0 if intercept else 1))
            f"forall(lambda i: implies(i in result, 0 <= i and i < {LAST} and (i > 0 or include_intercept)), trigger=lambda i: i in result)",
            f"forall(lambda i: implies(0 <= i and i < {LAST} and (i > 0 or include_intercept), i in result), trigger=lambda i: i in result)",
            # column i is the B-spline N_{i,degree} on the recorded knot vector
            f"forall(lambda i: implies(i in result, result[i] == N(i, degree)), trigger=lambda i: result[i])",
        ],
        modifies=[], props=["C12"])
    c.abstract_nonlinear = True
    cs.append(reg.add(c))
    return reg, cs


def run_proofs(ctx):
    from vf.pyvc.run import run_contracts

    reg, cs = build()
    ctx.assume("basis_spline tail: numpy vectors pointwise (one finite, non-null real observation), floating point as real arithmetic, +-numpy.inf a real "
               "bound of x, defaultdict(dict) restricted to the keys 0 and 1, FactorValues(values, ...) is its values; the prefix of the function "
               "(validation, extrapolation adjustment, knot selection) is dropped by the extraction and covered by the bounded stand-in only")
    run_contracts(ctx, cs, reg)
