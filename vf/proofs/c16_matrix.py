"""C16 — `LinearConstraintParser.get_matrix` (formulaic/utils/constraints.py): assembly of the constraint matrix and the constants.

From the statement: "the returned matrix A and vector b satisfy A.x - b = lhs(x) - rhs(x) for every vector x, with one row per constraint in
the order written".  The parsed constraints are sets of ScaledFactor (maps factor -> scale; the constant is the factor 1); their algebra
is proved in vf/proofs/c16.py.  What is proved here, for every tuple of constraints:
    one row per constraint, in order;   A[k][v] == coef(constraint_k, v)  for every variable v;   b[k] == -coef(constraint_k, 1)
so that  A[k].x - b[k] == sum_v coef(constraint_k, v) * x_v + coef(constraint_k, 1)  - the denotation of constraint k.
A factor that is not one of the variable names raises KeyError (col_vectors lookup).

Model: a numpy vector over the variables is a map variable-key -> real (`Vec`); numpy.zeros / numpy.eye / `scale * unit` / `+=` are the
pointwise operations on it (assumed library contracts); Factor is modelled modulo Factor.__eq__ (A-eq), so `factor.expr` names the key.
"""
from __future__ import annotations

import z3

from vf.pyvc import seqs as SQ
from vf.pyvc.contracts import Contract, Registry
from vf.pyvc.engine import MObj, OutOfSubset, PyConst, lift
from vf.pyvc.types import TBool, TInt, TObj, TReal, TSeq, TStr, TTup, Ty, V
from vf.proofs.c16 import ENV, FKEY, KS, ONE, SF, coef


class TVec(Ty):
    """numpy vector indexed by the variables: FactorKey -> Real"""
    name = "Vec"

    def sort(self):
        return z3.ArraySort(FKEY.sort(), z3.RealSort())


VEC = TVec()
EXPR = z3.Function("fkey_expr", FKEY.sort(), z3.StringSort())            # factor.expr
KEYOF = z3.Function("fkey_of_expr", z3.StringSort(), FKEY.sort())         # the factor with that expression (A-eq: unique)
PARSED = z3.Function("parsed_constraints", z3.StringSort(), TSeq(KS).sort())   # the constraints get_terms parses from the formula text
ISVAR = z3.Function("is_variable", FKEY.sort(), z3.BoolSort())            # its expr is one of self.variable_names


def key_axioms():
    f = z3.Const("ka!f", FKEY.sort())
    s_ = z3.String("ka!s")
    return [z3.ForAll([f], z3.Implies(f != ONE, KEYOF(EXPR(f)) == f), patterns=[EXPR(f)]),
            # the constant "factor" (the literal 1) is not a Factor object: no variable name denotes it
            z3.ForAll([s_], KEYOF(s_) != ONE, patterns=[KEYOF(s_)])]


def build():
    reg = Registry()
    cs = []

    def fkey_expr(eng, args, kw, n, st):
        eng.uses_axioms(key_axioms)
        return V(TStr, EXPR(args[0].t))

    fkey_expr.is_property = True
    reg.methods[("FactorKey", "expr")] = fkey_expr

    def fkey_eq_other(eng, x, y, n, st):
        yt = z3.simplify(y.t)
        if y.ty is TInt and z3.is_int_value(yt) and yt.as_long() == 1:
            return x.t == ONE
        raise OutOfSubset(n, "factor compared with something other than the literal 1")

    reg.methods[("FactorKey", "__eq_other__")] = fkey_eq_other

    def n_zeros(eng, args, kw, n, st):
        return V(VEC, z3.K(FKEY.sort(), z3.RealVal(0)))

    def n_eye(eng, args, kw, n, st):
        return ("eye",)

    def n_zip(eng, args, kw, n, st):
        if len(args) == 2 and args[1] == ("eye",):
            return ("names-x-eye", args[0])
        raise OutOfSubset(n, "zip of something other than (variable_names, numpy.eye(n))")

    def n_dict(eng, args, kw, n, st):
        if args and isinstance(args[0], tuple) and args[0][0] == "names-x-eye":
            return MObj("ColVectors", {"names": args[0][1]})
        raise OutOfSubset(n, "dict(...) of something other than zip(variable_names, eye)")

    def colvec_getitem(eng, args, kw, n, st):
        """col_vectors[name]: the unit vector of that variable; KeyError for a name that is not a variable"""
        cv, name = args
        names = cv.attrs["names"]
        eng.require(st, "safe.key", n, SQ.has(names.t, name.t), "KeyError")
        return V(VEC, z3.Store(z3.K(FKEY.sort(), z3.RealVal(0)), KEYOF(name.t), z3.RealVal(1)))

    reg.methods[("ColVectors", "__getitem__")] = colvec_getitem

    def vec_rmul(eng, args, kw, n, st):
        v, s = args        # scalar * vector
        x = z3.Const("vm!x", FKEY.sort())
        r = eng.fresh(st, VEC, "scaled")
        st.assume(z3.ForAll([x], z3.Select(r.t, x) == eng.coerce(s, TReal, n).t * z3.Select(v.t, x), patterns=[z3.Select(r.t, x)]))
        return r

    def vec_add(eng, args, kw, n, st):
        a, b = args
        x = z3.Const("va!x", FKEY.sort())
        r = eng.fresh(st, VEC, "sum")
        st.assume(z3.ForAll([x], z3.Select(r.t, x) == z3.Select(a.t, x) + z3.Select(b.t, x), patterns=[z3.Select(r.t, x)]))
        return r

    reg.methods[("Vec", "__getitem__")] = lambda eng, args, kw, n, st: V(TReal, z3.Select(args[0].t, args[1].t))
    reg.methods[("Vec", "__rmul__")] = vec_rmul
    reg.methods[("Vec", "__add__")] = vec_add

    def n_array(eng, args, kw, n, st):
        a = args[0]
        if isinstance(a, tuple) and a and a[0] == "emptylist":
            return V(TSeq(TReal), SQ.empty(TSeq(TReal).sort()))       # numpy.array([]) : the empty vector of constants
        return a

    def n_empty(eng, args, kw, n, st):
        return V(TSeq(VEC), SQ.empty(TSeq(VEC).sort()))               # numpy.empty((0, n)): a matrix without rows

    penv = {"parsed": lambda e, a, k, n, s: V(TSeq(KS), PARSED(a[0].t))}
    get_terms = Contract("LinearConstraintParser.get_terms", params={"self": "Py", "formula": "Str"}, returns=TSeq(KS), trusted=True,
                         raises={"FormulaSyntaxError": None, "RuntimeError": None}, spec_env=penv, ensures=["result == parsed(formula)"],
                         notes="tokenize + tokens_to_ast + the scaled-factor algebra (vf/proofs/c15.py, c14_ast.py, c16.py): the tuple of parsed constraints "
                               "(a single constraint is wrapped into a 1-tuple by get_matrix itself; modelled as already a sequence)")
    reg.add(get_terms, as_method=("LinearConstraintParser", "get_terms"))
    G = {"numpy": PyConst("numpy"), "numpy.zeros": n_zeros, "numpy.eye": n_eye, "numpy.array": n_array, "numpy.empty": n_empty, "zip": n_zip, "dict": n_dict,
         "Factor": PyConst("Factor")}
    env = dict(ENV)
    env.update({"key_of": lambda e, a, k, n, s: V(FKEY, KEYOF(a[0].t))})
    env.update(penv)
    ROWS = ("forall(lambda k, v=Str: implies(0 <= k and k < len({0}) and v in self.variable_names, "
            "{1}[k][key_of(v)] == coef({0}[k], key_of(v))), trigger=lambda k, v: {1}[k][key_of(v)])")
    CONST = "forall(lambda k: implies(0 <= k and k < len({0}), {1}[k] == -coef({0}[k], ONE)), trigger=lambda k: {1}[k])"
    c = Contract(
        "formulaic/utils/constraints.py::LinearConstraintParser.get_matrix",
        params={"self": {"__class__": "LinearConstraintParser", "variable_names": TSeq(TStr)}, "formula": "Str"},
        globals=G, spec_env=env, keyed={"ScaledFactor": KS}, axioms=[key_axioms],
        local_types={"matrix": TSeq(VEC), "constants": TSeq(TReal), "constraints": TSeq(KS), "constant": TReal, "vector": VEC},
        raises={"FormulaSyntaxError": None, "RuntimeError": None, "KeyError": None},
        loops={
            0: {"index": "_r", "inv": ["len(matrix) == _r and len(constants) == _r", ROWS.format("constraints[:_r]", "matrix"), CONST.format("constraints[:_r]", "constants")]},
            1: {"inv": [
                "forall(lambda f=FactorKey: implies(f != ONE and f in keys(constraint)[:_i], vector[f] == coef(constraint, f)))",
                "forall(lambda f=FactorKey: implies(f != ONE and f not in keys(constraint)[:_i], vector[f] == 0))",
                "vector[ONE] == 0",
                "implies(ONE in keys(constraint)[:_i], constant == coef(constraint, ONE))",
                "implies(ONE not in keys(constraint)[:_i], constant == 0)",
            ]},
        },
        ensures=[
            "implies(len(parsed(formula)) > 0, len(result[0]) == len(parsed(formula)) and len(result[1]) == len(parsed(formula)))",      # one row per constraint, in order
            "implies(len(parsed(formula)) > 0, " + ROWS.format("parsed(formula)", "result[0]") + ")",
            "implies(len(parsed(formula)) > 0, " + CONST.format("parsed(formula)", "result[1]") + ")",
        ], modifies=[], props=["C16"])
    cs.append(reg.add(c))
    return reg, cs


def run_proofs(ctx):
    from vf.pyvc.run import run_contracts

    reg, cs = build()
    ctx.assume("get_matrix: numpy vectors over the variables are maps variable -> real; numpy.zeros, numpy.eye (through dict(zip(names, eye))), scalar*vector and += "
               "are pointwise (A-lib numpy); variable names are pairwise distinct")
    run_contracts(ctx, cs, reg)
