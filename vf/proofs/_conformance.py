"""Conformance tests of ASSUMED contracts on repository functions (DESIGN.md §2.4: every assumed contract is
cross-checked on every run).  A failure here means the real function does not satisfy the contract the deductive
part assumes for it; since these functions belong to /repo, that is a violation of the property relying on them."""
from __future__ import annotations


def find_nulls_drop_rows(ctx, prop="C06"):
    """find_nulls(values) == {positions whose element is null};  drop_rows(values, idx) == values without exactly those
    positions, order kept.  Grid: container x dtype x null pattern (exhaustive for length <= 3 over {value, null})."""
    import itertools

    import numpy as np
    import pandas as pd
    import scipy.sparse as sp

    from formulaic.utils.null_handling import drop_rows, find_nulls

    def series_variants(mask):
        n = len(mask)
        base_f = [1.5 + i for i in range(n)]
        out = []
        out.append(("float64", pd.Series([np.nan if m else v for m, v in zip(mask, base_f)], dtype="float64")))
        out.append(("float32", pd.Series([np.nan if m else v for m, v in zip(mask, base_f)], dtype="float32")))
        out.append(("object", pd.Series([None if m else f"s{i}" for i, m in enumerate(mask)], dtype=object)))
        out.append(("str", pd.Series([None if m else f"s{i}" for i, m in enumerate(mask)], dtype="str")))
        out.append(("category", pd.Series(pd.Categorical([None if m else "ab"[i % 2] for i, m in enumerate(mask)], categories=["a", "b"]))))
        out.append(("Int64", pd.Series([pd.NA if m else i for i, m in enumerate(mask)], dtype="Int64")))
        out.append(("UInt8", pd.Series([pd.NA if m else i for i, m in enumerate(mask)], dtype="UInt8")))
        out.append(("boolean", pd.Series([pd.NA if m else bool(i % 2) for i, m in enumerate(mask)], dtype="boolean")))
        out.append(("Float64", pd.Series([pd.NA if m else v for m, v in zip(mask, base_f)], dtype="Float64")))
        out.append(("datetime64", pd.Series([pd.NaT if m else pd.Timestamp("2020-01-01") + pd.Timedelta(days=i) for i, m in enumerate(mask)])))
        if not any(mask):
            out.append(("int64", pd.Series(list(range(n)), dtype="int64")))
            out.append(("bool", pd.Series([bool(i % 2) for i in range(n)], dtype="bool")))
        return out

    with ctx.bounded("assumed-contract-conformance:find_nulls/drop_rows",
                     rule="every null mask of length 1..3 x 12 pandas dtypes (incl. nullable Int64/UInt8/boolean/Float64) x index kinds (default, "
                          "non-unique labels) + numpy 1-d/2-d float arrays, lists, dicts of columns and sparse columns; oracle: element-wise pandas.isna; "
                          "distinct = (container, dtype, mask, index kind)", exhaustive=True, bound="length <= 3") as b:
        for n in (1, 2, 3):
            for mask in itertools.product((False, True), repeat=n):
                want = {i for i, m in enumerate(mask) if m}
                for dt, ser in series_variants(mask):
                    for ik in ("default", "dup"):
                        s2 = ser.copy()
                        if ik == "dup":
                            s2.index = ["p"] * n
                        b.case(("series", dt, mask, ik), nontrivial=bool(want), sample={"container": "Series", "dtype": dt, "mask": list(mask), "index": ik})
                        try:
                            got = set(int(i) for i in find_nulls(s2))
                        except Exception as e:  # noqa: BLE001  (an exception of the function under test is an outcome, never a crash of the checker)
                            got = {f"raises {type(e).__name__}"}
                        code = (f"import pandas as pd, numpy as np\nfrom formulaic.utils.null_handling import find_nulls\n"
                                f"s = pd.Series({[None if m else (i + 1) for i, m in enumerate(mask)]!r}, dtype={'object' if dt in ('object','str','category','datetime64') else dt!r})\n"
                                f"assert set(map(int, find_nulls(s))) == {want!r}, find_nulls(s)\n")
                        if got != want:
                            b.fail(f"{prop}.assumed.find_nulls", {"container": "Series", "dtype": dt, "mask": list(mask), "cls": f"series:{dt}", "code": code},
                                   f"find_nulls -> {sorted(got)}, null positions are {sorted(want)}")
                        exp = [v for i, v in enumerate(s2.tolist()) if i not in want]
                        try:
                            kept = drop_rows(s2, sorted(want))
                            kept.tolist()
                        except Exception as e:  # noqa: BLE001
                            b.fail(f"{prop}.assumed.drop_rows", {"container": "Series", "dtype": dt, "mask": list(mask), "index": ik, "cls": f"series:{dt}:{ik}:raises-{type(e).__name__}",
                                                                 "code": code}, f"drop_rows raised {type(e).__name__}: {e}")
                            continue
                        if len(kept) != len(exp) or any(not (a == e or (pd.isna(a) and pd.isna(e))) for a, e in zip(kept.tolist(), exp)):
                            b.fail(f"{prop}.assumed.drop_rows", {"container": "Series", "dtype": dt, "mask": list(mask), "index": ik, "cls": f"series:{dt}:{ik}",
                                                                 "code": code.replace("find_nulls", "find_nulls")},
                                   f"drop_rows kept {kept.tolist()} expected {exp}")
                # numpy / list / dict / sparse
                arr = np.array([np.nan if m else 1.5 + i for i, m in enumerate(mask)])
                for name, val in (("ndarray1d", arr), ("ndarray2d", np.column_stack([arr, np.ones(n)])), ("list", list(arr)),
                                  ("dict", {"a": arr, "b": np.ones(n)}), ("sparse", sp.csc_matrix(arr.reshape(-1, 1)))):
                    b.case((name, mask), nontrivial=bool(want), sample={"container": name, "mask": list(mask)})
                    try:
                        got = set(int(i) for i in find_nulls(val))
                    except Exception as e:  # noqa: BLE001
                        got = {f"raises {type(e).__name__}"}
                    if name == "list":
                        # drop_rows on a plain list: exactly the elements at the other positions, in order (distinct values: 1.5 + i)
                        vals = [10.5 + i for i in range(n)]
                        for drop in ([i for i in range(n) if (sub >> i) & 1] for sub in range(2 ** n)):
                            expd = [v for i, v in enumerate(vals) if i not in drop]
                            try:
                                keptl = list(drop_rows(list(vals), drop))
                            except Exception as e:  # noqa: BLE001
                                keptl = f"raises {type(e).__name__}"
                            if keptl != expd:
                                b.fail(f"{prop}.assumed.drop_rows", {"container": "list", "values": vals, "drop": drop, "cls": "list",
                                                                     "code": "from formulaic.utils.null_handling import drop_rows\n"
                                                                             f"assert list(drop_rows({vals!r}, {drop!r})) == {expd!r}, drop_rows({vals!r}, {drop!r})\n"},
                                       f"drop_rows({vals}, {drop}) -> {keptl}, expected {expd}")
                    if got != want:
                        b.fail(f"{prop}.assumed.find_nulls", {"container": name, "mask": list(mask), "cls": name,
                                                             "code": "import numpy as np\nfrom formulaic.utils.null_handling import find_nulls\n"
                                                                     f"a = np.array({[None if m else 1.5 for m in mask]!r}, dtype=float)\nassert set(map(int, find_nulls(a))) == {want!r}\n"},
                               f"find_nulls({name}) -> {sorted(got)}, null positions are {sorted(want)}")
