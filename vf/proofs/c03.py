"""C03 — deductive part: small functions under contract (vf/proofs/small.py); everything else is decided by the bounded stand-in."""
from vf.proofs.small import run_small


def run_proofs(ctx):
    run_small(ctx, "C03")
