"""C03 — deductive part: ScopedTerm identity (vf/proofs/small.py) and the greedy recombination `_simplify_scoped_terms`
(vf/proofs/c03_scoped.py: the set of covered atoms is preserved for every input).  The linear-algebra link between atoms and
rank/span, `_get_scoped_terms*` and the end-to-end rank/span statement are decided by the bounded stand-in."""
from vf.proofs.small import run_small


def run_proofs(ctx):
    run_small(ctx, "C03")
    from vf.proofs import c03_scoped

    c03_scoped.run_proofs(ctx)
