"""C19 (also C17, C18) — LayeredMapping behaves as the top-first merge of its layers; writes are
confined to the private `_mutations` layer.  (formulaic/utils/layered_mapping.py)

Abstract view: L = [self._mutations, *self._layers] (top first).  covers(L, i, k) <=> some layer
among the first i contains k (recursive spec function: covers(L,0,k)=False,
covers(L,i+1,k) = covers(L,i,k) or k in L[i]).
"""
from __future__ import annotations

import z3

from vf.pyvc import seqs as SQ
from vf.pyvc.contracts import Contract, Registry
from vf.pyvc.run import run_contracts
from vf.pyvc.types import TBool, TDict, TObj, TSeq, V

KEY, VAL = TObj("Key"), TObj("Val")
LAYER = TDict(KEY, VAL)
LAYERS = TSeq(LAYER)

COVERS = z3.Function("covers", LAYERS.sort(), z3.IntSort(), KEY.sort(), z3.BoolSort())


def covers(eng, args, kw, n, st):
    L, i, k = args
    return V(TBool, COVERS(L.t, i.t, k.t))


def covers_axioms():
    L = z3.Const("ax!L", LAYERS.sort())
    i = z3.Int("ax!i")
    k = z3.Const("ax!k", KEY.sort())
    keys = LAYER.sort().keys
    return [
        z3.ForAll([L, k], z3.Not(COVERS(L, 0, k)), patterns=[COVERS(L, 0, k)]),
        z3.ForAll([L, i, k], z3.Implies(z3.And(0 < i, i <= SQ.length(L)),
                                       COVERS(L, i, k) == z3.Or(COVERS(L, i - 1, k), SQ.has(keys(SQ.at(L, i - 1)), k))),
                  patterns=[COVERS(L, i, k)]),
    ]


LM = "formulaic/utils/layered_mapping.py::LayeredMapping."
SELF = {"__class__": "LayeredMapping", "_mutations": "Dict[Key,Val]", "_layers": "Seq[Dict[Key,Val]]"}
LETS = {"L": "[self._mutations, *self._layers]"}
ENV = {"covers": covers}
AX = [covers_axioms]


def _c_covers(L, i, k):
    return any(k in L[j] for j in range(i))


CONCRETE_ENV = {"covers": _c_covers}


def build():
    reg = Registry()
    cs = []
    cs.append(reg.add(Contract(
        LM + "__getitem__", params={"self": SELF, "key": "Key"}, returns=VAL, lets=LETS, spec_env=ENV, axioms=AX, strict_lookup=True,
        raises={"KeyError": "forall(lambda i: implies(0 <= i and i < len(L), key not in L[i]))"},
        loops={0: {"inv": ["forall(lambda j: implies(0 <= j and j < _i, key not in L[j]))"]}},
        ensures=[
            # value of the FIRST layer (top first) that contains the key
            "exists(lambda i: 0 <= i and i < len(L) and key in L[i] and result == L[i][key] and forall(lambda j: implies(0 <= j and j < i, key not in L[j])))",
        ],
        modifies=[], props=["C19", "C17", "C18"])))
    cs.append(reg.add(Contract(
        LM + "__setitem__", params={"self": SELF, "key": "Key", "value": "Val"}, returns=None,
        ensures=[
            "key in self._mutations and self._mutations[key] == value",
            "forall(lambda k=Key: implies(k != key, (k in self._mutations) == (k in old_self._mutations) and implies(k in self._mutations, self._mutations[k] == old_self._mutations[k])))",
            "self._layers == old_self._layers",
        ],
        modifies=["_mutations"], props=["C19", "C18"])))
    cs.append(reg.add(Contract(
        LM + "__delitem__", params={"self": SELF, "key": "Key"}, returns=None,
        raises={"KeyError": "key not in self._mutations"},
        ensures=[
            "key not in self._mutations",
            "forall(lambda k=Key: implies(k != key, (k in self._mutations) == (k in old_self._mutations) and implies(k in self._mutations, self._mutations[k] == old_self._mutations[k])))",
            "self._layers == old_self._layers",
        ],
        modifies=["_mutations"], props=["C19", "C18"])))
    cs.append(reg.add(Contract(
        LM + "__iter__", params={"self": SELF}, returns="Seq[Key]", yields="Key", lets=LETS, spec_env=ENV, axioms=AX,
        local_types={"keys": "Set[Key]"},
        loops={
            0: {"inv": [
                "distinct(_yielded)",
                "forall(lambda k=Key: (k in _yielded) == (k in keys))",
                "forall(lambda k=Key: (k in keys) == covers(L, _i, k))",
            ]},
            1: {"index": "_m", "inv": [
                "distinct(_yielded)",
                "forall(lambda k=Key: (k in _yielded) == (k in keys))",
                "forall(lambda k=Key: (k in keys) == (covers(L, _i, k) or k in list(layer)[:_m]))",
            ]},
        },
        ensures=[
            "distinct(result)",                                                     # each key exactly once
            "forall(lambda k=Key: (k in result) == covers(L, len(L), k))",          # exactly the keys of the merged view
        ],
        modifies=[], props=["C19"])))
    # ---- which supplied layers take part: every layer that is not None - an EMPTY layer too (its owner may fill it later)
    OL = "Seq[Opt[Dict[Key,Val]]]"
    cs.append(reg.add(Contract(
        LM + "__filter_layers", params={"layers": OL}, returns=LAYERS, no_monitor=True, raises={},
        ensures=[
            "len(result) <= len(layers)",
            # every layer of the result is one of the supplied non-None layers ...
            "forall(lambda k: implies(0 <= k and k < len(result), exists(lambda p: 0 <= p and p < len(layers) and layers[p] is not None and result[k] == the(layers[p]))))",
            # ... every supplied layer that is not None is kept, whatever it holds, and supplied order is preserved
            "forall(lambda p: implies(0 <= p and p < len(layers) and layers[p] is not None, exists(lambda k: 0 <= k and k < len(result) and result[k] == the(layers[p]))))",
            "forall(lambda p, q: implies(0 <= p and p < q and q < len(layers) and layers[p] is not None and layers[q] is not None, "
            "exists(lambda k, l: 0 <= k and k < l and l < len(result) and result[k] == the(layers[p]) and result[l] == the(layers[q]))))",
        ], spec_env={"the": lambda e, a, k, n, s: V(a[0].ty.t, a[0].ty.sort().v(a[0].t))}, modifies=[], props=["C19"])))
    return reg, cs


def workloads():
    def w():
        import random

        from formulaic.utils.layered_mapping import LayeredMapping

        rng = random.Random(5)
        keys = list("abcdef")
        for _ in range(300):
            layers = [{rng.choice(keys): rng.randrange(9) for _ in range(rng.randrange(4))} for _ in range(rng.randrange(4))]
            lm = LayeredMapping(*layers)
            for _ in range(rng.randrange(6)):
                op = rng.randrange(5)
                k = rng.choice(keys)
                try:
                    if op == 0:
                        lm[k] = rng.randrange(9)
                    elif op == 1:
                        del lm[k]
                    elif op == 2:
                        lm[k]
                    elif op == 3:
                        list(lm)
                    else:
                        len(lm)
                except KeyError:
                    pass

    return [w]


def run_proofs(ctx):
    reg, cs = build()
    ctx.assume("A-layer: every supplied layer behaves as a finite mapping whose membership, lookup and iteration agree (Dict model); a lookup of a key "
               "that is NOT in a supplied layer is unspecified (it may raise, or - defaultdict, Counter - invent or even insert a value), so every `layer[key]` "
               "must be guarded by `key in layer` (safe.key is an obligation even inside try/except)",
               "A-dict: dicts iterate in insertion order; keys pairwise distinct",
               "A-alias: the private _mutations dict is not aliased by a supplied layer")
    run_contracts(ctx, cs, reg, workloads=workloads(), concrete_env=CONCRETE_ENV)
    from vf.proofs.terms import run_terms

    run_terms(ctx, "C19")
