"""C18 — deductive part: frame conditions ("never mutates the formula / a previously obtained spec") of the functions under
contract on the materialization path.  `_evaluate_factor` writes `self.factor_cache` only (vf/proofs/c09_eval.py): the Factor object
of the caller's Formula and the spec it is evaluated against are not stored to.  `stateful_eval` (vf/proofs/c18_eval.py): everything that may write to an evaluation environment is applied to a
private layer created inside the call, never to the caller's (long-lived) mapping.  Everything else (bit-identical repetition,
hash-seed independence, interleaved histories) is decided by the bounded driver."""


def run_proofs(ctx):
    from vf.proofs import c09_eval

    c09_eval.run_proofs(ctx)
    from vf.proofs import c18_eval

    c18_eval.run_proofs(ctx)
    from vf.proofs import c04_stateful

    c04_stateful.run_proofs(ctx)
