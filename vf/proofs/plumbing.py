"""Entry-point plumbing under contract (C05, C06, C07): every public way of building a model matrix
hands the SAME data, context, spec (with the caller's overrides) and — crucially — the SAME
caller drop set to one materializer call.

Ghost provenance functions on results (uninterpreted, quantifier free, so a broken forwarding is
*refuted* with a model rather than left undecided):
    drop_of(m)  the drop-set object the matrix was built with
    spec_of(m)  the spec it was built from          mat_of(m) the materializer that built it
    data_of(t)  / ctx_of(t)  the data / context a materializer was constructed on
The materializer's own get_model_matrix and constructors are trusted (assumed) contracts that
define these functions; the plumbing functions are verified against them.
"""
from __future__ import annotations

import z3

from vf.pyvc.contracts import Contract, Registry
from vf.pyvc.engine import Closure, OutOfSubset, PyConst, lift
from vf.pyvc.types import TBool, TObj, TOpt, TSeq, V

SPEC, MAT, MATRIX, DATA, CTX, KW, DROP, MATNAME, PARAMS = (TObj(n) for n in ("Spec", "Mat", "Matrix", "Data", "Ctx", "Kw", "DropRef", "MatName", "Params"))


def _f(name, *tys):
    return z3.Function(name, *[t.sort() for t in tys])


DROP_OF, SPEC_OF, MAT_OF = _f("drop_of", MATRIX, DROP), _f("spec_of", MATRIX, SPEC), _f("mat_of", MATRIX, MAT)
DATA_OF, CTX_OF = _f("data_of", MAT, DATA), _f("ctx_of", MAT, CTX)
JOINT = z3.Function("joint", MATRIX.sort(), z3.BoolSort())       # every part of the result was built by ONE materializer pass (one factor cache, one drop set)
LEAVES = z3.Function("leaves", SPEC.sort(), TSeq(SPEC).sort())   # Structured._flatten()
UPDATE = _f("update", SPEC, KW, SPEC)
FROM_SPEC = _f("from_spec", SPEC, CTX, KW, SPEC)
NONE_DROP = z3.Const("None:drop_rows", DROP.sort())
NONE_CTX = z3.Const("None:context", CTX.sort())
EMPTY_KW = z3.Const("{}:kwargs", KW.sort())


def fn(f, rty):
    return lambda eng, args, kw, n, st: V(rty, f(*[a.t for a in args]))


SPEC_ENV = {"drop_of": fn(DROP_OF, DROP), "spec_of": fn(SPEC_OF, SPEC), "mat_of": fn(MAT_OF, MAT), "data_of": fn(DATA_OF, DATA),
            "ctx_of": fn(CTX_OF, CTX), "update": fn(UPDATE, SPEC), "from_spec": fn(FROM_SPEC, SPEC),
            "joint": fn(JOINT, TBool), "leaves": fn(LEAVES, TSeq(SPEC)),
            "NO_CTX": V(CTX, NONE_CTX), "NO_KW": V(KW, EMPTY_KW), "NO_DROP": V(DROP, NONE_DROP)}

TRUTHY = {"Kw": lambda v: v.t != EMPTY_KW}
MS = "formulaic/model_spec.py::"
FM = "formulaic/formula.py::"


def build():
    reg = Registry()
    cs = []
    D = dict(drop_rows=V(DROP, NONE_DROP), context=V(CTX, NONE_CTX))

    # ---- trusted: the materializer and helpers ----------------------------------------------------------------
    mat_gmm = Contract("FormulaMaterializer.get_model_matrix", params={"self": "Mat", "spec": "Spec", "drop_rows": "DropRef"}, returns=MATRIX,
                       spec_env=SPEC_ENV, trusted=True,
                       ensures=["drop_of(result) == drop_rows", "spec_of(result) == spec", "mat_of(result) == self", "joint(result)"],
                       notes="defines the provenance ghosts: the materializer builds the matrix for `spec` (all of its parts in one pass: `joint`) with the drop-set object it is handed")
    mat_gmm.defaults = {"drop_rows": V(DROP, NONE_DROP)}
    reg.add(mat_gmm, as_method=("Mat", "get_model_matrix"))

    get_mat = Contract("ModelSpec.get_materializer", params={"self": "Spec", "data": "Data", "context": "Ctx"}, returns=MAT, spec_env=SPEC_ENV,
                       trusted=True, ensures=["data_of(result) == data", "ctx_of(result) == context"],
                       notes="constructs the registered materializer for `data` with this context (C05: for_data / for_materializer dispatch is bounded)")
    get_mat.defaults = {"context": V(CTX, NONE_CTX)}
    reg.add(get_mat, as_method=("Spec", "get_materializer"))

    upd = Contract("ModelSpec.update", params={"self": "Spec", "kw": "Kw"}, returns=SPEC, spec_env=SPEC_ENV, trusted=True,
                   ensures=["result == update(self, kw)"], notes="dataclasses.replace")
    upd.kwarg_param = "kw"
    upd.defaults = {"kw": V(KW, EMPTY_KW)}
    reg.add(upd, as_method=("Spec", "update"))

    # ---- ModelSpec.get_model_matrix -----------------------------------------------------------------------------
    EXPECT = "ite(attr_overrides, update(self, attr_overrides), self)"
    ms_gmm = Contract(
        MS + "ModelSpec.get_model_matrix",
        params={"self": "Spec", "data": "Data", "context": "Ctx", "drop_rows": "DropRef", "attr_overrides": "Kw"}, returns=MATRIX,
        spec_env=SPEC_ENV, truthy_of=TRUTHY, cls="ModelSpec",
        ensures=[
            "drop_of(result) == drop_rows",                       # C06: the caller's drop set object reaches the materializer
            f"spec_of(result) == {EXPECT}",                        # the caller's overrides are applied, nothing else
            "data_of(mat_of(result)) == data",
            "ctx_of(mat_of(result)) == context",
        ], props=["C05", "C06"])
    ms_gmm.defaults = {"drop_rows": V(DROP, NONE_DROP), "context": V(CTX, NONE_CTX), "attr_overrides": V(KW, EMPTY_KW)}
    ms_gmm.kwarg_param = "attr_overrides"
    reg.add(ms_gmm, as_method=("Spec", "get_model_matrix"))
    cs.append(ms_gmm)

    # ---- Formula.get_model_matrix (Simple / Structured) ---------------------------------------------------------
    from_spec = Contract("ModelSpec.from_spec", params={"spec": "Spec", "context": "Ctx", "kw": "Kw"}, returns=SPEC, spec_env=SPEC_ENV, trusted=True,
                         ensures=["result == from_spec(spec, context, kw)"],
                         notes="ModelSpec.from_spec(obj, context=..., **attrs): spec(s) for obj with attrs applied (formula objects are modelled in the Spec sort)")
    from_spec.defaults = {"context": V(CTX, NONE_CTX), "kw": V(KW, EMPTY_KW)}
    from_spec.kwarg_param = "kw"
    G = {"ModelSpec": PyConst("ModelSpec"), "ModelSpec.from_spec": from_spec}
    for cls in ("SimpleFormula", "StructuredFormula"):
        c = Contract(
            FM + cls + ".get_model_matrix",
            params={"self": "Spec", "data": "Data", "context": "Ctx", "drop_rows": "DropRef", "spec_overrides": "Kw"}, returns=MATRIX,
            spec_env=SPEC_ENV, truthy_of=TRUTHY, globals=G, cls=cls,
            ensures=[
                "drop_of(result) == drop_rows",
                "spec_of(result) == from_spec(self, NO_CTX, spec_overrides)",
                "data_of(mat_of(result)) == data",
                "ctx_of(mat_of(result)) == context",
            ], props=["C05", "C06"])
        cs.append(reg.add(c))
    # ---- ModelSpecs.get_model_matrix (structured specs) -----------------------------------------------------------
    MATNAME_O, PARAMS_O = TOpt(MATNAME), TOpt(PARAMS)
    for attr, ty in (("materializer", MATNAME_O), ("materializer_params", PARAMS_O)):
        fld = z3.Function(f"field_{attr}", SPEC.sort(), ty.sort())
        reg.add(Contract(f"ModelSpec.{attr}", params={"self": "Spec"}, returns=ty, is_property=True, trusted=True, notes="dataclass field (a function of the frozen spec)",
                         spec_env={f"field_{attr}": fn(fld, ty)}, ensures=[f"result == field_{attr}(self)"]), as_method=("Spec", attr))
    reg.add(Contract("Structured._flatten", params={"self": "Spec"}, returns=TSeq(SPEC), trusted=True, spec_env=SPEC_ENV, ensures=["result == leaves(self)"],
                     notes="leaves of a structured spec (C19 bounded)"),
            as_method=("Spec", "_flatten"))

    def n_map(eng, args, kw, n, st):
        """Structured._map(func, as_type=...): applies func to every leaf; the result inherits the provenance that func
        gives a generic leaf (assumed contract; Structured._map shape/leaf laws are decided under C19)."""
        self_, func = args[0], args[1]
        leaf = eng.fresh(st, SPEC, "leaf")
        r0 = eng.call(func, [leaf], {}, n, st)
        R = eng.fresh(st, MATRIX, "mapped")
        st.assume(DROP_OF(R.t) == DROP_OF(r0.t))
        st.assume(DATA_OF(MAT_OF(R.t)) == DATA_OF(MAT_OF(r0.t)))
        st.assume(CTX_OF(MAT_OF(R.t)) == CTX_OF(MAT_OF(r0.t)))
        st.assume(z3.Implies(SPEC_OF(r0.t) == leaf.t, SPEC_OF(R.t) == self_.t))
        return R

    reg.methods[("Spec", "_map")] = n_map

    mk_mat = Contract("FormulaMaterializer.__init__", params={"self": "MatClass", "data": "Data", "context": "Ctx", "kw": "Params"}, returns=MAT,
                      spec_env=SPEC_ENV, trusted=True, ensures=["data_of(result) == data", "ctx_of(result) == context"],
                      notes="materializer constructor: binds data and context")
    mk_mat.kwarg_param = "kw"
    mk_mat.defaults = {"context": V(CTX, NONE_CTX), "kw": V(PARAMS, z3.Const("{}:params", PARAMS.sort()))}
    reg.add(mk_mat, as_method=("MatClass", "__call__"))
    MATCLASS = TObj("MatClass")
    for_data = Contract("FormulaMaterializer.for_data", params={"data": "Data"}, returns=MATCLASS, trusted=True, notes="registry dispatch (bounded under C05)")
    for_mat = Contract("FormulaMaterializer.for_materializer", params={"materializer": MATNAME_O}, returns=MATCLASS, trusted=True, notes="registry dispatch (bounded under C05)")
    G2 = dict(G)
    G2.update({"FormulaMaterializer": PyConst("FormulaMaterializer"), "FormulaMaterializer.for_data": for_data,
               "FormulaMaterializer.for_materializer": for_mat, "ModelMatrices": PyConst("ModelMatrices")})
    mss = Contract(
        MS + "ModelSpecs.get_model_matrix",
        params={"self": "Spec", "data": "Data", "context": "Ctx", "drop_rows": "DropRef", "attr_overrides": "Kw"}, returns=MATRIX,
        spec_env=SPEC_ENV, truthy_of=TRUTHY, globals=G2, cls="ModelSpecs",
        local_types={"materializer": MATNAME_O, "materializer_params": PARAMS_O},
        lets={"L": "leaves(self)"},
        # all leaves carry the same materializer and the same materializer parameters (the state of `mm.model_spec` after a build)
        defs={"uniform": (["z"], "forall(lambda i: implies(0 <= i and i < len(L), L[i].materializer == L[0].materializer and "
                              "L[i].materializer_params == L[0].materializer_params))")},
        loops={0: {"inv": ["implies(uniform(0), (materializer is None or materializer == L[0].materializer) and "
                           "(materializer_params is None or materializer_params == L[0].materializer_params))"]}},
        ensures=[
            "drop_of(result) == drop_rows",
            "spec_of(result) == ite(attr_overrides, from_spec(self, NO_CTX, attr_overrides), self)",
            "data_of(mat_of(result)) == data",
            "ctx_of(mat_of(result)) == context",
            # C07 (all parts contain the same rows; the attached specs regenerate the result): specs that share materializer and
            # parameters are generated JOINTLY - one materializer, one pooled null scan - never part by part
            "implies(not attr_overrides and uniform(0), joint(result))",
        ], props=["C05", "C06", "C07"])
    cs.append(reg.add(mss))

    # ---- sugar.model_matrix -----------------------------------------------------------------------------------------
    MATF = _f("matf", SPEC, DATA, CTX, MAT)
    LAYERED = _f("layered_context", MAT, CTX)
    EMPTY_SPEC = z3.Const("[]:spec", SPEC.sort())
    get_mat2 = Contract("ModelSpec.get_materializer", params={"self": "Spec", "data": "Data", "context": "Ctx"}, returns=MAT, trusted=True,
                        spec_env=dict(SPEC_ENV, matf=fn(MATF, MAT)),
                        ensures=["result == matf(self, data, context)", "data_of(result) == data", "ctx_of(result) == context"],
                        notes="as above, with the result named by a ghost function")
    get_mat2.defaults = {"context": V(CTX, NONE_CTX)}
    reg2 = Registry()
    reg2.methods.update(reg.methods)
    reg2.methods[("Spec", "get_materializer")] = get_mat2
    reg2.add(Contract("FormulaMaterializer.layered_context", params={"self": "Mat"}, returns=CTX, is_property=True, trusted=True,
                      spec_env={"layered_context": fn(LAYERED, CTX)}, ensures=["result == layered_context(self)"],
                      notes="attribute: data > context > transforms layers (C17/C19)"), as_method=("Mat", "layered_context"))

    def n_from_spec(eng, args, kw, n, st):
        a0 = args[0]
        if isinstance(a0, tuple) and a0 and a0[0] == "emptylist":
            a0 = V(SPEC, EMPTY_SPEC)
        return eng.apply_contract(from_spec, [a0] + list(args[1:]), kw, n, st)

    G3 = {"ModelSpec": PyConst("ModelSpec"), "ModelSpec.from_spec": n_from_spec}
    sugar = Contract(
        "formulaic/sugar.py::model_matrix",
        params={"spec": "Spec", "data": "Data", "context": "Ctx", "drop_rows": "DropRef", "spec_overrides": "Kw"}, returns=MATRIX,
        spec_env=dict(SPEC_ENV, matf=fn(MATF, MAT), layered_context=fn(LAYERED, CTX), EMPTY_SPEC=V(SPEC, EMPTY_SPEC)), truthy_of=TRUTHY, globals=G3,
        ensures=[
            "drop_of(result) == drop_rows",
            "data_of(mat_of(result)) == data",
            "ctx_of(mat_of(result)) == context",
            # the spec is parsed with the materializer's layered context and carries exactly the caller's overrides
            "spec_of(result) == from_spec(spec, layered_context(matf(from_spec(EMPTY_SPEC, NO_CTX, spec_overrides), data, context)), spec_overrides)",
        ], notes="mapping-valued `context` variant (an int context is resolved by capture_context, not modelled)", props=["C05", "C06"])
    sugar.registry = reg2
    cs.append(sugar)
    return reg, cs


def run_plumbing(ctx):
    from vf.pyvc.run import run_contracts

    reg, cs = build()
    ctx.assume("A-plumbing: FormulaMaterializer.get_model_matrix / ModelSpec.get_materializer / update / from_spec are assumed contracts that define the "
               "provenance ghosts drop_of/spec_of/mat_of/data_of/ctx_of; formula and spec objects share one abstract sort")
    run_contracts(ctx, cs, reg)
