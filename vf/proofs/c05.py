"""C05 — deductive part: entry-point plumbing (vf/proofs/plumbing.py). All entry points reduce to ONE materializer call on the
same data / context / spec(+overrides) / drop set; agreement of the numbers across outputs and materializers is bounded."""
from vf.proofs.plumbing import run_plumbing


def run_proofs(ctx):
    run_plumbing(ctx)
