"""C14 — deductive part: exception safety of the functions of the parse path that are under contract.
`tokenize` (only FormulaSyntaxError can escape; every partial operation is a discharged safety obligation),
`Token.update`, `OperatorResolver._resolve/resolve` and `DefaultOperatorResolver.resolve` (raises only the formula
syntax error; the sign-run loop terminates: variant len(symbol)), and `tokens_to_ast` (vf/proofs/c14_ast.py: typed-stack invariant,
all stack/queue/table accesses safe, the three while loops terminate).  The operator implementations' own argument checks are
decided by the bounded token-alphabet enumeration."""
from vf.pyvc.run import run_contracts


def run_proofs(ctx):
    from vf.proofs import c01, c15

    reg, cs = c15.build()
    ctx.assume("A-lib(re): Pattern.match is an uninterpreted predicate; exc_for_token returns a FormulaSyntaxError (never raises: vf/proofs/c14_errors.py)",
               "A-exc: MemoryError / RecursionError / KeyboardInterrupt are out of scope")
    run_contracts(ctx, cs, reg, workloads=c15.workloads(), concrete_env=c15.CONCRETE_ENV)
    reg2, cs2 = c01.build()
    run_contracts(ctx, cs2, reg2, workloads=c01.workloads(), concrete_env=c01.CONCRETE_ENV)
    from vf.proofs.small import run_small

    run_small(ctx, "C14")
    from vf.proofs import c14_ast

    c14_ast.run_proofs(ctx)
    from vf.proofs import c14_errors

    c14_errors.run_proofs(ctx)      # exc_for_token / exc_for_missing_operator (assumed in c14_ast and in the tokenizer proof) never raise
