"""C08 — kind inference: which evaluated factor values are treated as CATEGORICAL (the `_is_categorical` methods).

From the statement: "data columns holding text (Python-object or dedicated string dtype) or a categorical dtype are encoded as categorical
indicator columns ... while numeric columns pass through unchanged".  `_evaluate_factor` (vf/proofs/c09_eval.py, proved) turns an UNKNOWN
kind into CATEGORICAL exactly when the materializer's `_is_categorical(values)` says so; what is proved here, for every value:

  base      FormulaMaterializer._is_categorical   == values carry formulaic metadata AND their declared kind is CATEGORICAL
  pandas    PandasMaterializer._is_categorical    for a Series / Categorical:  == the dtype is object OR a categorical dtype OR a string dtype
                                                  (`pandas.api.types.is_string_dtype`: 'str', 'string[python]', 'string[pyarrow]', ArrowDtype(string));
                                                  for anything else: the base rule
  narwhals  NarwhalsMaterializer._is_categorical  for a narwhals series with a non-numeric dtype: True; otherwise the base rule

The dtype predicates themselves (what pandas / narwhals answer for each concrete dtype) are library behaviour: uninterpreted here, and the
subject of the bounded stand-in (every dtype pandas 3 / pyarrow 25 produce).  The only relation assumed between them: an instance of
pandas.StringDtype is a string dtype (not conversely: ArrowDtype(string) is a string dtype that is no StringDtype).
"""
from __future__ import annotations

import z3

from vf.pyvc.contracts import Contract, Registry
from vf.pyvc.engine import MObj, OutOfSubset, PyConst
from vf.pyvc.types import TBool, TEnum, TObj, V

VAL, DTYPE, META = TObj("Values08"), TObj("DType08"), TObj("Metadata08")
KIND = TEnum("FactorKind08", ["UNKNOWN", "CONSTANT", "NUMERICAL", "CATEGORICAL"])
v_, d_ = VAL.sort(), DTYPE.sort()
HAS_META = z3.Function("has_formulaic_metadata", v_, z3.BoolSort())
META_OF = z3.Function("formulaic_metadata", v_, META.sort())
KIND_OF = z3.Function("metadata_kind", META.sort(), KIND.sort())
IS_PD = z3.Function("is_pandas_series_or_categorical", v_, z3.BoolSort())
IS_NW = z3.Function("is_narwhals_series", v_, z3.BoolSort())
DTYPE_OF = z3.Function("dtype_of_values", v_, d_)
IS_OBJECT = z3.Function("dtype_is_object", d_, z3.BoolSort())
IS_CATDTYPE = z3.Function("dtype_is_categorical", d_, z3.BoolSort())
IS_STRING = z3.Function("is_string_dtype", d_, z3.BoolSort())
IS_STRINGDTYPE_CLASS = z3.Function("isinstance_StringDtype", d_, z3.BoolSort())
IS_NUMERIC = z3.Function("dtype_is_numeric", d_, z3.BoolSort())


def dtype_axioms():
    d = z3.Const("d08!d", d_)
    return [z3.ForAll([d], z3.Implies(IS_STRINGDTYPE_CLASS(d), IS_STRING(d)), patterns=[IS_STRINGDTYPE_CLASS(d)])]


def build():
    reg = Registry()
    cs = []

    def n_hasattr(eng, args, kw, n, st):
        v, name = args
        nm = z3.simplify(name.t)
        if isinstance(v, V) and v.ty == VAL and z3.is_string_value(nm) and nm.as_string() == "__formulaic_metadata__":
            return V(TBool, HAS_META(v.t))
        raise OutOfSubset(n, "hasattr of something other than (values, '__formulaic_metadata__')")

    def val_metadata(eng, args, kw, n, st):
        eng.require(st, "safe.attr", n, HAS_META(args[0].t), "AttributeError", "values without formulaic metadata")
        return V(META, META_OF(args[0].t))

    val_metadata.is_property = True
    reg.methods[("Values08", "__formulaic_metadata__")] = val_metadata

    def meta_kind(eng, args, kw, n, st):
        return V(KIND, KIND_OF(args[0].t))

    meta_kind.is_property = True
    reg.methods[("Metadata08", "kind")] = meta_kind

    def val_dtype(eng, args, kw, n, st):
        return V(DTYPE, DTYPE_OF(args[0].t))

    val_dtype.is_property = True
    reg.methods[("Values08", "dtype")] = val_dtype
    reg.methods[("DType08", "is_numeric")] = lambda eng, args, kw, n, st: V(TBool, IS_NUMERIC(args[0].t))
    # `values.dtype == object`
    reg.methods[("DType08", "__eq_other__")] = lambda eng, x, y, n, st: _dtype_eq(x, y, n)

    def _dtype_eq(x, y, n):
        if isinstance(y, PyConst) and y.name == "object":
            return IS_OBJECT(x.t)
        raise OutOfSubset(n, "dtype compared with something other than `object`")

    def n_isinstance(eng, args, kw, n, st):
        v, cls = args
        names = [c.name for c in cls] if isinstance(cls, tuple) and all(isinstance(c, PyConst) for c in cls) else [cls.name] if isinstance(cls, PyConst) else None
        if isinstance(v, V) and v.ty == VAL and names and set(names) == {"pandas.Series", "pandas.Categorical"}:
            return V(TBool, IS_PD(v.t))
        if isinstance(v, V) and v.ty == DTYPE and names == ["pandas.CategoricalDtype"]:
            return V(TBool, IS_CATDTYPE(v.t))
        if isinstance(v, V) and v.ty == DTYPE and names == ["pandas.StringDtype"]:
            eng.uses_axioms(dtype_axioms)
            return V(TBool, IS_STRINGDTYPE_CLASS(v.t))
        raise OutOfSubset(n, f"isinstance test outside the model: {names}")

    def n_is_string_dtype(eng, args, kw, n, st):
        if kw or len(args) != 1 or not (isinstance(args[0], V) and args[0].ty == DTYPE):
            raise OutOfSubset(n, "is_string_dtype of something other than a dtype")
        return V(TBool, IS_STRING(args[0].t))

    def n_is_nw_series(eng, args, kw, n, st):
        return V(TBool, IS_NW(args[0].t))

    kinds = {"Factor": PyConst("Factor"), "Factor.Kind": PyConst("Factor.Kind")}
    for m_ in KIND.members:
        kinds["Factor.Kind." + m_] = V(KIND, KIND.member(m_))
    env = {
        "base_rule": lambda e, a, k, n, s: V(TBool, z3.And(HAS_META(a[0].t), KIND_OF(META_OF(a[0].t)) == KIND.member("CATEGORICAL"))),
        "is_pandas": lambda e, a, k, n, s: V(TBool, IS_PD(a[0].t)),
        "is_narwhals": lambda e, a, k, n, s: V(TBool, IS_NW(a[0].t)),
        "text_dtype": lambda e, a, k, n, s: V(TBool, z3.Or(IS_OBJECT(DTYPE_OF(a[0].t)), IS_STRING(DTYPE_OF(a[0].t)))),
        "categorical_dtype": lambda e, a, k, n, s: V(TBool, IS_CATDTYPE(DTYPE_OF(a[0].t))),
        "numeric_dtype": lambda e, a, k, n, s: V(TBool, IS_NUMERIC(DTYPE_OF(a[0].t))),
    }
    base = reg.add(Contract(
        "formulaic/materializers/base.py::FormulaMaterializer._is_categorical", params={"self": {"__class__": "FormulaMaterializer"}, "values": VAL},
        returns="Bool", globals=dict(kinds, hasattr=n_hasattr), spec_env=env, no_monitor=True, raises={},
        ensures=["result == base_rule(values)"], modifies=[], props=["C08", "C09"]))
    cs.append(base)

    def n_super(eng, args, kw, n, st):
        return MObj("FormulaMaterializer", {})

    reg.add(base, as_method=("FormulaMaterializer", "_is_categorical"))
    G = dict(kinds)
    G.update({"isinstance": n_isinstance, "super": n_super, "object": PyConst("object"), "pandas": PyConst("pandas"), "pandas.Series": PyConst("pandas.Series"),
              "pandas.Categorical": PyConst("pandas.Categorical"), "pandas.CategoricalDtype": PyConst("pandas.CategoricalDtype"),
              "pandas.StringDtype": PyConst("pandas.StringDtype"), "pandas.api": PyConst("pandas.api"), "pandas.api.types": PyConst("pandas.api.types"),
              "pandas.api.types.is_string_dtype": n_is_string_dtype, "nw": PyConst("nw"), "nw.dependencies": PyConst("nw.dependencies"),
              "nw.dependencies.is_narwhals_series": n_is_nw_series})
    cs.append(reg.add(Contract(
        "formulaic/materializers/pandas.py::PandasMaterializer._is_categorical", params={"self": {"__class__": "PandasMaterializer"}, "values": VAL},
        returns="Bool", globals=G, spec_env=env, no_monitor=True, raises={}, axioms=[dtype_axioms],
        ensures=[
            # text (object or dedicated string dtype) and categorical dtype are categorical; every other pandas column is not
            "implies(is_pandas(values), result == (text_dtype(values) or categorical_dtype(values)))",
            "implies(not is_pandas(values), result == base_rule(values))",
        ], modifies=[], props=["C08", "C09"])))
    cs.append(reg.add(Contract(
        "formulaic/materializers/narwhals.py::NarwhalsMaterializer._is_categorical", params={"self": {"__class__": "NarwhalsMaterializer"}, "values": VAL},
        returns="Bool", globals=G, spec_env=env, no_monitor=True, raises={},
        ensures=[
            "implies(is_narwhals(values) and not numeric_dtype(values), result)",
            "implies(not (is_narwhals(values) and not numeric_dtype(values)), result == base_rule(values))",
        ], modifies=[], props=["C08", "C09"])))
    return reg, cs


def run_proofs(ctx):
    from vf.pyvc.run import run_contracts

    reg, cs = build()
    ctx.assume("kind inference: values, dtypes and metadata are opaque; pandas.api.types.is_string_dtype, isinstance(dtype, CategoricalDtype), dtype == object, "
               "narwhals dtype.is_numeric() are uninterpreted predicates of the dtype (what they answer for each concrete dtype is bounded: C08 driver); "
               "an instance of pandas.StringDtype is a string dtype")
    run_contracts(ctx, cs, reg)
