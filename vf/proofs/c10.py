"""C10 — contracts on the derived indexes of ModelSpec (formulaic/model_spec.py).

Abstract state: S = self.structure : Seq[ETS], ETS = (term, scoped_terms, columns: Seq[Str]).
off(S, k) = sum of len(S[j].columns) for j < k (prefix sums of the column counts).
The top-level postconditions are taken from the C10 statement: per-term index ranges are
contiguous, disjoint, in term order and cover all columns; column lookup selects its position.
"""
from __future__ import annotations

import z3

from vf.pyvc.contracts import Contract, Registry
from vf.pyvc.run import run_contracts
from vf.pyvc import seqs as SQ
from vf.pyvc.types import TBool, TInt, TObj, TRec, TSeq, TStr, V

TERM = TObj("Term")
ETS = TRec("ETS", {"term": TERM, "scoped_terms": TObj("ScopedTerms"), "columns": TSeq(TStr)}, ["term", "scoped_terms", "columns"])
SEQ_ETS = TSeq(ETS)

OFF = z3.Function("off", SEQ_ETS.sort(), z3.IntSort(), z3.IntSort())


def off(eng, args, kw, n, st):
    S, k = args
    return V(TInt, OFF(S.t, k.t))


def off_axioms():
    S = z3.Const("ax!S", SEQ_ETS.sort())
    k = z3.Int("ax!k")
    cols = ETS.field_fn("columns")
    return [
        z3.ForAll([S], OFF(S, 0) == 0),
        z3.ForAll([S, k], z3.Implies(z3.And(0 < k, k <= SQ.length(S)), OFF(S, k) == OFF(S, k - 1) + SQ.length(cols(SQ.at(S, k - 1)))), patterns=[OFF(S, k)]),
    ]


SEQ_INT = TSeq(TInt)
ISR = z3.Function("is_range", SEQ_INT.sort(), z3.IntSort(), z3.IntSort(), z3.BoolSort())


def is_range(eng, args, kw, n, st):
    """is_range(xs, lo, hi): xs == list(range(lo, hi)) (lo <= hi)"""
    s, lo, hi = args
    return V(TBool, ISR(s.t, lo.t, hi.t))


def is_range_axioms():
    s = z3.Const("ax!r", SEQ_INT.sort())
    lo, hi, m = z3.Ints("ax!lo ax!hi ax!m")
    return [z3.ForAll([s, lo, hi], ISR(s, lo, hi) == z3.And(SQ.length(s) == hi - lo, z3.ForAll([m], z3.Implies(z3.And(0 <= m, m < hi - lo), SQ.at(s, m) == lo + m), patterns=[SQ.at(s, m)])), patterns=[ISR(s, lo, hi)])]


MS = "formulaic/model_spec.py::ModelSpec."
SELF = {"__class__": "ModelSpec", "structure": "Seq[ETS]"}
DISTINCT_TERMS = "forall(lambda i, j: implies(0 <= i and i < j and j < len(S), S[i].term != S[j].term))"


def build():
    reg = Registry()
    cs = []

    structure = reg.add(Contract(
        MS + "__structure", params={"self": SELF}, returns=SEQ_ETS, is_property=True,
        ensures=["result == self.structure"], raises={"RuntimeError": "False"}, props=["C10"]),
        as_method=("ModelSpec", "_ModelSpec__structure"))
    cs.append(structure)

    term_indices = reg.add(Contract(
        MS + "term_indices", params={"self": SELF}, returns="Dict[Term,Seq[Int]]", is_property=True,
        lets={"S": "self.structure"}, spec_env={"off": off, "is_range": is_range}, axioms=[off_axioms, is_range_axioms],
        local_types={"slices": "Dict[Term,Seq[Int]]"},
        requires=[DISTINCT_TERMS],
        loops={0: {"inv": [
            "start == off(S, _i)",
            "len(keys(slices)) == _i",
            "forall(lambda j: implies(0 <= j and j < _i, keys(slices)[j] == S[j].term))",
            "forall(lambda j: implies(0 <= j and j < _i, is_range(slices[S[j].term], off(S, j), off(S, j + 1))))",
        ]}},
        ensures=[
            # one entry per term, in term order
            "len(keys(result)) == len(S)",
            "forall(lambda j: implies(0 <= j and j < len(S), keys(result)[j] == S[j].term))",
            # the j-th term owns exactly the contiguous range [off(j), off(j+1))
            "forall(lambda j: implies(0 <= j and j < len(S), is_range(result[S[j].term], off(S, j), off(S, j) + len(S[j].columns))))",
        ],
        props=["C10"]))
    cs.append(term_indices)

    # column_names == concatenation of the per-term column lists, in term order
    column_names = reg.add(Contract(
        MS + "column_names", params={"self": SELF}, returns="Seq[Str]", is_property=True,
        lets={"S": "self.structure"}, spec_env={"off": off}, axioms=[off_axioms],
        flat={0: lambda eng, S, k: OFF(S.t, k)},
        ensures=[
            "len(result) == off(S, len(S))",
            "forall(lambda k, m: implies(0 <= k and k < len(S) and 0 <= m and m < len(S[k].columns), result[off(S, k) + m] == S[k].columns[m]))",
        ], props=["C10"]))
    cs.append(column_names)

    SELF2 = {"__class__": "ModelSpec", "structure": "Seq[ETS]", "column_names": "Seq[Str]"}
    # column_indices[name] == position (names pairwise distinct: established by the materializer, see C02 bounded)
    column_indices = reg.add(Contract(
        MS + "column_indices", params={"self": SELF2}, returns="Dict[Str,Int]", is_property=True,
        lets={"N": "self.column_names"},
        requires=["distinct(N)"],
        ensures=[
            "len(keys(result)) == len(N)",
            "forall(lambda i: implies(0 <= i and i < len(N), keys(result)[i] == N[i] and result[N[i]] == i))",
        ], props=["C10"]))
    cs.append(column_indices)

    SELF3 = {"__class__": "ModelSpec", "structure": "Seq[ETS]", "column_names": "Seq[Str]", "column_indices": "Dict[Str,Int]"}
    get_column_indices = reg.add(Contract(
        MS + "get_column_indices", params={"self": SELF3, "columns": "Seq[Str]"}, returns="Seq[Int]",
        raises={"KeyError": "exists(lambda i: 0 <= i and i < len(columns) and columns[i] not in self.column_indices)"},
        ensures=[
            "len(result) == len(columns)",
            "forall(lambda i: implies(0 <= i and i < len(columns), result[i] == self.column_indices[columns[i]]))",
        ], props=["C10"]))
    cs.append(get_column_indices)

    SELF4 = {"__class__": "ModelSpec", "structure": "Seq[ETS]", "term_indices": "Dict[Term,Seq[Int]]"}
    # term_slices: slice(v[0], v[-1]+1) covers exactly the (contiguous) index list; empty -> slice(0,0)
    term_slices = reg.add(Contract(
        MS + "term_slices", params={"self": SELF4}, returns="Dict[Term,slice]", is_property=True,
        lets={"T": "self.term_indices"},
        ensures=[
            "len(keys(result)) == len(keys(T))",
            "forall(lambda i: implies(0 <= i and i < len(keys(T)), keys(result)[i] == keys(T)[i]))",
            "forall(lambda i: implies(0 <= i and i < len(keys(T)) and len(T[keys(T)[i]]) > 0, "
            "result[keys(T)[i]].start == T[keys(T)[i]][0] and result[keys(T)[i]].stop == T[keys(T)[i]][len(T[keys(T)[i]]) - 1] + 1))",
            "forall(lambda i: implies(0 <= i and i < len(keys(T)) and len(T[keys(T)[i]]) == 0, "
            "result[keys(T)[i]].start == 0 and result[keys(T)[i]].stop == 0))",
        ], props=["C10"]))
    cs.append(term_slices)

    # get_slice: three of the four identifier variants (a slice passes through; an int selects one column; a Term selects
    # exactly its term's slice or raises ValueError).  The str variant relies on Term.__eq__/__hash__ against strings (finding D13)
    # and is decided by the bounded driver.
    SELF5 = {"__class__": "ModelSpec", "structure": "Seq[ETS]", "term_slices": "Dict[Term,slice]", "column_indices": "Dict[Str,Int]"}
    from vf.pyvc.engine import PyConst

    G = {"Term": PyConst("Term"), "slice": PyConst("slice")}
    for label, ty, ens, rz in (
        ("slice", "slice", ["result == columns_identifier"], {}),
        ("int", "Int", ["result.start == columns_identifier and result.stop == columns_identifier + 1"], {}),
        ("Term", "Term", ["result == self.term_slices[columns_identifier]"], {"ValueError": "columns_identifier not in self.term_slices"}),
    ):
        c = Contract(MS + "get_slice", params={"self": SELF5, "columns_identifier": ty}, returns="slice", globals=G,
                     ensures=ens, raises=rz, modifies=[], props=["C10"])
        c.label = label
        cs.append(c)

    # subset(): the subset keeps, for every requested term (in the requested order), the parent's structure row of that term,
    # and NOTHING else of the spec changes -- in particular the recorded encoder/transform state (kinds, levels, statistics) that a
    # later reuse on other data checks against (C09).  `dataclasses.replace` is modelled natively (record update).
    from vf.pyvc.engine import MObj

    FORMULA = TObj("SimpleFormula")
    TERMS_OF = z3.Function("terms_of_formula", FORMULA.sort(), TSeq(TERM).sort())

    def formula_iter(eng, args, kw, n, st):
        return V(TSeq(TERM), TERMS_OF(args[0].t))

    reg.methods[("SimpleFormula", "__iter__")] = formula_iter

    def n_update(eng, args, kw, n, st):
        me = args[0]
        new = MObj(me.cls, dict(me.attrs))
        for k_, v_ in kw.items():
            new.attrs[k_] = v_
        return new

    reg.methods[("ModelSpec", "update")] = n_update
    restricted = Contract("ModelSpec.__get_restricted_formula", params={"self": "AnyObj", "spec": "FormulaSpec", "kw": "Kw"}, returns=FORMULA, trusted=True,
                          spec_env={"terms_of": lambda e, a, k, n, s: V(TSeq(TERM), TERMS_OF(a[0].t))},
                          raises={"ValueError": None},
                          ensures=["distinct(terms_of(result))",
                                   "forall(lambda i: implies(0 <= i and i < len(terms_of(result)), exists(lambda j: 0 <= j and j < len(self.structure) and self.structure[j].term == terms_of(result)[i])))"],
                          notes="Formula.from_spec(spec) restricted to terms of this spec (raises ValueError otherwise); parsing is C01's subject")
    restricted.kwarg_param = "kw"
    restricted.defaults = {"kw": V(TObj("Kw"), z3.Const("{}:kw", TObj("Kw").sort()))}
    reg.methods[("ModelSpec", "_ModelSpec__get_restricted_formula")] = restricted
    SELF6 = {"__class__": "ModelSpec", "structure": "Seq[ETS]", "formula": FORMULA, "encoder_state": "Dict[Str,EncState]", "transform_state": "Dict[Str,TState]",
             "materializer": "MatName", "output": "OutputName", "ensure_full_rank": "Bool", "na_action": "NAAction"}
    sub = Contract(
        MS + "subset", params={"self": SELF6, "terms_spec": "FormulaSpec", "formula_kwargs": "Kw"},
        lets={"S": "self.structure"}, requires=[DISTINCT_TERMS], raises={"ValueError": None},
        local_types={"term_structure": "Dict[Term,ETS]"},
        ensures=[
            "result.encoder_state == self.encoder_state and result.transform_state == self.transform_state",
            "result.materializer == self.materializer and result.output == self.output and result.ensure_full_rank == self.ensure_full_rank "
            "and result.na_action == self.na_action",
            # row i of the subset is the parent's row of the i-th requested term (so it keeps that term's scoped terms and column names)
            "forall(lambda i: implies(0 <= i and i < len(result.structure), result.structure[i].term == list(result.formula)[i] and result.structure[i] in S))",
            "len(result.structure) == len(list(result.formula))",
        ], modifies=[], props=["C10", "C09"])
    sub.kwarg_param = "formula_kwargs"
    cs.append(sub)
    return reg, cs


def _c_off(S, k):
    return sum(len(S[j].columns) for j in range(k))


CONCRETE_ENV = {"off": _c_off, "is_range": lambda xs, lo, hi: list(xs) == list(range(lo, hi))}


def workloads():
    from vf.pyvc import workload

    return [workload.run_materialization]


def run_proofs(ctx):
    reg, cs = build()
    ctx.assume("A-eq: Term objects are modelled up to Term.__eq__ (one uninterpreted sort); hash/eq consistency is a separate obligation",
               "A-dict: dicts iterate in insertion order; keys pairwise distinct",
               "A-alias: distinct locals never alias one mutable object")
    run_contracts(ctx, cs, reg, workloads=workloads(), concrete_env=CONCRETE_ENV)
    from vf.proofs import c02

    reg3, cs3 = c02.build()
    run_contracts(ctx, cs3, reg3, workloads=c02.workloads(), concrete_env=c02.CONCRETE_ENV)
    from vf.proofs.terms import run_terms

    run_terms(ctx, "C10")
    from vf.proofs import c10_vars

    c10_vars.run_proofs(ctx)
