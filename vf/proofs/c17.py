"""C17 — deductive part: small functions under contract (vf/proofs/small.py) and the source reported for the variables of a Python
factor (vf/proofs/c17_vars.py); everything else is decided by the bounded stand-in."""
from vf.proofs.small import run_small


def run_proofs(ctx):
    run_small(ctx, "C17")
    from vf.proofs.c17_vars import run_proofs as vars_proofs

    vars_proofs(ctx)
    from vf.proofs.c17_layers import run_proofs as layer_proofs

    layer_proofs(ctx)
    from vf.proofs import c10_vars

    c10_vars.run_proofs(ctx)          # term_variables keeps EVERY term of the structure (also one encoded into zero columns): variables / required_variables after materialization
