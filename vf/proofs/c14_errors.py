"""C14 — the error-reporting helpers of the parser never raise themselves (formulaic/parser/utils.py).

From the statement: "any input string is parsed or rejected with the parsing error" - the FormulaSyntaxError objects are BUILT by
`exc_for_token` / `exc_for_missing_operator`, which walk the (partial) syntax tree to find the tokens to highlight.  If that walk raises
(IndexError on the empty `args` of an argument-less operator such as `.`, AttributeError on a node that is not what the code expects),
the user sees an internal error instead of the parsing error.  vf/proofs/c14_ast.py ASSUMES that these helpers return an exception object;
this module proves it:

    __get_tokens_for_gap(lhs, rhs)      for EVERY pair of trees: returns three Tokens (never an ASTNode), raises nothing, and both descents
                                        terminate (variant: height of the current node)
    exc_for_missing_operator(lhs, rhs)  for every pair of trees: returns, raises nothing
    __get_token_for_ast(t), exc_for_token(t, message)   for every Token t (all call sites pass Tokens; call.pre obligations): return, raise nothing

Model: a node of the tree is an opaque object that is an ASTNode or a Token (`Union[Token, ASTNode]`, the declared parameter type);
ASTNode.args is a finite sequence of nodes, each strictly lower than its parent (finite trees); Token attributes are optional string /
integers; reading an ASTNode attribute of a Token or vice versa is an AttributeError obligation (`safe.attr`);
Token.get_source_context never raises (string slices clamp; its result is specified in vf/proofs/c15.py); an exception class called with a
message returns an exception object.
"""
from __future__ import annotations

import z3

from vf.pyvc import seqs as SQ
from vf.pyvc.contracts import Contract, Registry
from vf.pyvc.engine import OutOfSubset, PyConst
from vf.pyvc.types import TBool, TInt, TObj, TOpt, TSeq, TStr, TTup, V

NODE, OPER, EXC, ERRCLS = TObj("Node14e"), TObj("Operator14e"), TObj("Exception14e"), TObj("ErrCls14e")
OSTR, OINT = TOpt(TStr), TOpt(TInt)
N = NODE.sort()
IS_AST = z3.Function("is_ast_node", N, z3.BoolSort())
ARGS = z3.Function("ast_args", N, TSeq(NODE).sort())
HEIGHT = z3.Function("tree_height", N, z3.IntSort())
OPERATOR = z3.Function("ast_operator", N, OPER.sort())
SYMBOL = z3.Function("operator_symbol", OPER.sort(), z3.StringSort())
TOK, SOURCE = z3.Function("token_text", N, z3.StringSort()), z3.Function("token_source", N, OSTR.sort())
START, END = z3.Function("token_source_start", N, OINT.sort()), z3.Function("token_source_end", N, OINT.sort())


def tree_axioms():
    n = z3.Const("t14!n", N)
    i = z3.Int("t14!i")
    return [
        z3.ForAll([n], HEIGHT(n) >= 0, patterns=[HEIGHT(n)]),
        # finite trees: a child is strictly lower than its parent
        z3.ForAll([n, i], z3.Implies(z3.And(IS_AST(n), 0 <= i, i < SQ.length(ARGS(n))), HEIGHT(SQ.at(ARGS(n), i)) < HEIGHT(n)),
                  patterns=[SQ.at(ARGS(n), i)]),
    ]


def build():
    reg = Registry()
    cs = []

    def prop(fn, ty, ast_side, what):
        def get(eng, args, kw, n, st):
            x = args[0]
            eng.uses_axioms(tree_axioms)
            eng.require(st, "safe.attr", n, IS_AST(x.t) if ast_side else z3.Not(IS_AST(x.t)), "AttributeError",
                        f"`.{what}` exists on {'ASTNode' if ast_side else 'Token'} objects only")
            return V(ty, fn(x.t))

        get.is_property = True
        return get

    for name, fn, ty, side in (("args", ARGS, TSeq(NODE), True), ("operator", OPERATOR, OPER, True), ("token", TOK, TStr, False),
                               ("source", SOURCE, OSTR, False), ("source_start", START, OINT, False), ("source_end", END, OINT, False)):
        reg.methods[("Node14e", name)] = prop(fn, ty, side, name)

    def oper_symbol(eng, args, kw, n, st):
        return V(TStr, SYMBOL(args[0].t))

    oper_symbol.is_property = True
    reg.methods[("Operator14e", "symbol")] = oper_symbol

    def n_isinstance(eng, args, kw, n, st):
        v, cls = args
        if isinstance(v, V) and v.ty == NODE and isinstance(cls, PyConst) and cls.name in ("ASTNode", "Token"):
            return V(TBool, IS_AST(v.t) if cls.name == "ASTNode" else z3.Not(IS_AST(v.t)))
        raise OutOfSubset(n, "isinstance test other than (node, ASTNode) / (node, Token)")

    def n_Token(eng, args, kw, n, st):
        """Token(token='', *, source=None, source_start=None, source_end=None, kind=None): a new Token with those attributes"""
        if set(kw) - {"token", "source", "source_start", "source_end"} or len(args) > 1:
            raise OutOfSubset(n, "Token(...) with other options")
        r = eng.fresh(st, NODE, "token")
        st.assume(z3.Not(IS_AST(r.t)))
        text = args[0] if args else kw.get("token")
        st.assume(TOK(r.t) == (eng.coerce(text, TStr, n).t if text is not None else z3.StringVal("")))
        for k_, fn, ty in (("source", SOURCE, OSTR), ("source_start", START, OINT), ("source_end", END, OINT)):
            st.assume(fn(r.t) == (eng.coerce(kw[k_], ty, n).t if k_ in kw else ty.sort().none))
        return r

    def node_get_source_context(eng, args, kw, n, st):
        if set(kw) - {"colorize"} or len(args) != 1:
            raise OutOfSubset(n, "get_source_context with other options")
        eng.require(st, "safe.attr", n, z3.Not(IS_AST(args[0].t)), "AttributeError", "get_source_context is a Token method")
        return eng.fresh(st, OSTR, "context")

    reg.methods[("Node14e", "get_source_context")] = node_get_source_context

    def errcls_call(eng, args, kw, n, st):
        return eng.fresh(st, EXC, "exception")

    reg.methods[("ErrCls14e", "__call__")] = errcls_call
    G = {"isinstance": n_isinstance, "ASTNode": PyConst("ASTNode"), "Token": PyConst("Token"), "Token.__call__": n_Token}
    env = {"is_ast": lambda e, a, k, n, s: V(TBool, IS_AST(a[0].t)), "height": lambda e, a, k, n, s: V(TInt, HEIGHT(a[0].t)),
           "source_of": lambda e, a, k, n, s: V(OSTR, SOURCE(a[0].t)), "start_of": lambda e, a, k, n, s: V(OINT, START(a[0].t))}
    U = "formulaic/parser/utils.py::"
    VAR = "ite(is_ast({0}), height({0}) + 1, 0)"
    gap = reg.add(Contract(
        U + "__get_tokens_for_gap", params={"lhs": NODE, "rhs": NODE}, returns=TTup(NODE, NODE, NODE), globals=G, spec_env=env, axioms=[tree_axioms],
        no_monitor=True, local_types={"lhs_token": NODE, "rhs_token": NODE},
        loops={0: {"inv": ["True"], "variant": VAR.format("lhs_token")}, 1: {"inv": ["not is_ast(lhs_token)"], "variant": VAR.format("rhs_token")}},
        raises={},
        ensures=["not is_ast(result[0]) and not is_ast(result[1]) and not is_ast(result[2])",
                 # the synthetic middle token starts where the left token starts, in the same source
                 "source_of(result[2]) == source_of(result[0]) and start_of(result[2]) == start_of(result[0])"],
        modifies=[], props=["C14", "C15"]))
    cs.append(gap)
    tok = reg.add(Contract(
        U + "__get_token_for_ast", params={"ast": NODE}, returns=NODE, globals=G, spec_env=env, axioms=[tree_axioms], no_monitor=True,
        requires=["not is_ast(ast)"], raises={}, ensures=["result == ast"], modifies=[], props=["C14"],
        notes="Token variant: every call site passes a Token (call.pre obligation at exc_for_token); the ASTNode variant (walks args[0] / args[-1] without "
              "the empty-args fallback) is not reachable from the parser and is not claimed"))
    cs.append(tok)
    eft = reg.add(Contract(
        U + "exc_for_token", params={"token": NODE, "message": "Str", "errcls": ERRCLS}, returns=EXC, globals=G, spec_env=env, axioms=[tree_axioms],
        no_monitor=True, requires=["not is_ast(token)"], raises={}, calls={"__get_token_for_ast": tok}, ensures=["True"], modifies=[], props=["C14"]))
    cs.append(eft)
    emo = reg.add(Contract(
        U + "exc_for_missing_operator", params={"lhs": NODE, "rhs": NODE, "errcls": ERRCLS, "extra": OSTR}, returns=EXC, globals=G, spec_env=env,
        axioms=[tree_axioms], no_monitor=True, raises={}, calls={"__get_tokens_for_gap": gap, "exc_for_token": eft}, ensures=["True"], modifies=[],
        props=["C14"]))
    cs.append(emo)
    return reg, cs


def run_proofs(ctx):
    from vf.pyvc.run import run_contracts

    reg, cs = build()
    ctx.assume("error helpers: a tree node is an ASTNode or a Token (declared parameter type); ASTNode.args is a finite sequence of strictly lower nodes "
               "(finite trees); Token.get_source_context and calling an exception class never raise")
    run_contracts(ctx, cs, reg)
