"""C01 — the operator implementations (`to_terms`) of DefaultOperatorResolver.operators under contract.

Terms are modelled modulo Term.__eq__ (A-eq): a term is its SET of factors, `tmul(a, b)` (Term.__mul__) has
fset(tmul(a,b)) = fset(a) U fset(b) (hence commutative, associative, idempotent: a:a == a, a:b == b:a).
Term sets are OrderedSets: duplicate-free sequences in first-appearance order.

Postconditions are the documented set semantics (grammar.md), stated by membership + order, not by repeating the code:
   a + b : members of a or b; a's terms first, in a's order
   a - b : members of a not in b, in a's order
   +a    : a            -a : nothing
   a : b : exactly the products t1:t2, t1 in a, t2 in b
   a * b : a + b + a:b        a / b : a + (all of a):b        b %in% a : a / b
   lhs | rhs : parts in written order
"""
from __future__ import annotations

import z3

from vf.pyvc import seqs as SQ
from vf.pyvc import stdlib
from vf.pyvc.contracts import Contract, Registry
from vf.pyvc.engine import Closure, MObj, OutOfSubset, PyConst, lift
from vf.pyvc.types import TBool, TInt, TObj, TSeq, TSet, TTup, V

TERM = TObj("Term")
FK = TObj("FactorKey")
OSET = TSeq(TERM, nodup=True)
FSET = z3.Function("fset", TERM.sort(), TSet(FK).sort())
TMUL = z3.Function("tmul", TERM.sort(), TERM.sort(), TERM.sort())
TMULALL = z3.Function("tmul_all", TSeq(TERM).sort(), TERM.sort())
PAIR = TTup(TERM, TERM)


def term_axioms():
    a, b = z3.Consts("ta!a ta!b", TERM.sort())
    s = z3.Const("ta!s", TSeq(TERM).sort())
    f = z3.Const("ta!f", FK.sort())
    i = z3.Int("ta!i")
    th = SQ.theory(TERM.sort())
    return [
        z3.ForAll([a, b], (FSET(a) == FSET(b)) == (a == b), patterns=[z3.MultiPattern(FSET(a), FSET(b))]),          # A-eq: identity = factor set
        z3.ForAll([a, b], FSET(TMUL(a, b)) == z3.SetUnion(FSET(a), FSET(b)), patterns=[TMUL(a, b)]),                 # Term.__mul__
        z3.ForAll([s, f], z3.IsMember(f, FSET(TMULALL(s))) == z3.Exists([i], z3.And(0 <= i, i < th.Len(s), z3.IsMember(f, FSET(th.At(s, i))))),
                  patterns=[z3.IsMember(f, FSET(TMULALL(s)))]),                                                     # reduce(mul, s)
    ]


def term_mul(eng, args, kw, n, st):
    return V(TERM, TMUL(args[0].t, args[1].t))


def n_product(eng, args, kw, n, st):
    """itertools.product(A, B): row-major sequence of all pairs (no multiplication needed: index maps)"""
    if len(args) != 2:
        raise OutOfSubset(n, "itertools.product with arity != 2")
    A, B = args
    th = SQ.theory(TERM.sort())
    P = eng.fresh(st, TSeq(PAIR), "product")
    tag = st.fresh_n
    tp = SQ.theory(PAIR.sort())
    pi, pj = z3.Function(f"pi!{tag}", z3.IntSort(), z3.IntSort()), z3.Function(f"pj!{tag}", z3.IntSort(), z3.IntSort())
    pk = z3.Function(f"pk!{tag}", z3.IntSort(), z3.IntSort(), z3.IntSort())
    k, i, j, i2, j2 = z3.Ints("pr!k pr!i pr!j pr!i2 pr!j2")
    la, lb, lp = th.Len(A.t), th.Len(B.t), tp.Len(P.t)
    mk = PAIR.sort().mk
    st.assume(z3.ForAll([k], z3.Implies(z3.And(0 <= k, k < lp), z3.And(0 <= pi(k), pi(k) < la, 0 <= pj(k), pj(k) < lb,
                                                                     tp.At(P.t, k) == mk(th.At(A.t, pi(k)), th.At(B.t, pj(k))), pk(pi(k), pj(k)) == k)),
                        patterns=[tp.At(P.t, k)]))
    st.assume(z3.ForAll([i, j], z3.Implies(z3.And(0 <= i, i < la, 0 <= j, j < lb),
                                           z3.And(0 <= pk(i, j), pk(i, j) < lp, pi(pk(i, j)) == i, pj(pk(i, j)) == j,
                                                  tp.At(P.t, pk(i, j)) == mk(th.At(A.t, i), th.At(B.t, j)))),
                        patterns=[pk(i, j), z3.MultiPattern(th.At(A.t, i), th.At(B.t, j))]))
    st.assume(z3.ForAll([i, j, i2, j2], z3.Implies(z3.And(0 <= i, i < la, 0 <= j, j < lb, 0 <= i2, i2 < la, 0 <= j2, j2 < lb),
                                                   (pk(i, j) < pk(i2, j2)) == z3.Or(i < i2, z3.And(i == i2, j < j2))),
                        patterns=[z3.MultiPattern(pk(i, j), pk(i2, j2))]))
    st.env[f"_pk{len([x for x in st.env if x.startswith('_pk')])}"] = ("z3fn", pk)
    return P


def n_chain(eng, args, kw, n, st):
    r = args[0]
    for a in args[1:]:
        r = V(TSeq(TERM), SQ.concat(r.t, a.t))
    return V(TSeq(TERM), r.t)


def n_reduce(eng, args, kw, n, st):
    f, xs = args[0], args[1]
    if isinstance(xs, V) and isinstance(xs.ty, TTup):
        xs = eng.untup(xs)
    if isinstance(xs, tuple):
        if not xs:
            eng.require(st, "safe.reduce", n, z3.BoolVal(False), "TypeError")
        acc = xs[0]
        for x in xs[1:]:
            acc = eng.call(f, [acc, x], {}, n, st)
        return acc
    if isinstance(xs, V) and isinstance(xs.ty, TSeq):
        eng.require(st, "safe.reduce", n, SQ.length(xs.t) > 0, "TypeError", "functools.reduce of an empty sequence without initial value")
        return V(TERM, TMULALL(xs.t))
    raise OutOfSubset(n, "functools.reduce")


def n_OrderedSet(eng, args, kw, n, st):
    if not args:
        return stdlib.oset_new(eng, (), TERM, n, st)
    return stdlib.oset_new(eng, args[0], TERM, n, st)


PP = "formulaic/parser/parser.py::DefaultOperatorResolver.operators.<locals>."
G = {"itertools": PyConst("itertools"), "itertools.product": n_product, "itertools.chain": n_chain, "functools": PyConst("functools"),
     "functools.reduce": n_reduce, "OrderedSet": n_OrderedSet, "FormulaParsingError": PyConst("FormulaParsingError")}
ENV = {"tmul": lambda e, a, k, n, s: V(TERM, TMUL(a[0].t, a[1].t)), "tmul_all": lambda e, a, k, n, s: V(TERM, TMULALL(a[0].t))}
AX = [term_axioms, lambda: stdlib.seq_axioms(TERM)]
PRODUCTS = "exists(lambda i, j: 0 <= i and i < len(A) and 0 <= j and j < len(B) and t == tmul(A[i], B[j]))"


def build():
    reg = Registry()
    reg.methods[("Term", "__mul__")] = term_mul
    cs = []

    def op(sym, arity, params, ensures, fixity=None, nth=0, label=None, **kw):
        spec = f"{sym}/{arity}" + (f"/{fixity}" if fixity else "") + (f"#{nth}" if nth else "")
        c = Contract(PP + f"<op:{spec}/to_terms>", params=params, returns=kw.pop("returns", OSET), globals=G, spec_env=ENV, axioms=AX,
                     ensures=ensures, props=["C01"], **kw)
        c.label = label
        c.no_monitor = True
        cs.append(c)
        return c

    two = {"lhs": OSET, "rhs": OSET}
    op("+", 2, two, [
        "forall(lambda t=Term: (t in result) == (t in lhs or t in rhs))",          # set union
        "result[:len(lhs)] == lhs",                                                # first-appearance order: lhs first, in its order
    ])
    op("-", 2, {"left": OSET, "right": OSET}, [
        "forall(lambda t=Term: (t in result) == (t in left and t not in right))",  # set difference
        "subseq(result, left)",                                                    # in left's order
    ])
    op("+", 1, {"terms": OSET}, ["result == terms"], fixity="prefix")
    op("-", 1, {"terms": OSET}, ["len(result) == 0"], fixity="prefix")
    op("colon", 2, {"term_sets": ("pytuple", OSET, OSET)}, [
        f"forall(lambda t=Term: implies(t in result, {PRODUCTS}))",                              # nothing but products ...
        f"forall(lambda t=Term: implies({PRODUCTS}, t in result))",   # ... and all of them
    ], lets={"A": "term_sets[0]", "B": "term_sets[1]"})
    op("star", 2, {"term_sets": ("pytuple", OSET, OSET)}, [
        f"forall(lambda t=Term: implies(t in result, t in A or t in B or {PRODUCTS}))",          # a*b = a + b + a:b: nothing else ...
        "forall(lambda t=Term: implies(t in A or t in B, t in result))",                         # ... all main effects ...
        f"forall(lambda t=Term: implies({PRODUCTS}, t in result))",   # ... and all products
        "result[:len(dedup(A + B))] == dedup(A + B)",                                          # main effects first
    ], lets={"A": "term_sets[0]", "B": "term_sets[1]"})
    npe = Contract(PP + "nested_product_expansion", params={"parents": OSET, "nested": OSET}, returns=OSET, globals=G, spec_env=ENV, axioms=AX,
                   raises={"FormulaParsingError": "len(parents) == 0"},
                   ensures=[
                       # a / b = a + (product of all of a):b
                       "forall(lambda t=Term: implies(t in result, t in parents or exists(lambda j: 0 <= j and j < len(nested) and t == tmul(tmul_all(parents), nested[j]))))",
                       "forall(lambda t=Term: implies(t in parents, t in result))",
                       "forall(lambda t=Term: implies(exists(lambda j: 0 <= j and j < len(nested) and t == tmul(tmul_all(parents), nested[j])), t in result))",
                       "result[:len(parents)] == parents",
                   ], props=["C01", "C14"])
    npe.no_monitor = True
    cs.append(npe)
    op("in", 2, {"nested": OSET, "parents": OSET}, [
        "forall(lambda t=Term: implies(t in result, t in parents or exists(lambda j: 0 <= j and j < len(nested) and t == tmul(tmul_all(parents), nested[j]))))",
                       "forall(lambda t=Term: implies(t in parents, t in result))",
                       "forall(lambda t=Term: implies(exists(lambda j: 0 <= j and j < len(nested) and t == tmul(tmul_all(parents), nested[j])), t in result))",
        "result[:len(parents)] == parents",
    ], calls={"nested_product_expansion": npe}, raises={"FormulaParsingError": "len(parents) == 0"})
    # lhs | rhs : parts in written order (both operands plain term sets)
    fpe = Contract(PP + "formula_part_expansion", params={"lhs": OSET, "rhs": OSET}, returns=TSeq(OSET), globals=G, spec_env=ENV,
                   local_types={"out": TSeq(OSET)},
                   ensures=["len(result) == 2 and result[0] == lhs and result[1] == rhs"], props=["C01"])
    fpe.no_monitor = True
    cs.append(fpe)
    return reg, cs


def run_ops(ctx):
    from vf.pyvc.run import run_contracts

    reg, cs = build()
    ctx.assume("A-eq(Term): a term is modelled as its set of factors (Term.__eq__/__hash__ use the sorted factor expressions); Term.__mul__ = union of factor sets",
               "A-lib(itertools.product/chain, functools.reduce): product = row-major sequence of all pairs; chain = concatenation; reduce(mul, seq) = product of all, TypeError on empty")
    run_contracts(ctx, cs, reg)
