"""C06 / C07 — `FormulaMaterializer.get_model_matrix` (formulaic/materializers/base.py) under contract: the pooling discipline.

From the statements: "the caller's drop set ends up equal to exactly the set of row positions removed" (C06) and "all parts contain the
same rows ... with the jointly dropped rows" (C07).  What the function must do for that, whatever the spec:

  * the drop-set OBJECT handed to every `_evaluate_factor` call is the caller's own set whenever the caller supplied one - also an EMPTY
    one - and a fresh private set only when the caller passed None;
  * EVERY pooled factor is evaluated with that one drop set (loop invariant) before any part is built;
  * every part is built from the same row list, which is the sorted content of that drop set after all evaluations.

Ghosts (uninterpreted; the trusted contracts of the callees define them):
    eval_with(m, f)   the drop-set object with which materializer m evaluated factor f
    rows_from(r)      the drop-set object a row list r was sorted from
    rows_of(M)        the row list every part of the (structured) matrix M was built with
"""
from __future__ import annotations

import z3

from vf.pyvc.contracts import Contract, Registry
from vf.pyvc.engine import Closure, MObj, OutOfSubset, PyConst, lift
from vf.pyvc.types import TBool, TObj, TOpt, TSeq, TSet, TTup, V

MAT, SPECIN, SPECS, FEMS, FACTOR, DROP, ROWS, MATS, KW, CTX = (TObj(n) for n in ("Materializer", "SpecIn", "ModelSpecs", "PooledSpec", "FactorM", "DropSet", "RowList",
                                                                                   "ModelMatrices", "KwM", "CtxM"))
EVAL_WITH = z3.Function("eval_with", MAT.sort(), FACTOR.sort(), DROP.sort())
ROWS_FROM = z3.Function("rows_from", ROWS.sort(), DROP.sort())
ROWS_OF = z3.Function("rows_of", MATS.sort(), ROWS.sort())
POOLED = z3.Function("pooled_factors", SPECS.sort(), TSet(FACTOR).sort())
NONEMPTY = z3.Function("nonempty_set", DROP.sort(), z3.BoolSort())
IS_FRESH = z3.Function("is_fresh_set", DROP.sort(), z3.BoolSort())


def _unopt(a):
    return a.ty.sort().v(a.t) if isinstance(a.ty, TOpt) else a.t      # an Optional argument stands for its value (clauses guard with `is not None`)


def fn(f, rty):
    return lambda eng, args, kw, n, st: V(rty, f(*[_unopt(a) for a in args]))


ENV = {"eval_with": fn(EVAL_WITH, DROP), "rows_from": fn(ROWS_FROM, DROP), "rows_of": fn(ROWS_OF, ROWS), "pooled_factors": fn(POOLED, TSet(FACTOR)),
       "is_fresh_set": fn(IS_FRESH, TBool)}
B = "formulaic/materializers/base.py::FormulaMaterializer."


def build():
    reg = Registry()
    cs = []
    from_spec = Contract("ModelSpec.from_spec", params={"spec": SPECIN, "context": CTX, "kw": KW}, returns=SPECIN, trusted=True, notes="spec(s) for the given specification")
    from_spec.kwarg_param = "kw"
    from_spec.defaults = {"kw": V(KW, z3.Const("{}:kwm", KW.sort()))}
    prep = Contract("FormulaMaterializer._prepare_model_specs", params={"self": "Materializer", "spec": SPECIN}, returns=SPECS, trusted=True,
                    raises={"FormulaMaterializationError": None}, notes="structured copy of the specs with private state (C18 bounded)")
    pool = Contract("FormulaMaterializer._prepare_factor_evaluation_model_spec", params={"self": "Materializer", "model_specs": SPECS}, returns=TTup(TSet(FACTOR), FEMS),
                    trusted=True, spec_env=ENV, ensures=["result[0] == pooled_factors(model_specs)"], raises={"RuntimeError": None},
                    notes="pools the factors (and state) of ALL parts: result[0] is the set of every factor of every part")
    evalf = Contract("FormulaMaterializer._evaluate_factor", params={"self": "Materializer", "factor": FACTOR, "spec": FEMS, "drop_rows": DROP}, returns=TObj("EvaluatedFactorM"),
                     trusted=True, spec_env=ENV, ensures=["eval_with(self, factor) == drop_rows"],
                     raises={"FactorEvaluationError": None, "FactorEncodingError": None, "ValueError": None},
                     notes="proved in vf/proofs/c09_eval.py and c06.py; here it defines the ghost eval_with (which drop-set object the null scan of a factor wrote to)")
    build_mm = Contract("FormulaMaterializer._build_model_matrix", params={"self": "Materializer", "spec": "Py", "drop_rows": ROWS}, returns=TObj("ModelMatrixM"), trusted=True,
                        raises={"FormulaMaterializationError": None, "FactorEncodingError": None, "FactorEvaluationError": None},
                        notes="builds one part from the shared factor cache, removing the listed rows")
    for nm, k in (("_prepare_model_specs", prep), ("_prepare_factor_evaluation_model_spec", pool), ("_evaluate_factor", evalf), ("_build_model_matrix", build_mm)):
        reg.add(k, as_method=("Materializer", nm))
    reg.add(Contract("FormulaMaterializer.layered_context", params={"self": "Materializer"}, returns=CTX, is_property=True, trusted=True), as_method=("Materializer", "layered_context"))

    def n_map(eng, args, kw, n, st):
        """Structured._map(func, as_type=...): calls func on every leaf.  When func builds a part (`_build_model_matrix(leaf, drop_rows=r)`) every part of
        the result was built with that r; otherwise (state update) the result is not used."""
        self_, func = args[0], args[1]
        if not isinstance(func, Closure):
            raise OutOfSubset(n, "_map of a non-lambda")
        leaf = MObj("ModelSpecLeaf", {"transform_state": MObj("StateDict", {})})
        import ast as _ast

        body = func.node.body
        R = eng.fresh(st, MATS, "mapped")
        if isinstance(body, _ast.Call) and isinstance(body.func, _ast.Attribute) and body.func.attr == "_build_model_matrix":
            rows = None
            for k_ in body.keywords:
                if k_.arg == "drop_rows":
                    saved = st.env
                    st.env = dict(func.env)
                    st.env.update(saved)
                    try:
                        rows = eng.ev(k_.value, st)
                    finally:
                        st.env = saved
            if len(body.args) > 1:
                raise OutOfSubset(n, "_build_model_matrix called positionally")
            if rows is None or not (isinstance(rows, V) and rows.ty == ROWS):
                raise OutOfSubset(n, "_build_model_matrix without a row list")
            st.assume(ROWS_OF(R.t) == rows.t)
        return R

    reg.methods[("ModelSpecs", "_map")] = n_map
    reg.add(Contract("ModelMatrices._simplify", params={"self": MATS}, returns=MATS, trusted=True, spec_env=ENV, ensures=["rows_of(result) == rows_of(self)"],
                     notes="unwraps a single-part structure"), as_method=("ModelMatrices", "_simplify"))

    def n_set(eng, args, kw, n, st):
        if args:
            raise OutOfSubset(n, "set(iterable)")
        d = eng.fresh(st, DROP, "fresh_set")
        st.assume(IS_FRESH(d.t))
        return d

    def n_sorted(eng, args, kw, n, st):
        (d,) = args
        if isinstance(d, V) and isinstance(d.ty, TOpt):
            eng.require(st, "safe.none", n, d.ty.sort().is_some(d.t), "TypeError")
            d = V(d.ty.t, d.ty.sort().v(d.t))
        if not (isinstance(d, V) and d.ty == DROP):
            raise OutOfSubset(n, f"sorted({d!r})")
        r = eng.fresh(st, ROWS, "rows")
        st.assume(ROWS_FROM(r.t) == d.t)
        return r

    def n_isinstance(eng, args, kw, n, st):
        return eng.fresh(st, TBool, "is_single_spec")

    G = {"ModelSpec": PyConst("ModelSpec"), "ModelSpec.from_spec": from_spec, "set": n_set, "sorted": n_sorted, "isinstance": n_isinstance,
         "ModelMatrices": PyConst("ModelMatrices"), "ModelSpecs": PyConst("ModelSpecs")}
    c = Contract(
        B + "get_model_matrix", params={"self": "Materializer", "spec": SPECIN, "drop_rows": TOpt(DROP), "spec_overrides": KW}, globals=G, spec_env=ENV,
        returns=MATS, local_types={"drop_rows": TOpt(DROP)},
        truthy_of={"DropSet": lambda v: NONEMPTY(v.t)},          # bool(a set) is False for the empty set: an object reference can be falsy
        requires=["implies(drop_rows is not None, not is_fresh_set(drop_rows))"],      # a set the callee creates is not the caller's object
        raises={"FormulaMaterializationError": None, "FactorEvaluationError": None, "FactorEncodingError": None, "ValueError": None, "RuntimeError": None},
        loops={0: {"inv": ["forall(lambda j: implies(0 <= j and j < _i, eval_with(self, _seq[j]) == drop_rows))",
                           "implies(old_drop_rows is not None, drop_rows == old_drop_rows)",
                           "implies(old_drop_rows is None, is_fresh_set(drop_rows))"]}},
        ensures=[
            # C06: the null scan of every factor wrote into the caller's own set, whenever there is one (an empty set included)
            "implies(old_drop_rows is not None, rows_from(rows_of(result)) == old_drop_rows)",
            "implies(old_drop_rows is None, is_fresh_set(rows_from(rows_of(result))))",
            # C07: every part was built with one and the same row list, sorted from that set after ALL factors were evaluated
        ], props=["C06", "C07"])
    c.kwarg_param = "spec_overrides"
    cs.append(reg.add(c))
    return reg, cs


def run_proofs(ctx):
    from vf.pyvc.run import run_contracts

    reg, cs = build()
    ctx.assume("A-materialize: _prepare_model_specs, _prepare_factor_evaluation_model_spec, _build_model_matrix, Structured._map/_simplify are assumed contracts; "
               "_evaluate_factor is proved separately and here defines the ghost eval_with; sets are modelled as object references (identity matters)")
    run_contracts(ctx, cs, reg)
