"""C18 / C04 — `stateful_eval` (formulaic/utils/stateful_transforms.py): ownership of the evaluation environment and of the state.

C18 "private mutable layer for environment edits": the function may add names to the environment (aliases for back-ticked column names, the
reserved __FORMULAIC_*__ names), and the environment it is handed is the materializer's long-lived layered context.  Contract: every
operation that may WRITE to an environment is applied to a private layer created inside this call (`LayeredMapping(env)`; its writes are
confined to its own layer - proved in vf/proofs/c19.py), never to the caller's mapping.
C04 "state-first": the state mapping that the rewritten stateful calls read and write is the caller's `state` object whenever one is given.

Environments, states and AST nodes are opaque references; ghost predicates (defined by the assumed contracts of the callees):
    private(e)        e is a LayeredMapping created inside this call
    state_used(r)     the state object the evaluation ran against
"""
from __future__ import annotations

import z3

from vf.pyvc.contracts import Contract, Registry
from vf.pyvc.engine import MObj, OutOfSubset, PyConst, lift
from vf.pyvc.types import TBool, TDict, TObj, TOpt, TSeq, TSet, TStr, V

ENVREF, STATE, META, SPEC, VARS, NODE, CODE, RAW, ALIASES = (TObj(n) for n in ("EnvRef", "StateRef", "MetaRef", "SpecRef", "VarSetRef", "AstNode", "CodeObj", "EvalResult", "Aliases"))
PRIVATE = z3.Function("private_layer", ENVREF.sort(), z3.BoolSort())
STATE_USED = z3.Function("state_used", RAW.sort(), STATE.sort())
FRESH_STATE = z3.Function("fresh_state", STATE.sort(), z3.BoolSort())


def _unopt(a):
    return a.ty.sort().v(a.t) if isinstance(a.ty, TOpt) else a.t


def build():
    reg = Registry()
    cs = []

    def n_LayeredMapping(eng, args, kw, n, st):
        """LayeredMapping(*layers): a NEW mapping whose writes go to its own private layer (C19); None layers are skipped"""
        r = eng.fresh(st, ENVREF, "layered")
        st.assume(PRIVATE(r.t))
        for a in args:
            if isinstance(a, MObj) and a.cls == "StrKeyDict" and "__FORMULAIC_STATE__" in a.attrs:
                sv = a.attrs["__FORMULAIC_STATE__"]
                st.env["__ghost_eval_state__"] = sv
        return r

    def need_private(what):
        def pre(eng, env_arg, n, st):
            if not (isinstance(env_arg, V) and env_arg.ty in (ENVREF, TOpt(ENVREF))):
                raise OutOfSubset(n, f"{what}: environment argument of unexpected type {env_arg!r}")
            t = _unopt(env_arg)
            if isinstance(env_arg.ty, TOpt):
                eng.oblige(st, f"call.pre[{what}#env-not-None]", n, env_arg.ty.sort().is_some(env_arg.t), f"{what} needs a mapping")
            eng.oblige(st, f"call.pre[{what}#private-layer]", n, PRIVATE(t), f"{what} may write to the environment: it must be the private layer of this call, never the caller's mapping")
        return pre

    def n_sanitize(eng, args, kw, n, st):
        need_private("sanitize_variable_names")(eng, args[1], n, st)
        return eng.fresh(st, TStr, "sanitized")

    def n_ast_parse(eng, args, kw, n, st):
        if set(kw) - {"mode"}:           # an opaque syntax tree whatever the mode
            raise OutOfSubset(n, "ast.parse with an option other than mode=")
        k = Contract("ast.parse", params={"s": "Str"}, returns=NODE, trusted=True, raises={"SyntaxError": None})
        r = eng.apply_contract(k, args[:1], {}, n, st)
        return r

    def node_body(eng, args, kw, n, st):
        return eng.fresh(st, NODE, "body")

    node_body.is_property = True

    def node_keywords(eng, args, kw, n, st):
        return eng.fresh(st, TObj("KeywordList"), "keywords")

    node_keywords.is_property = True
    reg.methods[("AstNode", "body")] = node_body
    reg.methods[("AstNode", "keywords")] = node_keywords
    reg.methods[("KeywordList", "append")] = lambda eng, args, kw, n, st: lift(None)
    reg.methods[("VarSetRef", "update")] = lambda eng, args, kw, n, st: lift(None)

    def state_contains(eng, args, kw, n, st):
        return eng.fresh(st, TBool, "in_state")

    def state_setitem(eng, args, kw, n, st):
        return lift(None)        # writes into the state mapping are intended ("the state mapping is mutated in place")

    reg.methods[("StateRef", "__fresh_empty__")] = lambda eng, v, st: st.assume(FRESH_STATE(v.t))
    reg.methods[("StateRef", "__contains__")] = state_contains
    reg.methods[("StateRef", "__setitem__")] = state_setitem

    def n_walk(eng, args, kw, n, st):
        return eng.fresh(st, TSeq(NODE), "nodes")

    def n_is_stateful(eng, args, kw, n, st):
        return eng.fresh(st, TBool, "is_stateful")        # reads the environment only (eval of the function handle)

    def n_format_expr(eng, args, kw, n, st):
        return eng.fresh(st, TStr, "formatted")

    def n_get_vars(eng, args, kw, n, st):
        return eng.fresh(st, TObj("VarSet"), "vars")

    def n_keyword(eng, args, kw, n, st):
        return eng.fresh(st, TObj("Keyword"), "keyword")

    def n_compile(eng, args, kw, n, st):
        k = Contract("compile", params={"c": NODE}, returns=CODE, trusted=True, raises={"Exception": None})
        return eng.apply_contract(k, args[:1], {}, n, st)

    def n_fix(eng, args, kw, n, st):
        return args[0]

    def n_eval(eng, args, kw, n, st):
        """eval(compiled, {}, locals): user code - may raise anything; runs against the state object placed under __FORMULAIC_STATE__"""
        k = Contract("eval", params={"c": CODE}, returns=RAW, trusted=True, raises={"Exception": None})
        r = eng.apply_contract(k, args[:1], {}, n, st)
        sv = st.env.get("__ghost_eval_state__")
        if sv is None:
            raise OutOfSubset(n, "eval without a __FORMULAIC_STATE__ entry in its locals")
        st.assume(STATE_USED(r.t) == _unopt(sv))
        return r

    def env_as_names(eng, args, kw, n, st):
        return eng.fresh(st, TSet(TStr), "env_names")

    reg.methods[("EnvRef", "__as_set__")] = env_as_names
    IS_LM = z3.Function("is_layered_mapping", ENVREF.sort(), z3.BoolSort())

    def n_isinstance(eng, args, kw, n, st):
        """isinstance(<environment>, LayeredMapping): not known statically - the caller's mapping may or may not be one"""
        from vf.pyvc import lib

        v, cls = args
        if isinstance(v, V) and v.ty in (ENVREF, TOpt(ENVREF)) and isinstance(cls, PyConst) and cls.name == "LayeredMapping":
            t = _unopt(v)
            some = v.ty.sort().is_some(v.t) if isinstance(v.ty, TOpt) else z3.BoolVal(True)
            return V(TBool, z3.And(some, IS_LM(t)))
        return lib.b_isinstance(eng, args, kw, n, st)

    G = {"isinstance": n_isinstance, "LayeredMapping": PyConst("LayeredMapping"), "LayeredMapping.__call__": n_LayeredMapping, "sanitize_variable_names": n_sanitize,
         "ast": PyConst("ast"), "ast.parse": n_ast_parse, "ast.walk": n_walk, "ast.keyword": n_keyword, "ast.fix_missing_locations": n_fix, "ast.Call": PyConst("ast.Call"),
         "get_expression_variables": n_get_vars, "_is_stateful_transform": n_is_stateful, "format_expr": n_format_expr, "compile": n_compile, "eval": n_eval}
    env = {"private": lambda e, a, k, n, s: V(TBool, PRIVATE(_unopt(a[0]))), "state_used": lambda e, a, k, n, s: V(STATE, STATE_USED(a[0].t)),
           "fresh_state": lambda e, a, k, n, s: V(TBool, FRESH_STATE(_unopt(a[0])))}
    c = Contract(
        "formulaic/utils/stateful_transforms.py::stateful_eval",
        params={"expr": "Str", "env": TOpt(ENVREF), "metadata": TOpt(META), "state": TOpt(STATE), "spec": TOpt(SPEC), "variables": TOpt(VARS)},
        returns=RAW, globals=G, spec_env=env, local_types={"stateful_nodes": TDict(TStr, NODE), "state": STATE, "metadata": META},
        requires=["implies(env is not None, not private(env))"],          # the caller's mapping is not a layer created inside this call
        raises={"Exception": None, "SyntaxError": None, "RuntimeError": None},
        loops={0: {"inv": ["implies(old_state is not None, state == old_state)", "private(env)"]},
               1: {"inv": ["implies(old_state is not None, state == old_state)", "private(env)"]}},
        ensures=[
            # C04: the evaluation runs against the caller's state object whenever one is given
            "implies(old_state is not None, state_used(result) == old_state)",
        ], modifies=[], props=["C18", "C04"])
    cs.append(reg.add(c))
    return reg, cs


def run_proofs(ctx):
    from vf.pyvc.run import run_contracts

    reg, cs = build()
    ctx.assume("stateful_eval: environments, states and AST nodes are opaque references; LayeredMapping(...) creates a new mapping whose writes are confined to its own "
               "layer (proved in vf/proofs/c19.py); sanitize_variable_names may write aliases into the environment it is given; eval/compile/ast.parse may raise anything")
    ctx.trust("assumed contracts (stateful_eval): sanitize_variable_names, get_expression_variables (proved separately: c17_vars.py), _is_stateful_transform (proved separately: c04_stateful.py), format_expr, ast.parse/walk/keyword/"
              "fix_missing_locations, compile, eval (user code)")
    run_contracts(ctx, cs, reg)
