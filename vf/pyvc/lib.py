"""Library contracts for builtins and the str/list/dict/set methods the code base uses
(assumed semantics, DESIGN.md §2.4; conformance-tested against CPython in vf/pyvc/conformance.py)."""
from __future__ import annotations

import ast

import z3

from . import seqs as SQ

from .engine import Closure, OutOfSubset, PyConst, lift, is_none
from .types import TKSet, MObj, TBool, TDict, TEnum, TInt, TNone, TObj, TOpt, TReal, TRec, TSeq, TSet, TStr, TTup, V

MUTATORS = {"append", "add", "update", "extend", "pop", "insert", "clear", "remove", "discard", "setdefault", "sort"}


def _seq_of(eng, v, n, st):
    """list(x)/tuple(x): normalise an iterable to a symbolic sequence value."""
    if isinstance(v, V):
        if isinstance(v.ty, TSeq):
            return v
        if isinstance(v.ty, TDict):
            return V(TSeq(v.ty.k, nodup=True), v.ty.sort().keys(v.t))
        if v.ty is TStr:
            raise OutOfSubset(n, "list(str)")
        if isinstance(v.ty, TSet) and z3.simplify(v.t).eq(z3.simplify(z3.EmptySet(v.ty.elem.sort()))):
            return V(TSeq(v.ty.elem, nodup=True), SQ.empty(TSeq(v.ty.elem).sort()))
        if isinstance(v.ty, TSet):
            t0 = z3.simplify(v.t)
            if z3.is_store(t0) and z3.simplify(t0.arg(0)).eq(z3.simplify(z3.EmptySet(v.ty.elem.sort()))) and z3.is_true(t0.arg(2)):
                # singleton set: exactly one enumeration order
                return V(TSeq(v.ty.elem, nodup=True), SQ.unit(TSeq(v.ty.elem).sort(), t0.arg(1)))
            order = eng.fresh(st, TSeq(v.ty.elem, nodup=True), "setorder")
            x = z3.Const("so!x", v.ty.elem.sort())
            st.assume(SQ.forall([x], SQ.has(order.t, x) == z3.IsMember(x, v.t), patterns=[SQ.has(order.t, x)]))
            return order
    if isinstance(v, tuple) and v and v[0] == "range":
        lo, hi = v[1], v[2]
        ln = z3.If(hi - lo < 0, z3.IntVal(0), hi - lo)
        r = eng.fresh(st, TSeq(TInt), "range")
        j = z3.Int("rg!j")
        st.assume(SQ.length(r.t) == ln)
        st.assume(z3.ForAll([j], z3.Implies(z3.And(0 <= j, j < ln), SQ.at(r.t, j) == lo + j)))
        return r
    if isinstance(v, tuple) and v and v[0] == "values":
        d = v[1]
        s_ = d.ty.sort()
        ks = s_.keys(d.t)
        r = eng.fresh(st, TSeq(d.ty.v), "values")
        j = z3.Int("vl!j")
        st.assume(SQ.length(r.t) == SQ.length(ks))
        st.assume(SQ.forall([j], z3.Implies(z3.And(0 <= j, j < SQ.length(ks)), SQ.at(r.t, j) == z3.Select(s_.val(d.t), SQ.at(ks, j))), patterns=[SQ.at(r.t, j)]))
        return r
    if isinstance(v, tuple) and v and v[0] in ("emptylist",):
        return v
    if isinstance(v, tuple) and not (v and isinstance(v[0], str)):
        return v
    if isinstance(v, (MObj,)) or (isinstance(v, V) and isinstance(v.ty, TObj)):
        k = eng.reg.lookup_method(v.cls if isinstance(v, MObj) else v.ty.name, "__iter__")
        if k is not None:
            r = eng.apply_contract(k, [v], {}, n, st)
            if isinstance(r, V) and isinstance(r.ty, TSeq):
                return r
        raise OutOfSubset(n, "list(object)")
    raise OutOfSubset(n, f"list/tuple of {v!r}")


def b_len(eng, args, kw, n, st):
    (v,) = args
    if isinstance(v, tuple) and not (v and isinstance(v[0], str)):
        return lift(len(v))
    if isinstance(v, tuple) and v[0] in ("emptylist", "emptydict"):
        return lift(0)
    if isinstance(v, tuple) and v[0] == "range":
        return V(TInt, z3.If(v[2] - v[1] < 0, z3.IntVal(0), v[2] - v[1]))
    if isinstance(v, V) and v.ty is TNone and eng.spec_mode:
        return V(TInt, z3.Int("len!of-None"))       # only under a guard that excludes None: unconstrained
    if isinstance(v, V) and isinstance(v.ty, TOpt):
        # len(optional): None has no len() (TypeError) - an obligation in code, the guarded value in a clause
        if not eng.spec_mode:
            eng.require(st, "safe.none", n, v.ty.sort().is_some(v.t), "TypeError")
        v = V(v.ty.t, v.ty.sort().v(v.t))
    if isinstance(v, V):
        if v.ty is TStr or isinstance(v.ty, TSeq):
            return V(TInt, SQ.length(v.t))
        if isinstance(v.ty, TDict):
            return V(TInt, SQ.length(v.ty.sort().keys(v.t)))
        if isinstance(v.ty, TSet):
            from . import stdlib

            eng.uses_axioms(stdlib.card_axioms, v.ty.elem)
            return V(TInt, stdlib.card_fn(v.ty.elem)(v.t))
        if isinstance(v.ty, TObj):
            k = eng.reg.lookup_method(v.ty.name, "__len__")
            if k is not None:
                return eng.apply_contract(k, [v], {}, n, st)
    if isinstance(v, MObj):
        k = eng.reg.lookup_method(v.cls, "__len__")
        if k is not None:
            return eng.apply_contract(k, [v], {}, n, st)
    raise OutOfSubset(n, f"len of {v!r}")


def b_range(eng, args, kw, n, st):
    if len(args) == 1:
        return ("range", z3.IntVal(0), args[0].t)
    if len(args) == 2:
        return ("range", args[0].t, args[1].t)
    raise OutOfSubset(n, "range with step")


def b_list(eng, args, kw, n, st):
    if not args:
        return ("emptylist",)
    return _seq_of(eng, args[0], n, st)


def b_tuple(eng, args, kw, n, st):
    if not args:
        return ()
    v = _seq_of(eng, args[0], n, st)
    if isinstance(v, tuple) and v and v[0] == "emptylist":
        return ()
    return v


def b_set(eng, args, kw, n, st):
    if not args:
        return ("emptyset",)
    v = args[0]
    if isinstance(v, V) and isinstance(v.ty, TSet):
        return v
    if isinstance(v, V) and isinstance(v.ty, TDict):
        v = V(TSeq(v.ty.k), v.ty.sort().keys(v.t))
    if isinstance(v, V) and isinstance(v.ty, TSeq):
        s = eng.fresh(st, TSet(v.ty.elem), "set")
        x = z3.Const("st!x", v.ty.elem.sort())
        st.assume(SQ.forall([x], z3.IsMember(x, s.t) == SQ.has(v.t, x), patterns=[z3.IsMember(x, s.t), SQ.has(v.t, x)]))
        return s
    if isinstance(v, tuple) and not (v and isinstance(v[0], str)):
        if not v:
            return ("emptyset",)
        ty = eng.type_of(v[0], n)
        s = z3.EmptySet(ty.sort())
        for x in v:
            s = z3.SetAdd(s, eng.coerce(x, ty, n).t)
        return V(TSet(ty), s)
    raise OutOfSubset(n, f"set({v!r})")


def b_dict(eng, args, kw, n, st):
    if not args and not kw:
        return ("emptydict",)
    if len(args) == 1 and isinstance(args[0], V) and isinstance(args[0].ty, TDict):
        return args[0]
    raise OutOfSubset(n, "dict(...) constructor")


def b_enumerate(eng, args, kw, n, st):
    return ("enumerate", args[0])


def b_zip(eng, args, kw, n, st):
    return ("zip", list(args))


def b_isinstance(eng, args, kw, n, st):
    v, cls = args
    names = []
    for c in (cls if isinstance(cls, tuple) else (cls,)):
        if isinstance(c, PyConst):
            names.append(c.name)
        else:
            raise OutOfSubset(n, f"isinstance against {c!r}")
    r = False
    for nm in names:
        r = r or _isinst(eng, v, nm, n)
    return lift(bool(r))


def _isinst(eng, v, nm, n):
    if isinstance(v, MObj):
        return v.cls == nm or nm in eng.c.globals.get("__bases__", {}).get(v.cls, ())
    if isinstance(v, tuple):
        return nm == "tuple"
    if isinstance(v, V):
        ty = v.ty
        table = {"str": TStr, "int": TInt, "bool": TBool, "float": TReal}
        if nm in table:
            if nm == "int" and ty is TBool:
                return True
            return ty is table[nm]
        if nm in ("list", "tuple"):
            return isinstance(ty, TSeq) and not ty.nodup   # an OrderedSet / dict key view is neither a list nor a tuple
        if nm == "Sequence":
            return isinstance(ty, TSeq)
        if nm == "Iterable":
            return isinstance(ty, (TSeq, TSet, TDict)) or ty is TStr
        if nm in ("dict", "Mapping"):
            return isinstance(ty, TDict)
        if nm == "set":
            return isinstance(ty, TSet)
        if nm == "slice":
            return getattr(ty, "name", "") == "slice"
        if isinstance(ty, TObj):
            return ty.name == nm or nm in eng.c.globals.get("__bases__", {}).get(ty.name, ())
        if ty is TNone:
            return False
    raise OutOfSubset(n, f"isinstance({v!r}, {nm})")


def b_sorted(eng, args, kw, n, st):
    v = _seq_of(eng, args[0], n, st)
    if "key" in kw or "reverse" in kw:
        raise OutOfSubset(n, "sorted with key/reverse (use a contract)")
    if not (isinstance(v, V) and v.ty.elem is TInt):
        k = eng.reg.lookup_function("sorted")
        if k is not None:
            return eng.apply_contract(k, [v], {}, n, st)
        raise OutOfSubset(n, "sorted of non-int sequence")
    r = eng.fresh(st, TSeq(TInt, nodup=v.ty.nodup), "sorted")
    i, j = z3.Ints("sr!i sr!j")
    x = z3.Int("sr!x")
    st.assume(SQ.length(r.t) == SQ.length(v.t))
    st.assume(z3.ForAll([i, j], z3.Implies(z3.And(0 <= i, i < j, j < SQ.length(r.t)), SQ.at(r.t, i) <= SQ.at(r.t, j))))
    st.assume(z3.ForAll([x], SQ.has(r.t, x) == SQ.has(v.t, x)))
    eng.notes.append("sorted(): assumed to return an ordered permutation (membership + length + order encoded; multiplicity not)")
    return r


def b_cast(eng, args, kw, n, st):
    return args[1]


def b_str(eng, args, kw, n, st):
    (v,) = args
    if isinstance(v, V) and v.ty is TStr:
        return v
    if isinstance(v, V) and isinstance(v.ty, TObj):
        k = eng.reg.lookup_method(v.ty.name, "__str__") or eng.reg.lookup_method(v.ty.name, "__repr__")
        if k is not None:
            return eng.apply_contract(k, [v], {}, n, st)
    if isinstance(v, V) and v.ty is TInt:
        return V(TStr, z3.IntToStr(v.t))
    return eng.fresh(st, TStr, "str")


def b_repr(eng, args, kw, n, st):
    (v,) = args
    if isinstance(v, V) and isinstance(v.ty, TObj):
        k = eng.reg.lookup_method(v.ty.name, "__repr__")
        if k is not None:
            return eng.apply_contract(k, [v], {}, n, st)
    return eng.fresh(st, TStr, "repr")


def b_bool(eng, args, kw, n, st):
    return V(TBool, eng.truthy(args[0], n))


def b_slice(eng, args, kw, n, st):
    from .types import TSLICE

    if len(args) != 2:
        raise OutOfSubset(n, "slice() with arity != 2")
    return V(TSLICE, TSLICE.mk(args[0].t, args[1].t))


def b_min(eng, args, kw, n, st):
    if len(args) == 2 and all(isinstance(a, V) and a.ty is TInt for a in args):
        return V(TInt, z3.If(args[0].t <= args[1].t, args[0].t, args[1].t))
    raise OutOfSubset(n, "min")


def b_max(eng, args, kw, n, st):
    if len(args) == 2 and all(isinstance(a, V) and a.ty is TInt for a in args):
        return V(TInt, z3.If(args[0].t >= args[1].t, args[0].t, args[1].t))
    raise OutOfSubset(n, "max")


def b_iter(eng, args, kw, n, st):
    return ("iter", args[0])


def b_next(eng, args, kw, n, st):
    it = args[0]
    if isinstance(it, tuple) and it and it[0] == "iter":
        ln, at = eng.iter_view(it[1], n, st)
        eng.require(st, "safe.next", n, ln > 0, "StopIteration")
        return at(z3.IntVal(0))
    raise OutOfSubset(n, "next() on a non-fresh iterator")


def b_all(eng, args, kw, n, st):
    v = args[0]
    if isinstance(v, V) and isinstance(v.ty, TSeq) and v.ty.elem is TBool:
        j = z3.Int("al!j")
        return V(TBool, z3.ForAll([j], z3.Implies(z3.And(0 <= j, j < SQ.length(v.t)), SQ.at(v.t, j))))
    if isinstance(v, tuple):
        return V(TBool, z3.And(*[eng.truthy(x, n) for x in v]) if v else z3.BoolVal(True))
    raise OutOfSubset(n, "all()")


def b_any(eng, args, kw, n, st):
    v = args[0]
    if isinstance(v, V) and isinstance(v.ty, TSeq) and v.ty.elem is TBool:
        j = z3.Int("an!j")
        return V(TBool, z3.Exists([j], z3.And(0 <= j, j < SQ.length(v.t), SQ.at(v.t, j))))
    if isinstance(v, tuple):
        return V(TBool, z3.Or(*[eng.truthy(x, n) for x in v]) if v else z3.BoolVal(False))
    raise OutOfSubset(n, "any()")


def b_int(eng, args, kw, n, st):
    (v,) = args
    if isinstance(v, V) and v.ty is TInt:
        return v
    if isinstance(v, V) and v.ty is TBool:
        return V(TInt, z3.If(v.t, 1, 0))
    raise OutOfSubset(n, "int()")


def b_hash(eng, args, kw, n, st):
    (v,) = args
    if isinstance(v, V) and isinstance(v.ty, TObj):
        k = eng.reg.lookup_method(v.ty.name, "__hash__")
        if k is not None:
            return eng.apply_contract(k, [v], {}, n, st)
    if isinstance(v, V) and v.ty is TStr:
        f = z3.Function("hash_str", z3.StringSort(), z3.IntSort())
        return V(TInt, f(v.t))
    if isinstance(v, V):
        f = z3.Function(f"hash_{v.ty!r}", v.t.sort(), z3.IntSort())
        return V(TInt, f(v.t))
    raise OutOfSubset(n, "hash()")


# ---- spec helpers usable in contract clauses ---------------------------------
def s_forall(eng, args, kw, n, st):
    return _quant(eng, args[0], n, st, z3.ForAll, kw.get("trigger"))


def s_exists(eng, args, kw, n, st):
    return _quant(eng, args[0], n, st, z3.Exists, kw.get("trigger"))


def _quant(eng, lam, n, st, Q, trig=None):
    if not isinstance(lam, Closure):
        raise OutOfSubset(n, "forall/exists need a lambda")
    node = lam.node
    names = [a.arg for a in node.args.args]
    defaults = node.args.defaults
    # sorts: lambda i, x=Str: ...  (default = sort name), Int otherwise
    sorts = {}
    for nm, d in zip(names[len(names) - len(defaults):], defaults):
        sorts[nm] = d
    bound = []
    saved = st.env
    st.env = dict(lam.env)
    try:
        for nm in names:
            st.fresh_n += 1
            if nm in sorts:
                from .types import parse_ty

                ty = parse_ty(ast_name(sorts[nm]))
            else:
                ty = TInt
            c = z3.Const(f"{nm}!q{st.fresh_n}", ty.sort())
            bound.append(c)
            st.env[nm] = V(ty, c)
        body = eng.ev(node.body, st)
        b = body.t if isinstance(body, V) and body.ty is TBool else eng.truthy(body, n)
        pats = []
        if isinstance(trig, Closure):
            for nm2, c2 in zip([a.arg for a in trig.node.args.args], bound):
                st.env[nm2] = V(TInt if c2.sort() == z3.IntSort() else st.env[names[[str(x) for x in bound].index(str(c2))]].ty, c2)
            # a tuple is ONE multi-pattern (all terms must match); a list gives ALTERNATIVE patterns (any of them instantiates)
            alts = trig.node.body.elts if isinstance(trig.node.body, ast.List) else [trig.node.body]
            for alt in alts:
                tv = eng.ev(alt, st)
                tvs = tv if isinstance(tv, tuple) else (tv,)
                terms = [x.t for x in tvs]
                pats.append(z3.MultiPattern(*terms) if len(terms) > 1 else terms[0])
    finally:
        st.env = saved
    if pats and not any(_has_ite(p_) for p_ in pats):
        try:
            return V(TBool, Q(bound, b, patterns=pats))
        except z3.Z3Exception:
            pass
    # (the trigger mentions a term that is not a valid pattern in this state, e.g. an if-then-else value: the solver chooses)
    return V(TBool, Q(bound, b))


def _has_ite(e):
    seen, stack = set(), [e]
    while stack:
        x = stack.pop()
        if x.get_id() in seen:
            continue
        seen.add(x.get_id())
        if z3.is_app(x):
            if x.decl().kind() == z3.Z3_OP_ITE:
                return True
            stack.extend(x.children())
    return False


def ast_name(node):
    import ast as _ast

    return _ast.unparse(node)


def s_implies(eng, args, kw, n, st):
    a, b = args
    return V(TBool, z3.Implies(eng.truthy(a, n), eng.truthy(b, n)))


def s_iff(eng, args, kw, n, st):
    a, b = args
    return V(TBool, eng.truthy(a, n) == eng.truthy(b, n))


def s_keys(eng, args, kw, n, st):
    (d,) = args
    return V(TSeq(d.ty.k, nodup=True), d.ty.sort().keys(d.t))


def s_distinct(eng, args, kw, n, st):
    (s,) = args
    return V(TBool, eng.distinct(s.t))


def s_ite(eng, args, kw, n, st):
    c, a, b = args
    if isinstance(b, V) and isinstance(b.ty, TOpt) and not (isinstance(a, V) and isinstance(a.ty, TOpt)):
        a = eng.coerce(a, b.ty, n)
    return V(a.ty, z3.If(eng.truthy(c, n), a.t, eng.coerce(b, a.ty, n).t))


def _sp_dedup(eng, args, kw, n, st):
    from . import stdlib

    eng.uses_axioms(stdlib.seq_axioms, args[0].ty.elem)
    return stdlib.sp_dedup(eng, args, kw, n, st)


def _sp_subseq(eng, args, kw, n, st):
    from . import stdlib

    eng.uses_axioms(stdlib.seq_axioms, args[0].ty.elem)
    return stdlib.sp_subseq(eng, args, kw, n, st)


BUILTINS = {
    "dedup": _sp_dedup, "subseq": _sp_subseq,
    "len": b_len, "range": b_range, "list": b_list, "tuple": b_tuple, "set": b_set, "dict": b_dict, "enumerate": b_enumerate,
    "zip": b_zip, "isinstance": b_isinstance, "sorted": b_sorted, "cast": b_cast, "str": b_str, "repr": b_repr, "bool": b_bool,
    "slice": b_slice, "min": b_min, "max": b_max, "iter": b_iter, "next": b_next, "all": b_all, "any": b_any, "int": b_int,
    "hash": b_hash,
    "forall": s_forall, "exists": s_exists, "implies": s_implies, "iff": s_iff, "keys": s_keys, "distinct": s_distinct, "ite": s_ite,
}


# ---- methods -------------------------------------------------------------------
def method(eng, recv, meth, args, kw, n, st):
    if isinstance(recv, V):
        ty = recv.ty
        if isinstance(ty, TDict):
            s = ty.sort()
            keys = s.keys(recv.t)
            if meth == "items":
                return ("items", recv)
            if meth == "values":
                return ("values", recv)
            if meth == "keys":
                return V(TSeq(ty.k, nodup=True), keys)
            if meth == "get":
                k = eng.coerce(args[0], ty.k, n)
                present = SQ.has(keys, k.t)
                dflt = args[1] if len(args) > 1 else lift(None)
                if is_none(dflt):
                    oty = TOpt(ty.v)
                    return V(oty, z3.If(present, oty.sort().some(z3.Select(s.val(recv.t), k.t)), oty.sort().none))
                d = eng.coerce(dflt, ty.v, n)
                return V(ty.v, z3.If(present, z3.Select(s.val(recv.t), k.t), d.t))
            if meth == "copy":
                return recv
        if ty is TStr:
            if meth == "replace" and len(args) == 2:
                # python replaces ALL occurrences: uninterpreted (lemmas about it are stated where needed)
                f = z3.Function("replace_all", z3.StringSort(), z3.StringSort(), z3.StringSort(), z3.StringSort())
                return V(TStr, f(recv.t, args[0].t, args[1].t))
            if meth == "__hash__":
                return V(TInt, z3.Function("hash_str", z3.StringSort(), z3.IntSort())(recv.t))
            if meth == "startswith":
                return V(TBool, SQ.prefix_of(args[0].t, recv.t))
            if meth == "endswith":
                return V(TBool, z3.SuffixOf(args[0].t, recv.t))
            if meth == "join":
                g = eng.c.globals.get("str.join")
                if callable(g):
                    return g(eng, [recv] + list(args), kw, n, st)
                raise OutOfSubset(n, "str.join")
            if meth == "format":
                return eng.fresh(st, TStr, "fmt")
        if isinstance(ty, TSeq):
            if meth == "index":
                x = eng.coerce(args[0], ty.elem, n)
                eng.require(st, "safe.index-of", n, SQ.has(recv.t, x.t), "ValueError")
                return V(TInt, SQ.index_of(recv.t, x.t))
            if meth == "copy":
                return recv
        if isinstance(ty, TSet):
            def _as_set(o):
                if isinstance(o, V) and isinstance(o.ty, TSeq):
                    o = b_set(eng, [o], {}, n, st)
                if isinstance(o, tuple) and o and o[0] == "emptyset":
                    return z3.EmptySet(ty.elem.sort())
                if isinstance(o, V) and isinstance(o.ty, TSet) and o.ty.elem == ty.elem:
                    return o.t
                if isinstance(o, V) and isinstance(o.ty, TOpt):
                    eng.require(st, "safe.none", n, o.ty.sort().is_some(o.t), "TypeError")
                    o = V(o.ty.t, o.ty.sort().v(o.t))
                if isinstance(o, V) and isinstance(o.ty, TObj):
                    hook = eng.reg.lookup_method(o.ty.name, "__as_set__")      # an opaque iterable: the set of the things it iterates over
                    if hook is not None:
                        r = hook(eng, [o], {}, n, st)
                        if isinstance(r, V) and isinstance(r.ty, TSet) and r.ty.elem == ty.elem:
                            return r.t
                raise OutOfSubset(n, f"set.{meth}({o!r})")

            if meth == "union":
                return V(ty, z3.SetUnion(recv.t, _as_set(args[0])))
            if meth == "difference":
                return V(ty, z3.SetDifference(recv.t, _as_set(args[0])))
            if meth == "intersection":
                return V(ty, z3.SetIntersect(recv.t, _as_set(args[0])))
            if meth == "issubset":
                return V(TBool, z3.IsSubset(recv.t, _as_set(args[0])))
            if meth == "issuperset":
                return V(TBool, z3.IsSubset(_as_set(args[0]), recv.t))
            if meth == "isdisjoint":
                return V(TBool, z3.SetIntersect(recv.t, _as_set(args[0])) == z3.EmptySet(ty.elem.sort()))
            if meth == "copy":
                return recv
    if isinstance(recv, V):
        k = eng.reg.lookup_method(getattr(recv.ty, "name", ""), meth)       # a model supplied by the contract's registry (e.g. Bool.astype)
        if k is not None and not hasattr(k, "requires"):
            return k(eng, [recv] + list(args), kw, n, st)
    raise OutOfSubset(n, f"method {meth} on {recv!r}")


def mutate(eng, cur, meth, args, n, st):
    """Returns the new value of the receiver after `cur.meth(*args)`."""
    if isinstance(cur, tuple) and cur and cur[0] == "emptylist" and meth in ("append", "extend"):
        ety = eng.type_of(args[0], n) if meth == "append" else args[0].ty.elem
        cur = V(TSeq(ety), SQ.empty(TSeq(ety).sort()))
    if isinstance(cur, tuple) and cur and cur[0] == "emptyset" and meth == "add":
        ety = eng.type_of(args[0], n)
        cur = V(TSet(ety), z3.EmptySet(ety.sort()))
    if isinstance(cur, V):
        ty = cur.ty
        if isinstance(ty, TSeq):
            if meth == "append":
                return V(TSeq(ty.elem), SQ.append1(cur.t, eng.coerce(args[0], ty.elem, n).t))
            if meth == "extend":
                other = _seq_of(eng, args[0], n, st)
                if isinstance(other, tuple):
                    other = eng.coerce(other, ty, n)
                return V(TSeq(ty.elem), SQ.concat(cur.t, other.t))
            if meth == "pop":
                ln = SQ.length(cur.t)
                if args:
                    i = z3.simplify(args[0].t)
                    if not (z3.is_int_value(i) and i.as_long() == -1):
                        raise OutOfSubset(n, "list.pop(i) with i other than -1")
                eng.require(st, "safe.pop", n, ln > 0, "IndexError")
                return V(TSeq(ty.elem), SQ.take(cur.t, ln - 1))
            if meth == "insert":
                i, x = args[0].t, eng.coerce(args[1], ty.elem, n).t
                ln = SQ.length(cur.t)
                pos = z3.If(i < 0, z3.If(ln + i < 0, z3.IntVal(0), ln + i), z3.If(i > ln, ln, i))
                return V(TSeq(ty.elem), SQ.concat(SQ.append1(SQ.take(cur.t, pos), x), SQ.drop(cur.t, pos)))
        if isinstance(ty, TSet):
            if meth == "add":
                return V(ty, z3.SetAdd(cur.t, eng.coerce(args[0], ty.elem, n).t))
            if meth == "discard":
                return V(ty, z3.SetDel(cur.t, eng.coerce(args[0], ty.elem, n).t))
            if meth == "update":
                o = args[0]
                if isinstance(o, V) and isinstance(o.ty, TSeq):
                    o = b_set(eng, [o], {}, n, st)
                return V(ty, z3.SetUnion(cur.t, o.t))
        if isinstance(ty, TKSet):
            s_ = ty.sort()
            keys, val = s_.keys(cur.t), s_.val(cur.t)
            if meth == "add":
                x = args[0]
                kk, vv = ty.rec.get(x.t, ty.keyfield), ty.rec.get(x.t, ty.valfield)
                present = SQ.has(keys, kk)
                # python sets keep the element that is already present when an equal one is added
                return V(ty, z3.If(present, cur.t, s_.mk(SQ.append1(keys, kk), z3.Store(val, kk, vv))))
            if meth == "update" and isinstance(args[0], V) and isinstance(args[0].ty, TKSet):
                o = args[0]
                r = eng.fresh(st, ty, "kupd")
                x = z3.Const("ku!x", ty.k.sort())
                ok, nk, rk = keys, s_.keys(o.t), s_.keys(r.t)
                st.assume(SQ.forall([x], SQ.has(rk, x) == z3.Or(SQ.has(ok, x), SQ.has(nk, x)), patterns=[SQ.has(rk, x)]))
                st.assume(SQ.forall([x], z3.Select(s_.val(r.t), x) == z3.If(SQ.has(ok, x), z3.Select(val, x), z3.Select(s_.val(o.t), x)),
                                    patterns=[z3.Select(s_.val(r.t), x)]))
                return r
            raise OutOfSubset(n, f"mutator {meth} on a keyed set")
        if isinstance(ty, TDict):
            if meth == "clear":
                return eng.empty_of(ty)
            if meth == "update":
                o = args[0]
                if isinstance(o, V) and isinstance(o.ty, TDict) and o.ty == ty:
                    # keys: old keys followed by the new keys not yet present (order of the new ones preserved)
                    s = ty.sort()
                    r = eng.fresh(st, ty, "upd")
                    x = z3.Const("up!x", ty.k.sort())
                    ok, nk, rk = s.keys(cur.t), s.keys(o.t), s.keys(r.t)
                    st.assume(z3.ForAll([x], SQ.has(rk, x) == z3.Or(SQ.has(ok, x), SQ.has(nk, x))))
                    st.assume(SQ.prefix_of(ok, rk))
                    st.assume(z3.ForAll([x], z3.Select(s.val(r.t), x) == z3.If(SQ.has(nk, x), z3.Select(s.val(o.t), x), z3.Select(s.val(cur.t), x))))
                    return r
    raise OutOfSubset(n, f"mutator {meth} on {cur!r}")


def delete_item(eng, base, idx, n, st):
    if isinstance(base, V) and isinstance(base.ty, TDict):
        ty = base.ty
        s = ty.sort()
        k = eng.coerce(idx, ty.k, n)
        keys = s.keys(base.t)
        eng.require(st, "safe.key", n, SQ.has(keys, k.t), "KeyError")
        pos = SQ.index_of(keys, k.t)
        nkeys = SQ.concat(SQ.take(keys, pos), SQ.drop(keys, pos + 1))
        return V(ty, s.mk(nkeys, s.val(base.t)))
    if isinstance(base, V) and isinstance(base.ty, TSeq):
        ln = SQ.length(base.t)
        i = idx.t
        eng.require(st, "safe.index", n, z3.And(-ln <= i, i < ln), "IndexError")
        pos = z3.If(i < 0, ln + i, i)
        return V(base.ty, SQ.concat(SQ.take(base.t, pos), SQ.drop(base.t, pos + 1)))
    raise OutOfSubset(n, f"del on {base!r}")
