"""Glue: verify a list of contracts for a property and record the results in the run context."""
from __future__ import annotations

import time
import traceback

from . import solve
from .contracts import DROPPED, Contract, load_function
from .engine import Engine, OutOfSubset


def chash(c):
    import hashlib

    parts = [repr(sorted((k, repr(v)) for k, v in c.params.items())), repr(c.requires), repr(c.ensures), repr(sorted(c.raises.items(), key=str)),
             repr(sorted(c.loops.items(), key=str)), repr(sorted(c.lets.items())), repr(sorted((k, repr(v)) for k, v in c.defs.items()))]
    if getattr(c, "hints", None):
        parts.append(repr(sorted(c.hints.items())))
    if getattr(c, "abstract_nonlinear", False):
        parts.append("abstract_nonlinear")
    return hashlib.sha256("|".join(parts).encode()).hexdigest()[:12]


def tid(c):
    """target id; variants of one function (different parameter instantiations) carry a label"""
    lab = getattr(c, "label", None)
    return c.target + (f"[{lab}]" if lab else "")


def generate(c, registry):
    """VC generation only: -> dict(function, hash, status, eng) ; obligations in eng.obls"""
    t0 = time.time()
    try:
        fnode, h = load_function(c.path, c.qual)
    except (LookupError, FileNotFoundError, SyntaxError) as e:
        return dict(function=tid(c), hash=None, status="missing", why=str(e), results=[], notes=[], seconds=0)
    eng = Engine(c, getattr(c, "registry", None) or registry, fnode, None)
    try:
        eng.run()
    except OutOfSubset as e:
        return dict(function=tid(c), hash=h, status="out-of-subset", why=str(e), results=[], notes=eng.notes, seconds=time.time() - t0)
    except RecursionError:
        return dict(function=tid(c), hash=h, status="out-of-subset", why="recursion limit in the engine", results=[], notes=eng.notes, seconds=time.time() - t0)
    except Exception as e:  # e.g. a contract clause that no longer type-checks against the changed code (z3 sort mismatch)
        return dict(function=tid(c), hash=h, status="out-of-subset", engine_error=True, why=f"contract no longer type-checks against the function: {type(e).__name__}: {e}",
                    results=[], notes=eng.notes, seconds=time.time() - t0)
    _add_derived_lemmas(c, eng)
    return dict(function=tid(c), hash=h, status="ok", eng=eng, notes=eng.notes, paths=eng.npaths, seconds=time.time() - t0)


def _add_derived_lemmas(c, eng):
    """Derived lemmas of a contract: facts about its SPEC FUNCTIONS that are used as axioms (with triggers) when the function's obligations are
    discharged, and that are themselves PROVED on every run from the definitional axioms alone, in a minimal context (the solver finds such
    proofs in milliseconds there and not at all inside a large query).  Each is an obligation `lemma[name]`."""
    from .engine import Obligation

    for mk in getattr(c, "derived_lemmas", []):
        lem = mk()
        ob = Obligation(f"lemma[{lem['name']}]", "post", list(lem["uses"]) + list(lem["premises"]), lem["goal"], 0, lem.get("text", lem["name"]))
        ob.own_axioms = []
        eng.obls.append(ob)


def verify_many(contracts, registry, timeout_ms=10000):
    """Generates the obligations of all contracts, then discharges them in one 16-process pool."""
    from . import seqs

    gens = [generate(c, registry) for c in contracts]
    obls, axs, owner = [], [], []
    for gi, g in enumerate(gens):
        if g["status"] != "ok":
            continue
        ax = g["eng"].axioms + seqs.all_axioms()
        for ob in g["eng"].obls:
            obls.append(ob)
            axs.append(getattr(ob, "own_axioms", ax))
            owner.append(gi)
    res = solve.discharge(axs, obls, timeout_ms) if obls else []
    # second chance for anything undecided: 5x budget (slow queries are the unstable ones; never read as violations)
    retry = [i for i, r in enumerate(res) if r["verdict"] == "undecided"]
    if retry and len(retry) <= 64:
        res2 = solve.discharge([axs[i] for i in retry], [obls[i] for i in retry], min(timeout_ms * 5, 120000))
        for i, r2 in zip(retry, res2):
            if r2["verdict"] != "undecided":
                r2["note"] = (r2.get("note") or "") + " (decided on retry with 5x budget)"
                res[i] = r2
    for g in gens:
        if g["status"] == "ok":
            g["results"] = []
            g.pop("eng")
    for gi, r in zip(owner, res):
        r["function"] = gens[gi]["function"]
        gens[gi]["results"].append(r)
    return gens


def verify_contract(c, registry, timeout_ms=10000, verbose=False):
    """-> dict(function, hash, status in ok|out-of-subset|missing, results=[...], notes=[...])"""
    t0 = time.time()
    try:
        fnode, h = load_function(c.path, c.qual)
    except (LookupError, FileNotFoundError, SyntaxError) as e:
        return dict(function=c.target, hash=None, status="missing", why=str(e), results=[], notes=[], seconds=0)
    eng = Engine(c, getattr(c, "registry", None) or registry, fnode, None, verbose)
    try:
        eng.run()
    except OutOfSubset as e:
        return dict(function=c.target, hash=h, status="out-of-subset", why=str(e), results=[], notes=eng.notes, seconds=time.time() - t0)
    except RecursionError as e:
        return dict(function=c.target, hash=h, status="out-of-subset", why="recursion limit in the engine", results=[], notes=eng.notes, seconds=time.time() - t0)
    from . import seqs

    res = solve.discharge(eng.axioms + seqs.all_axioms(), eng.obls, timeout_ms)
    for r in res:
        r["function"] = c.target
    return dict(function=c.target, hash=h, status="ok", results=res, notes=eng.notes, paths=eng.npaths, seconds=time.time() - t0)


def aggregate(results):
    """Per obligation id (site), the worst verdict over all paths."""
    order = {"refuted": 0, "vacuous": 0, "undecided": 1, "cover-unknown": 2, "discharged": 3, "covered": 3}
    agg = {}
    for r in results:
        cur = agg.get(r["id"])
        if cur is None or order[r["verdict"]] < order[cur["verdict"]]:
            agg[r["id"]] = dict(r, instances=(cur["instances"] + 1 if cur else 1))
        else:
            cur["instances"] += 1
            cur["seconds"] = round(cur["seconds"] + r["seconds"], 3)
    return list(agg.values())


LEDGER_PATH = __import__("pathlib").Path(__file__).resolve().parent.parent.parent / "obligations.lock.json"


def load_ledger():
    import json

    if LEDGER_PATH.exists():
        return json.loads(LEDGER_PATH.read_text())
    return {}


def run_contracts(ctx, contracts, registry, workloads=(), concrete_env=None, monitor_extra=()):
    """Verifies each contract (obligations -> ctx), then runs the monitored workloads: the same contract text is
    evaluated on the real functions (CPython cross-check + counterexample search).

    Verdict policy (DESIGN.md §3.1): an obligation `refuted` by the solver, or a contract clause failing on a
    concrete call of the real function, is a violation.  An obligation recorded as discharged in
    obligations.lock.json that no longer discharges is `undecided` (exit 2) unless the monitor produces a failing
    input for that function (then: VIOLATION with the replayed input)."""
    import os

    timeout = 60000 if ctx.thorough else 12000
    if os.environ.get("VERIF_FORCE_TIMEOUT_MS"):          # (debug only: exercises the ledger-cache fallback; never set by a registered command)
        timeout = int(os.environ["VERIF_FORCE_TIMEOUT_MS"])
    ctx.dropped = [DROPPED]
    ledger = load_ledger()
    updating = bool(os.environ.get("VERIF_UPDATE_LEDGER"))
    new_ledger = {}
    lost_functions = set()
    seen_trusted = set()
    pool = list(contracts)
    for src in (getattr(registry, "by_target", {}), getattr(registry, "methods", {}), getattr(registry, "functions", {})):
        pool.extend(v for v in src.values() if isinstance(v, Contract))
    for c in list(pool):
        pool.extend(v for v in getattr(c, "calls", {}).values() if isinstance(v, Contract))
        pool.extend(v for v in getattr(c, "globals", {}).values() if isinstance(v, Contract))
    for c in pool:
        if (c.trusted or c.path is None) and id(c) not in seen_trusted:
            seen_trusted.add(id(c))
            ctx.trust(f"assumed contract: {c.target} ({c.notes or 'library/external'})")
    todo = [c for c in contracts if not (c.trusted or c.path is None)]
    outs = verify_many(todo, registry, timeout)
    for c, out in zip(todo, outs):
        c_target = tid(c)
        ctx.functions[c_target] = out.get("hash")
        if out.get("engine_error") and out.get("hash") in {v.get("hash") for k, v in ledger.items() if k.startswith(c_target + ":")}:
            ctx.mark_broken(f"{c_target}: VC generation fails on the function text the ledger was written for: {out['why']}")
        if out["status"] in ("missing", "out-of-subset"):
            ctx.notes.append(f"PROOF-LOST {c_target}: {out['why']} (bounded stand-in decides)")
            ctx.obligations.append(dict(id=f"{c_target}:{out['status']}", verdict="undecided", solver=None, seconds=0, function=c_target, note=out["why"], proof_lost=True))
            had = [k for k in ledger if k.startswith(c_target + ":")]
            if had:
                lost_functions.add(c_target)
                print(f"PROOF-LOST property={ctx.prop} function={c_target} ({out['why']})")
            continue
        ctx.notes.extend(f"{c_target}: {n}" for n in out["notes"])
        agg = aggregate(out["results"])
        n_real = sum(1 for r in agg if r["kind"] != "cover")
        if n_real == 0:
            ctx.mark_broken(f"{c_target}: zero obligations generated")
        for r in agg:
            rid = f"{c_target}:{r['id']}"
            rec = dict(id=rid, verdict=r["verdict"], solver=r["solver"], seconds=r["seconds"], function=c_target,
                       note=r.get("note", ""), line=r.get("line"), instances=r.get("instances", 1))
            if r["kind"] == "cover":
                if r["verdict"] == "vacuous" and r["id"] == "cover.pre":
                    ctx.mark_broken(f"{rid}: preconditions are unsatisfiable (vacuous contract)")
                rec["kind"] = "vacuity-guard"
                rec["verdict"] = {"covered": "discharged", "vacuous": "discharged", "cover-unknown": "discharged"}[r["verdict"]]
                rec["note"] += {"covered": " (satisfiable)", "vacuous": " (path infeasible)", "cover-unknown": " (not shown contradictory within 3 s; concrete monitor supplies witnesses)"}[r["verdict"]]
                ctx.obligations.append(rec)
                continue
            ctx.obligations.append(rec)
            if r["verdict"] == "discharged":
                new_ledger[rid] = {"hash": out["hash"], "chash": chash(c)}
            if r["verdict"] == "refuted":
                witness = {"obligation": rid, "clause_text": r.get("note", ""), "line": r.get("line"), "cls": "refuted-obligation",
                           "function": c_target}
                ctx._pending_refuted = getattr(ctx, "_pending_refuted", [])
                ctx._pending_refuted.append((c, r, rid, witness))
            elif r["verdict"] == "undecided":
                led = ledger.get(rid)
                fn_hashes = {v.get("hash") for k, v in ledger.items() if k.startswith(c_target + ":")}
                if led is None and fn_hashes and out["hash"] not in fn_hashes and not updating:
                    # the function changed since the ledger was written and now generates an obligation (e.g. a new partial
                    # operation) that does not discharge: every obligation of a function under contract must hold
                    lost_functions.add(c_target)
                    ctx._pending_lost = getattr(ctx, "_pending_lost", [])
                    ctx._pending_lost.append((c, r, rid))
                    continue
                if led is not None and not updating:
                    if led.get("hash") == out["hash"] and led.get("chash") == chash(c):
                        # identical function source and identical contract as when it was discharged: proof cache
                        rec["verdict"] = "discharged"
                        rec["solver"] = "ledger-cache"
                        rec["note"] += " (solver timed out on this run; same function AST and contract as the recorded discharge)"
                        ctx.notes.append(f"{rid}: re-used from obligations.lock.json (solver instability on this run)")
                    elif led.get("hash") == out["hash"]:
                        ctx.undecided.append(rid + " (contract text changed since the ledger was written and the obligation no longer discharges)")
                    else:
                        lost_functions.add(c_target)
                        ctx._pending_lost = getattr(ctx, "_pending_lost", [])
                        ctx._pending_lost.append((c, r, rid))
                else:
                    rec["note"] += " (never discharged: not counted as proved, does not affect the verdict)"
    # ---- concrete monitor ------------------------------------------------------------------
    from .concrete import Monitor

    mon_fail = {}
    if workloads:
        mon = Monitor(list(contracts) + list(monitor_extra), concrete_env=concrete_env)
        with mon:
            for w in workloads:
                try:
                    w()
                except Exception as e:  # noqa: BLE001
                    # a workload is a fixed script that runs cleanly on the tree the contracts were written for; an exception that escapes it comes from
                    # the (changed) library.  It is not a verdict by itself - the monitored calls made so far, the obligations and the bounded stand-in
                    # decide - but it must not crash the checker either.
                    ctx.notes.append(f"monitor: a workload stopped early with {type(e).__name__}: {str(e)[:200]}")
        with ctx.bounded("contract-monitor", rule="every call of a function under contract made by the deterministic workloads (vf/pyvc/workload.py) "
                         "is checked against its requires/ensures/raises clauses evaluated on the real objects; distinct = (function, call ordinal)",
                         bound="workload size fixed; quantifiers range over -2..max container size+2") as b:
            for tgt, stt in mon.stats.items():
                b.add_counts(stt["pre_ok"], {hash((tgt, i)) for i in range(min(stt["pre_ok"], 5000))}, [{"function": tgt, **stt}])
                if stt["calls"] == 0:
                    ctx.notes.append(f"monitor: {tgt} was never called by the workload")
        for f in mon.failures:
            mon_fail.setdefault(f["function"], []).append(f)
        for tgt, fs in mon_fail.items():
            f = fs[0]
            short = tgt.split("::")[-1]
            code = ("import sys; sys.path.insert(0, '/verif')\n"
                    f"from vf.pyvc.replay import replay_monitor\nreplay_monitor({ctx.prop.lower()!r}, {tgt!r})\n")
            ctx.violation(f"{ctx.prop}.rt.{short}.{f['kind']}", {"function": tgt, "clause_text": f["clause"], "args": f["args"], "result": f["result"],
                          "cls": "contract-fails-on-real-call", "code": code, "n_failures": len(fs)},
                          f"contract clause fails on a concrete call of the real function: {f['clause']} {f['extra']}", source="monitor")
    for c, r, rid, witness in getattr(ctx, "_pending_refuted", []):
        replayed = c.target in mon_fail
        if replayed:
            continue  # already reported with a concrete failing call
        ctx.violation(f"{ctx.prop}.vc.{c.qual}.{r['id']}", witness, f"obligation {rid} refuted by {r['solver']}: {r.get('note', '')}",
                      source="pyvc", solver_output=(r.get("model") or "")[:3000], replayed=False)
    for c, r, rid in getattr(ctx, "_pending_lost", []):
        if c.target in mon_fail:
            continue
        # An obligation that was discharged for the ledger tree no longer discharges after the function changed, even with
        # the 5x retry on three solvers, and no failing concrete call was found: reported as a violation of that named
        # obligation without a failing input (brief: "...the VIOLATION line ends with the words no-failing-input-found").
        witness = {"obligation": rid, "clause_text": r.get("note", ""), "line": r.get("line"), "cls": "obligation-no-longer-discharges",
                   "function": tid(c), "ledger_hash": ledger.get(rid, {}).get("hash"), "current_hash": ctx.functions.get(tid(c))}
        ctx.violation(f"{ctx.prop}.vc.{c.qual}.{r['id']}", witness,
                      f"obligation {rid} was discharged for the recorded tree and is not discharged for the changed function "
                      f"(solvers: z3 5.1, cvc5 1.0.3, z3 4.8.12; reason: {r.get('reason', 'unknown')})",
                      source="pyvc", solver_output=str(r.get("reason", ""))[:2000], replayed=False)
    if updating:
        import json

        led = load_ledger()
        for k in led:
            if any(k.startswith(tid(c) + ":") for c in contracts) and k not in new_ledger:
                print(f"LEDGER-WARNING {k} was recorded as discharged and is not discharged in this update run (dropped from the ledger)")
        led = {k: v for k, v in led.items() if not any(k.startswith(tid(c) + ":") for c in contracts)}
        led.update(new_ledger)
        LEDGER_PATH.write_text(json.dumps(dict(sorted(led.items())), indent=0) + "\n")
    else:
        missing = [k for k in ledger if any(k.startswith(tid(c) + ":") for c in contracts if c.path and not c.trusted)
                   and k not in new_ledger and k.split(":")[0] + ":" + k.split(":")[1] + ":" + k.split(":")[2] not in lost_functions
                   and not any(k.startswith(t + ":") for t in lost_functions)]
        for k in missing:
            if not any(k in u for u in ctx.undecided) and not any(o["id"] == k for o in ctx.obligations):
                ctx.notes.append(f"ledger obligation {k} was not generated on this tree (site moved); not counted")
