"""Assumed library contracts shared by several properties (DESIGN.md §2.4):

  dict.fromkeys / OrderedSet(...)            -> dedup(s): first-occurrence de-duplication
  collections.abc.Set.__sub__ / __or__       -> as inherited by OrderedSet
  subseq(a, b)                               -> a is a subsequence of b (order preserved)
  card(S)                                    -> cardinality of a finite set (few axioms, no induction)
  Factor(...), Term(...)                     -> records modulo their own __eq__ (A-eq)

Everything here is an ASSUMPTION about the Python standard library (or a definition of a spec
function); vf/pyvc/conformance.py tests each one against CPython on generated inputs.
"""
from __future__ import annotations

import z3

from . import seqs as SQ
from .engine import OutOfSubset, lift
from .types import TBool, TEnum, TInt, TObj, TRec, TSeq, TSet, TStr, V

_FN = {}


def _fn(name, *sorts):
    key = (name, tuple(str(s) for s in sorts))
    if key not in _FN:
        _FN[key] = z3.Function(name, *sorts)
    return _FN[key]


# ---------------------------------------------------------------- dedup / subseq per element type
def dedup_fn(elem_ty):
    S = TSeq(elem_ty).sort()
    return _fn(f"dedup_{elem_ty!r}", S, S)


def subseq_fn(elem_ty):
    S = TSeq(elem_ty).sort()
    return _fn(f"subseq_{elem_ty!r}", S, S, z3.BoolSort())


def seq_axioms(elem_ty):
    """axioms for dedup/subseq over Seq[elem_ty]"""
    S = TSeq(elem_ty).sort()
    th = SQ.theory(elem_ty.sort())
    D, SUB = dedup_fn(elem_ty), subseq_fn(elem_ty)
    a, b, c = z3.Consts("sl!a sl!b sl!c", S)
    x = z3.Const("sl!x", elem_ty.sort())
    i, j = z3.Ints("sl!i sl!j")

    def distinct(s):
        return z3.ForAll([i, j], z3.Implies(z3.And(0 <= i, i < j, j < th.Len(s)), th.At(s, i) != th.At(s, j)))

    return [
        SQ.forall([a], distinct(D(a)), patterns=[D(a)]),
        SQ.forall([a, x], th.Has(D(a), x) == th.Has(a, x), patterns=[th.Has(D(a), x)]),
        SQ.forall([a], z3.Implies(distinct(a), D(a) == a), patterns=[D(a)]),
        SQ.forall([a], SUB(D(a), a), patterns=[D(a)]),
        SQ.forall([a], th.Len(D(a)) <= th.Len(a), patterns=[D(a)]),
        SQ.forall([a], (th.Len(D(a)) == 0) == (th.Len(a) == 0), patterns=[D(a)]),
        # first-appearance order: the de-duplicated prefix is a prefix
        z3.ForAll([a, b], z3.And(th.Len(D(a)) <= th.Len(D(th.App(a, b))), th.Take(D(th.App(a, b)), th.Len(D(a))) == D(a)),
                  patterns=[D(th.App(a, b))]),
        # subsequence: reflexive, transitive, membership- and length-monotone
        SQ.forall([a], SUB(a, a), patterns=[SUB(a, a)]),
        SQ.forall([a, b, c], z3.Implies(z3.And(SUB(a, b), SUB(b, c)), SUB(a, c)), patterns=[z3.MultiPattern(SUB(a, b), SUB(b, c))]),
        SQ.forall([a, b, x], z3.Implies(z3.And(SUB(a, b), th.Has(a, x)), th.Has(b, x)), patterns=[z3.MultiPattern(SUB(a, b), th.Has(a, x))]),
        SQ.forall([a, b], z3.Implies(SUB(a, b), th.Len(a) <= th.Len(b)), patterns=[SUB(a, b)]),
        SQ.forall([a], SUB(th.Empty, a), patterns=[SUB(th.Empty, a)]),
        # a subsequence of a duplicate-free sequence is duplicate-free and keeps the relative order
        SQ.forall([a, b], z3.Implies(z3.And(SUB(a, b), distinct(b)), distinct(a)), patterns=[SUB(a, b)]),
        z3.ForAll([a, b, i, j], z3.Implies(z3.And(SUB(a, b), distinct(b), 0 <= i, i < j, j < th.Len(a)),
                                           th.Idx(b, th.At(a, i)) < th.Idx(b, th.At(a, j))),
                  patterns=[z3.MultiPattern(SUB(a, b), th.At(a, i), th.At(a, j))]),
    ]


def sp_dedup(eng, args, kw, n, st):
    (s,) = args
    return V(TSeq(s.ty.elem, nodup=True), dedup_fn(s.ty.elem)(s.t))


def sp_subseq(eng, args, kw, n, st):
    a, b = args
    return V(TBool, subseq_fn(a.ty.elem)(a.t, b.t))


# ---------------------------------------------------------------- finite-set cardinality
def card_fn(elem_ty):
    return _fn(f"card_{elem_ty!r}", TSet(elem_ty).sort(), z3.IntSort())


def card_axioms(elem_ty):
    S = TSet(elem_ty).sort()
    C = card_fn(elem_ty)
    s = z3.Const("cd!s", S)
    x, y = z3.Consts("cd!x cd!y", elem_ty.sort())
    E = z3.EmptySet(elem_ty.sort())
    return [
        SQ.forall([s], C(s) >= 0, patterns=[C(s)]),
        C(E) == 0,
        SQ.forall([s], z3.Implies(C(s) == 0, s == E), patterns=[C(s)]),
        SQ.forall([x], C(z3.SetAdd(E, x)) == 1, patterns=[z3.SetAdd(E, x)]),
        # a set all of whose members are equal to one of its members is a singleton
        z3.ForAll([s, x], z3.Implies(z3.And(z3.IsMember(x, s), z3.ForAll([y], z3.Implies(z3.IsMember(y, s), y == x))), C(s) == 1),
                  patterns=[z3.MultiPattern(C(s), z3.IsMember(x, s))]),
        SQ.forall([s], z3.Implies(C(s) == 1, SQ.exists([x], s == z3.SetAdd(E, x))), patterns=[C(s)]),
    ]


# ---------------------------------------------------------------- OrderedSet algebra (collections.abc.Set mixins)
def oset_sub(eng, a, other, n, st):
    """OrderedSet.__sub__ = _from_iterable(v for v in self if v not in other): order-preserving filter"""
    ety = a.ty.elem
    th = SQ.theory(ety.sort())
    r = eng.fresh(st, TSeq(ety, nodup=True), "osub")
    x = z3.Const("os!x", ety.sort())
    inother = eng.contains(other, V(ety, x), n, st)
    st.assume(SQ.forall([x], th.Has(r.t, x) == z3.And(th.Has(a.t, x), z3.Not(inother)), patterns=[th.Has(r.t, x)]))
    st.assume(subseq_fn(ety)(r.t, a.t))
    eng.uses_axioms(seq_axioms, ety)
    return r


def oset_or(eng, a, other, n, st):
    """OrderedSet.__or__ = _from_iterable(chain(self, other)) = dedup(self ++ list(other))"""
    ety = a.ty.elem
    th = SQ.theory(ety.sort())
    from . import lib

    if isinstance(other, V) and isinstance(other.ty, TSet):
        o = lib._seq_of(eng, other, n, st)  # arbitrary enumeration order of an unordered set
    elif isinstance(other, tuple) and other and other[0] in ("emptyset", "emptylist"):
        o = V(TSeq(ety), th.Empty)
    elif isinstance(other, tuple):
        o = eng.coerce(other, TSeq(ety), n)        # a python tuple display of values: `terms | (term,)`
    else:
        o = other
    eng.uses_axioms(seq_axioms, ety)
    return V(TSeq(ety, nodup=True), dedup_fn(ety)(th.App(a.t, o.t)))


def oset_new(eng, it, ety, n, st):
    """OrderedSet(iterable) / dict.fromkeys(iterable): first-occurrence dedup"""
    from . import lib

    th = SQ.theory(ety.sort())
    if isinstance(it, tuple) and (not it or it[0] in ("emptylist", "emptyset")):
        return V(TSeq(ety, nodup=True), th.Empty)
    if isinstance(it, tuple):
        it = eng.coerce(it, TSeq(ety), n)
    if isinstance(it, V) and isinstance(it.ty, TSet):
        it = lib._seq_of(eng, it, n, st)
    eng.uses_axioms(seq_axioms, ety)
    if isinstance(it, V) and isinstance(it.ty, TSeq) and it.ty.nodup:
        return V(TSeq(ety, nodup=True), it.t)
    return V(TSeq(ety, nodup=True), dedup_fn(ety)(it.t))
