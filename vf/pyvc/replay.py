"""Replay of a contract failure found by the monitor: re-installs the monitor for the property's contracts, runs
the same workloads on the current tree and asserts that the named function's contract holds on every call."""
import importlib
import sys


def replay_monitor(prop, target):
    mod = importlib.import_module(f"vf.proofs.{prop}")
    from vf.pyvc.concrete import Monitor

    reg, cs = mod.build()
    mon = Monitor(cs, concrete_env=getattr(mod, "CONCRETE_ENV", {}))
    with mon:
        for w in mod.workloads():
            w()
    fails = [f for f in mon.failures if f["function"] == target]
    for f in fails[:3]:
        print("CONTRACT FAILURE:", f)
    assert not fails, f"{len(fails)} contract failure(s) of {target} on the current tree"
    print("no contract failure of", target)
