"""Axiomatic sequences (Dafny-prelude style: uninterpreted sort + Length/Index/Build/Append/
Contains/Take/Drop/Equal with triggers).  Lists, tuples, OrderedSets and dict key orders use
this theory; Python `str` stays z3's native String theory."""
from __future__ import annotations

import z3

_CACHE = {}


class SeqTheory:
    def __init__(self, elem_sort):
        self.E = elem_sort
        nm = "Seq_" + "".join(c if c.isalnum() else "_" for c in str(elem_sort))
        self.name = nm
        self.S = z3.DeclareSort(nm)
        S, E, I, B = self.S, elem_sort, z3.IntSort(), z3.BoolSort()
        f = z3.Function
        self.Len = f(nm + ".len", S, I)
        self.At = f(nm + ".at", S, I, E)
        self.Empty = z3.Const(nm + ".empty", S)
        self.Build = f(nm + ".build", S, E, S)
        self.App = f(nm + ".app", S, S, S)
        self.Has = f(nm + ".has", S, E, B)
        self.Take = f(nm + ".take", S, I, S)
        self.Drop = f(nm + ".drop", S, I, S)
        self.Eq = f(nm + ".eq", S, S, B)
        self.Idx = f(nm + ".idx", S, E, I)
        self._axioms = None

    def axioms(self):
        if self._axioms is not None:
            return self._axioms
        S, E = self.S, self.E
        s, a, b = z3.Consts("sq!s sq!a sq!b", S)
        x, v = z3.Consts("sq!x sq!v", E)
        i, n, j = z3.Ints("sq!i sq!n sq!j")
        Len, At, Empty, Build, App, Has, Take, Drop, Eq, Idx = (self.Len, self.At, self.Empty, self.Build, self.App, self.Has,
                                                               self.Take, self.Drop, self.Eq, self.Idx)
        FA, EX, Imp, And, Or, Not = z3.ForAll, z3.Exists, z3.Implies, z3.And, z3.Or, z3.Not
        ax = [
            FA([s], Len(s) >= 0, patterns=[Len(s)]),
            Len(Empty) == 0,
            FA([s], Imp(Len(s) == 0, s == Empty), patterns=[Len(s)]),
            FA([s, v], Len(Build(s, v)) == 1 + Len(s), patterns=[Build(s, v)]),
            FA([s, i, v], And(Imp(i == Len(s), At(Build(s, v), i) == v), Imp(i != Len(s), At(Build(s, v), i) == At(s, i))),
               patterns=[At(Build(s, v), i)]),
            FA([a, b], Len(App(a, b)) == Len(a) + Len(b), patterns=[App(a, b)]),
            FA([a, b, n], And(Imp(n < Len(a), At(App(a, b), n) == At(a, n)), Imp(Len(a) <= n, At(App(a, b), n) == At(b, n - Len(a)))),
               patterns=[At(App(a, b), n)]),
            FA([s, x], Has(s, x) == EX([i], And(0 <= i, i < Len(s), At(s, i) == x), patterns=[At(s, i)]), patterns=[Has(s, x)]),
            FA([s, i], Imp(And(0 <= i, i < Len(s)), Has(s, At(s, i))), patterns=[At(s, i)]),
            FA([x], Not(Has(Empty, x)), patterns=[Has(Empty, x)]),
            FA([a, b, x], Has(App(a, b), x) == Or(Has(a, x), Has(b, x)), patterns=[Has(App(a, b), x)]),
            FA([s, v, x], Has(Build(s, v), x) == Or(v == x, Has(s, x)), patterns=[Has(Build(s, v), x)]),
            FA([s, n, x], Has(Take(s, n), x) == EX([i], And(0 <= i, i < n, i < Len(s), At(s, i) == x), patterns=[At(s, i)]),
               patterns=[Has(Take(s, n), x)]),
            FA([s, n, x], Has(Drop(s, n), x) == EX([i], And(0 <= n, n <= i, i < Len(s), At(s, i) == x), patterns=[At(s, i)]),
               patterns=[Has(Drop(s, n), x)]),
            FA([a, b], Eq(a, b) == And(Len(a) == Len(b), FA([j], Imp(And(0 <= j, j < Len(a)), At(a, j) == At(b, j)),
                                                            patterns=[At(a, j), At(b, j)])), patterns=[Eq(a, b)]),
            FA([a, b], Imp(Eq(a, b), a == b), patterns=[Eq(a, b)]),
            FA([s, n], Imp(And(0 <= n, n <= Len(s)), Len(Take(s, n)) == n), patterns=[Take(s, n)]),
            FA([s, n, j], Imp(And(0 <= j, j < n, j < Len(s)), At(Take(s, n), j) == At(s, j)), patterns=[At(Take(s, n), j)]),
            FA([s, n], Imp(And(0 <= n, n <= Len(s)), Len(Drop(s, n)) == Len(s) - n), patterns=[Drop(s, n)]),
            FA([s, n, j], Imp(And(0 <= n, 0 <= j, j < Len(s) - n), At(Drop(s, n), j) == At(s, j + n)), patterns=[At(Drop(s, n), j)]),
            FA([s], Take(s, 0) == Empty, patterns=[Take(s, 0)]),
            FA([s, v, n], Imp(And(0 <= n, n <= Len(s)), Take(Build(s, v), n) == Take(s, n)), patterns=[Take(Build(s, v), n)]),
            # (no general "Take(s,n) = Build(Take(s,n-1), s[n-1])" axiom: it is a matching loop; the engine adds the instance for the
            #  iterated sequence at each loop head instead)
            FA([s], Drop(s, 0) == s, patterns=[Drop(s, 0)]),
            FA([s], Take(s, Len(s)) == s, patterns=[Take(s, Len(s))]),
            FA([s], App(s, Empty) == s, patterns=[App(s, Empty)]),
            FA([s], App(Empty, s) == s, patterns=[App(Empty, s)]),
            # first index of an element
            FA([s, x], Imp(Has(s, x), And(0 <= Idx(s, x), Idx(s, x) < Len(s), At(s, Idx(s, x)) == x)), patterns=[Idx(s, x)]),
            FA([s, x, j], Imp(And(Has(s, x), 0 <= j, j < Idx(s, x)), At(s, j) != x), patterns=[z3.MultiPattern(Idx(s, x), At(s, j))]),
        ]
        self._axioms = ax
        return ax


def theory(elem_sort):
    key = str(elem_sort) + "#" + str(elem_sort.kind())
    if key not in _CACHE:
        _CACHE[key] = SeqTheory(elem_sort)
    return _CACHE[key]


def all_axioms():
    out = []
    for th in list(_CACHE.values()):
        out.extend(th.axioms())
    return out


def _is_str(t):
    return t.sort() == z3.StringSort()


def _th(t):
    for th in _CACHE.values():
        if th.S == t.sort():
            return th
    raise KeyError(f"no sequence theory for sort {t.sort()}")


# ---- uniform operations on z3 terms (native strings or axiomatic sequences) ------------------
def length(t):
    return z3.Length(t) if _is_str(t) else _th(t).Len(t)


def at(t, i):
    """element (sequences) / 1-char substring (strings)"""
    return z3.SubString(t, i, 1) if _is_str(t) else _th(t).At(t, i)


def concat(*ts):
    if _is_str(ts[0]):
        return z3.Concat(*ts) if len(ts) > 1 else ts[0]
    th = _th(ts[0])
    r = ts[0]
    for t in ts[1:]:
        r = th.App(r, t)
    return r


def empty(sort):
    if sort == z3.StringSort():
        return z3.StringVal("")
    for th in _CACHE.values():
        if th.S == sort:
            return th.Empty
    raise KeyError(sort)


def unit(seq_sort, x):
    for th in _CACHE.values():
        if th.S == seq_sort:
            return th.Build(th.Empty, x)
    raise KeyError(seq_sort)


def append1(t, x):
    return _th(t).Build(t, x)


def has(t, x):
    return z3.Contains(t, x) if _is_str(t) else _th(t).Has(t, x)


def extract(t, lo, cnt):
    """t[lo:lo+cnt] for 0 <= lo <= len, 0 <= cnt <= len-lo (callers clamp)."""
    if _is_str(t):
        return z3.SubString(t, lo, cnt)
    th = _th(t)
    return th.Take(th.Drop(t, lo), cnt)


def take(t, n):
    return z3.SubString(t, 0, n) if _is_str(t) else _th(t).Take(t, n)


def drop(t, n):
    return z3.SubString(t, n, z3.Length(t) - n) if _is_str(t) else _th(t).Drop(t, n)


def eq(a, b):
    return a == b if _is_str(a) else _th(a).Eq(a, b)


def index_of(t, x):
    return z3.IndexOf(t, x, 0) if _is_str(t) else _th(t).Idx(t, x)


def prefix_of(a, b):
    if _is_str(a):
        return z3.PrefixOf(a, b)
    th = _th(a)
    return z3.And(th.Len(a) <= th.Len(b), th.Eq(a, th.Take(b, th.Len(a))))


def forall(vs, body, patterns=()):
    """ForAll with the given patterns when z3 accepts them (no ite / connectives inside), else without."""
    pats = [p for p in patterns if p is not None]
    if pats:
        try:
            return z3.ForAll(vs, body, patterns=pats)
        except z3.Z3Exception:
            ok = []
            for p in pats:
                try:
                    z3.ForAll(vs, body, patterns=[p])
                    ok.append(p)
                except z3.Z3Exception:
                    pass
            if ok:
                return z3.ForAll(vs, body, patterns=ok)
    return z3.ForAll(vs, body)


def exists(vs, body, patterns=()):
    pats = [p for p in patterns if p is not None]
    if pats:
        try:
            return z3.Exists(vs, body, patterns=pats)
        except z3.Z3Exception:
            pass
    return z3.Exists(vs, body)
