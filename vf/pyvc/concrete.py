"""Runtime interpretation of the same contract text on the REAL functions (CPython cross-check of
the contracts and the encoding; counterexample search for obligations that stop discharging).

`Monitor(contracts)` monkey-patches the real function objects named by the contracts with wrappers
that evaluate `requires` / `ensures` / `raises` concretely around every call made while a workload
runs.  Clause text is evaluated with Python's `eval` over the real argument objects; quantifiers
range over all integers from -2 to (largest container size in scope + 2), which is exhaustive for
the range-guarded clauses used in the contracts.
"""
from __future__ import annotations

import copy
import functools
import importlib
import inspect
import itertools
import traceback


class SpecEvalError(Exception):
    pass


def _sizes(env):
    m = 0
    for v in env.values():
        try:
            if hasattr(v, "__len__") and not isinstance(v, str):
                m = max(m, len(v))
                for x in list(v)[:50]:
                    if hasattr(x, "__len__") and not isinstance(x, str):
                        m = max(m, len(x))
                    if isinstance(x, tuple):
                        for y in x:
                            if hasattr(y, "__len__") and not isinstance(y, str):
                                m = max(m, len(y))
            elif isinstance(v, str):
                m = max(m, len(v))
        except Exception:
            pass
    return min(m, 40)


class _Ns(dict):
    pass


def spec_namespace(env, extra=None):
    bound = _sizes(env) + 2

    def _range_for(lam):
        n = len(inspect.signature(lam).parameters)
        return itertools.product(range(-2, bound + 1), repeat=n)

    def forall(lam):
        for xs in _range_for(lam):
            try:
                if not lam(*xs):
                    return False
            except (IndexError, KeyError):
                # partial operation outside its guard: clause bodies are guarded by implies(); an
                # exception under a false guard cannot happen because implies() is lazy below
                raise
        return True

    def exists(lam):
        for xs in _range_for(lam):
            try:
                if lam(*xs):
                    return True
            except (IndexError, KeyError, AttributeError):
                continue
        return False

    ns = _Ns()
    ns.update({
        "forall": forall, "exists": exists,
        "implies": lambda a, b: (not a) or b,
        "iff": lambda a, b: bool(a) == bool(b),
        "keys": lambda d: list(d),
        "distinct": lambda s: len(list(s)) == len(set(list(s))),
        "ite": lambda c, a, b: a if c else b,
    })
    ns.update(env)
    if extra:
        ns.update(extra)
    return ns


import ast as _ast


class _Lazify(_ast.NodeTransformer):
    """implies(a, b) -> ((not a) or b), ite(c, a, b) -> (a if c else b): python evaluates call arguments eagerly,
    the clause language does not."""

    def visit_Call(self, node):
        self.generic_visit(node)
        if isinstance(node.func, _ast.Name) and node.func.id == "implies" and len(node.args) == 2:
            return _ast.BoolOp(op=_ast.Or(), values=[_ast.UnaryOp(op=_ast.Not(), operand=node.args[0]), node.args[1]])
        if isinstance(node.func, _ast.Name) and node.func.id == "ite" and len(node.args) == 3:
            return _ast.IfExp(test=node.args[0], body=node.args[1], orelse=node.args[2])
        return node


@functools.lru_cache(maxsize=4096)
def _compile(text):
    tree = _ast.parse(text.strip(), mode="eval")
    tree = _ast.fix_missing_locations(_Lazify().visit(tree))
    return compile(tree, "<clause>", "eval")


def eval_clause(text, env, extra=None):
    ns = spec_namespace(env, extra)
    ns["__builtins__"] = __builtins__
    return eval(_compile(text), ns)  # single namespace: lambdas inside the clause must see it as globals


# --------------------------------------------------------------------------- target resolution
def resolve(contract):
    """-> (owner object, attribute name, raw attribute (descriptor), python function)"""
    mod = importlib.import_module(contract.path[:-3].replace("/", "."))
    parts = contract.qual.split(".")
    if "<locals>" in parts:
        return None
    owner = mod
    for p in parts[:-1]:
        owner = getattr(owner, p)
    name = parts[-1]
    if name.startswith("__") and not name.endswith("__") and inspect.isclass(owner):
        name = f"_{owner.__name__}{name}"
    raw = inspect.getattr_static(owner, name)
    fn = raw
    if isinstance(raw, property):
        fn = raw.fget
    elif isinstance(raw, functools.cached_property):
        fn = raw.func
    elif isinstance(raw, (staticmethod, classmethod)):
        fn = raw.__func__
    return owner, name, raw, fn


class Monitor:
    def __init__(self, contracts, max_failures=20, concrete_env=None):
        self.contracts = [c for c in contracts if c.path and not c.trusted and not getattr(c, "no_monitor", False)]
        self.failures = []
        self.stats = {}
        self.patched = []
        self.max_failures = max_failures
        self.concrete_env = concrete_env or {}
        self._depth = 0

    def __enter__(self):
        for c in self.contracts:
            r = resolve(c)
            if r is None:
                continue
            owner, name, raw, fn = r
            st = self.stats.setdefault(c.target, dict(calls=0, pre_ok=0, post_checked=0, not_evaluable=0, raised=0))
            w = self._wrap(c, fn, st)
            if isinstance(raw, property):
                new = property(w, raw.fset, raw.fdel)
            elif isinstance(raw, functools.cached_property):
                new = functools.cached_property(w)
                new.__set_name__(owner, name)
            elif isinstance(raw, staticmethod):
                new = staticmethod(w)
            elif isinstance(raw, classmethod):
                new = classmethod(w)
            else:
                new = w
            setattr(owner, name, new)
            self.patched.append((owner, name, raw))
        return self

    def __exit__(self, *a):
        for owner, name, raw in reversed(self.patched):
            setattr(owner, name, raw)
        self.patched = []
        return False

    def _fail(self, c, kind, clause, env, extra=""):
        if len(self.failures) < self.max_failures:
            args = {}
            for k, v in env.items():
                if k.startswith("old_") or k == "result":
                    continue
                try:
                    args[k] = repr(v)[:300]
                except Exception:
                    args[k] = "<unreprable>"
            self.failures.append(dict(function=c.target, kind=kind, clause=clause, args=args, extra=str(extra)[:500],
                                      result=repr(env.get("result"))[:300] if "result" in env else None))

    def _wrap(self, c, fn, st):
        sig = inspect.signature(fn)
        is_gen = inspect.isgeneratorfunction(fn)
        mon = self
        extra = dict(self.concrete_env)
        extra.update(getattr(c, "concrete_env", {}) or {})

        @functools.wraps(fn)
        def wrapper(*args, **kwargs):
            if mon._depth > 0 and getattr(c, "no_reentrant", False):
                return fn(*args, **kwargs)
            st["calls"] += 1
            try:
                b = sig.bind(*args, **kwargs)
                b.apply_defaults()
                env = dict(b.arguments)
            except TypeError:
                return fn(*args, **kwargs)
            for k in list(env):
                try:
                    env["old_" + k] = copy.copy(env[k]) if not isinstance(env[k], (str, int, float, tuple, type(None))) else env[k]
                    if hasattr(env[k], "__dict__") and k == "self":
                        # shallow snapshot of the receiver's mutable containers
                        snap = copy.copy(env[k])
                        for a, v in list(vars(env[k]).items()):
                            if isinstance(v, (dict, list, set)):
                                try:
                                    object.__setattr__(snap, a, copy.copy(v))
                                except Exception:
                                    pass
                        env["old_" + k] = snap
                except Exception:
                    env["old_" + k] = env[k]
            try:
                for nm, text in c.lets.items():
                    env[nm] = eval_clause(text, env, extra)
                    env["old_" + nm] = env[nm]
                pre = all(eval_clause(r, env, extra) for r in c.requires)
            except Exception as ex:
                st["not_evaluable"] += 1
                mon.last_eval_error = f"{c.target}: requires/lets: {type(ex).__name__}: {ex}"
                return fn(*args, **kwargs)
            if not pre:
                return fn(*args, **kwargs)
            st["pre_ok"] += 1
            mon._depth += 1
            try:
                result = fn(*args, **kwargs)
                if is_gen:
                    result = list(result)
            except Exception as e:
                mon._depth -= 1
                st["raised"] += 1
                exc = type(e).__name__
                mro = [k.__name__ for k in type(e).__mro__]
                allowed = [x for x in c.raises if x in mro]
                if not allowed:
                    mon._fail(c, "raises", f"{exc} escapes; declared raises: {sorted(c.raises)}", env, e)
                else:
                    cond = c.raises[allowed[0]]
                    if cond is not None:
                        try:
                            old_env = {k[4:]: v for k, v in env.items() if k.startswith("old_")}
                            if not eval_clause(cond, old_env, extra):
                                mon._fail(c, "raises.when", cond, env, e)
                        except Exception:
                            st["not_evaluable"] += 1
                raise
            mon._depth -= 1
            env["result"] = result
            # declared raise conditions must not hold when returning normally
            for exc, cond in c.raises.items():
                if cond is None:
                    continue
                try:
                    old_env = {k[4:]: v for k, v in env.items() if k.startswith("old_")}
                    if eval_clause(cond, old_env, extra):
                        mon._fail(c, "raises.iff", f"returned normally although ({cond}) held at entry [{exc}]", env)
                except Exception:
                    st["not_evaluable"] += 1
            for e in c.ensures:
                try:
                    ok = eval_clause(e, env, extra)
                except Exception as ex:
                    st["not_evaluable"] += 1
                    mon.last_eval_error = f"{c.target}: {e}: {type(ex).__name__}: {ex}"
                    continue
                st["post_checked"] += 1
                if not ok:
                    mon._fail(c, "post", e, env)
            return iter(result) if is_gen else result

        return wrapper
