"""Runtime interpretation of the same contract text on the REAL functions (CPython cross-check of
the contracts and the encoding; counterexample search for obligations that stop discharging).

`Monitor(contracts)` monkey-patches the real function objects named by the contracts with wrappers
that evaluate `requires` / `ensures` / `raises` concretely around every call made while a workload
runs.  Clause text is evaluated with Python's `eval` over the real argument objects; quantifiers
range over all integers from -2 to (largest container size in scope + 2), which is exhaustive for
the range-guarded clauses used in the contracts.
"""
from __future__ import annotations

import copy
import functools
import importlib
import inspect
import itertools
import traceback


class SpecEvalError(Exception):
    pass


class _Snap:
    """entry-state snapshot of a receiver's attributes"""


def _sizes(env):
    m = 0
    for v in env.values():
        try:
            if isinstance(v, _Snap) or (hasattr(v, "__dict__") and not isinstance(v, (list, tuple, dict, set, str))):
                for av in vars(v).values():
                    if isinstance(av, (list, tuple, dict, set)):
                        m = max(m, len(av) + 1)
                        for x in list(av)[:50]:
                            if isinstance(x, (list, tuple, dict, set)):
                                m = max(m, len(x) + 1)
            elif isinstance(v, (list, tuple, dict, set)):
                m = max(m, len(v))
                for x in list(v)[:50]:
                    if isinstance(x, (list, tuple, dict, set)):
                        m = max(m, len(x))
                    if isinstance(x, tuple):
                        for y in x:
                            if isinstance(y, (list, tuple, dict, set)):
                                m = max(m, len(y))
            elif isinstance(v, str):
                m = max(m, len(v))
        except Exception:
            pass
    return min(m, 40)


class _Ns(dict):
    pass


class _Sort:
    def __init__(self, name):
        self.name = name


def _atoms(env):
    """universe for sort-typed quantifiers: every hashable atom reachable from the values in scope"""
    out = []
    seen = set()

    def add(x, depth=0):
        if depth > 4:
            return
        if isinstance(x, _Snap) or (hasattr(x, "__dict__") and not isinstance(x, (list, tuple, dict, set, str, type)) and not callable(x)):
            for av in list(vars(x).values()):
                if isinstance(av, (list, tuple, dict, set)):
                    add(av, depth + 1)
            if isinstance(x, _Snap):
                return
        if isinstance(x, dict):
            for k, v in list(x.items()):
                add(k, depth + 1)
                add(v, depth + 1)
            return
        if isinstance(x, (list, tuple, set, frozenset)):
            for y in list(x)[:200]:
                add(y, depth + 1)
            return
        try:
            if x not in seen:
                seen.add(x)
                out.append(x)
        except TypeError:
            pass

    for v in env.values():
        if not callable(v) or isinstance(v, _Snap):
            add(v)
    return out[:400]


class NotEvaluable(Exception):
    pass


def spec_namespace(env, extra=None):
    bound = _sizes(env) + 2
    universe = None

    def _range_for(lam):
        nonlocal universe
        doms = []
        for p in inspect.signature(lam).parameters.values():
            if isinstance(p.default, _Sort):
                if universe is None:
                    universe = _atoms(env) + [object()]
                doms.append(universe)
            else:
                doms.append(range(-2, bound + 1))
        return itertools.product(*doms)

    def forall(lam, trigger=None):
        for xs in _range_for(lam):
            try:
                if not lam(*xs):
                    return False
            except (IndexError, KeyError):
                # partial operation outside its guard: clause bodies are guarded by implies(); an
                # exception under a false guard cannot happen because implies() is lazy below
                raise
        return True

    def exists(lam, trigger=None):
        typed = any(isinstance(p.default, _Sort) for p in inspect.signature(lam).parameters.values())
        for xs in _range_for(lam):
            try:
                if lam(*xs):
                    return True
            except (IndexError, KeyError, AttributeError):
                continue
        if typed:
            # no witness among the values that occur in the call: the finite universe of a sort-typed variable (strings, objects) is not the
            # sort, so this says nothing - the clause is "not evaluable" on this call, not false
            raise NotEvaluable("existential over a sort: no witness among the values of this call")
        return False

    def _eq(a, b):
        """== of the clause language on concrete values: exact, except floats/arrays (A-float: 1e-9 relative tolerance)"""
        try:
            import numpy as _np

            if isinstance(a, (float, _np.floating, _np.ndarray)) or isinstance(b, (float, _np.floating, _np.ndarray)):
                aa, bb = _np.asarray(a, dtype=float), _np.asarray(b, dtype=float)
                if aa.shape != bb.shape:
                    return False
                scale_ = max(1.0, float(_np.nanmax(_np.abs(aa))) if aa.size else 1.0, float(_np.nanmax(_np.abs(bb))) if bb.size else 1.0)
                return bool(_np.allclose(aa, bb, rtol=1e-9, atol=1e-9 * scale_, equal_nan=True))
        except (TypeError, ValueError):
            pass
        r = a == b
        try:
            return bool(r)
        except (TypeError, ValueError):
            return bool(getattr(r, "all", lambda: r)())

    ns = _Ns()
    ns["_eq"] = _eq
    ns.update({
        "forall": forall, "exists": exists,
        "implies": lambda a, b: (not a) or b,
        "iff": lambda a, b: bool(a) == bool(b),
        "keys": lambda d: list(d),
        "distinct": lambda s: len(list(s)) == len(set(list(s))),
        "ite": lambda c, a, b: a if c else b,
    })
    ns.update(env)
    if extra:
        ns.update(extra)
    return ns


import ast as _ast


class _Lazify(_ast.NodeTransformer):
    """implies(a, b) -> ((not a) or b), ite(c, a, b) -> (a if c else b): python evaluates call arguments eagerly,
    the clause language does not."""

    def visit_Compare(self, node):
        self.generic_visit(node)
        if len(node.ops) == 1 and isinstance(node.ops[0], (_ast.Eq, _ast.NotEq)):
            call = _ast.Call(func=_ast.Name(id="_eq", ctx=_ast.Load()), args=[node.left, node.comparators[0]], keywords=[])
            return call if isinstance(node.ops[0], _ast.Eq) else _ast.UnaryOp(op=_ast.Not(), operand=call)
        return node

    def visit_Call(self, node):
        self.generic_visit(node)
        if isinstance(node.func, _ast.Name) and node.func.id == "implies" and len(node.args) == 2:
            return _ast.BoolOp(op=_ast.Or(), values=[_ast.UnaryOp(op=_ast.Not(), operand=node.args[0]), node.args[1]])
        if isinstance(node.func, _ast.Name) and node.func.id == "ite" and len(node.args) == 3:
            return _ast.IfExp(test=node.args[0], body=node.args[1], orelse=node.args[2])
        return node


@functools.lru_cache(maxsize=4096)
def _sort_names(text):
    out = []
    for node in _ast.walk(_ast.parse(text.strip(), mode="eval")):
        if isinstance(node, _ast.Lambda):
            for d in node.args.defaults:
                if isinstance(d, _ast.Name):
                    out.append(d.id)
    return tuple(out)


@functools.lru_cache(maxsize=4096)
def _compile(text):
    tree = _ast.parse(text.strip(), mode="eval")
    tree = _ast.fix_missing_locations(_Lazify().visit(tree))
    return compile(tree, "<clause>", "eval")


def eval_clause(text, env, extra=None):
    ns = spec_namespace(env, extra)
    ns["__builtins__"] = __builtins__
    for nm in _sort_names(text):
        ns.setdefault(nm, _Sort(nm))
    return eval(_compile(text), ns)  # single namespace: lambdas inside the clause must see it as globals


def conforms(value, spec):
    """Does the real argument fall inside the variant of the function that the contract models?"""
    from .types import TBool, TDict, TInt, TReal, TSeq, TSet, TStr, Ty, parse_ty
    from collections.abc import Mapping

    if isinstance(spec, dict) and spec.get("__class__") == "StrKeyDict":
        return isinstance(value, dict) and set(value) == set(spec) - {"__class__"}
    if isinstance(spec, dict):
        cls = spec.get("__class__")
        if cls and not isinstance(value, type):
            return cls in [k.__name__ for k in type(value).__mro__]
        return True
    ty = parse_ty(spec) if isinstance(spec, str) else spec
    if not isinstance(ty, Ty):
        return True
    if ty is TStr:
        return isinstance(value, str)
    if ty is TInt:
        return isinstance(value, int) and not isinstance(value, bool)
    if ty is TBool:
        return isinstance(value, bool)
    if ty is TReal:
        return isinstance(value, (int, float)) and not isinstance(value, bool)
    if isinstance(ty, TSeq):
        if ty.nodup:
            return not isinstance(value, (str, Mapping))
        from collections.abc import Sequence as _Seq

        return isinstance(value, _Seq) and not isinstance(value, str) and all(conforms(x, ty.elem) for x in list(value)[:20])
    if isinstance(ty, TDict):
        return isinstance(value, Mapping)
    if isinstance(ty, TSet):
        return isinstance(value, (set, frozenset))
    from .types import TEnum, TOpt
    import enum

    if isinstance(ty, TOpt):
        return value is None or conforms(value, ty.t)
    if isinstance(ty, TEnum):
        return isinstance(value, enum.Enum)
    from .types import TData, TObj

    if isinstance(ty, TData) and ty.name == "slice":
        return isinstance(value, slice)
    if isinstance(ty, TObj) and ty.name in ("Term", "Factor", "Token", "SimpleFormula", "StructuredFormula", "ModelSpec", "ModelSpecs", "ScopedTerm", "ScopedFactor"):
        return ty.name in [k.__name__ for k in type(value).__mro__]
    return True


# --------------------------------------------------------------------------- target resolution
def resolve(contract):
    """-> (owner object, attribute name, raw attribute (descriptor), python function)"""
    mod = importlib.import_module(contract.path[:-3].replace("/", "."))
    parts = contract.qual.split(".")
    if "<locals>" in parts:
        return None
    owner = mod
    for p in parts[:-1]:
        owner = getattr(owner, p)
    name = parts[-1]
    if name.startswith("__") and not name.endswith("__") and inspect.isclass(owner):
        name = f"_{owner.__name__}{name}"
    raw = inspect.getattr_static(owner, name)
    fn = raw
    disp = getattr(raw, "__wrapped__", None)
    if disp is not None and hasattr(disp, "registry") and object in disp.registry:
        return owner, name, ("singledispatch", disp), disp.registry[object]
    if isinstance(raw, property):
        fn = raw.fget
    elif isinstance(raw, functools.cached_property):
        fn = raw.func
    elif isinstance(raw, (staticmethod, classmethod)):
        fn = raw.__func__
    return owner, name, raw, fn


class Monitor:
    def __init__(self, contracts, max_failures=20, concrete_env=None):
        self.contracts = [c for c in contracts if c.path and not c.trusted and not getattr(c, "no_monitor", False)]
        self.failures = []
        self.stats = {}
        self.patched = []
        self.max_failures = max_failures
        self.concrete_env = concrete_env or {}
        self._depth = 0
        self._in_spec = False
        self.max_checked_calls = 4000        # per function under contract; later calls run unchecked (counted as beyond_cap)

    def __enter__(self):
        for c in self.contracts:
            r = resolve(c)
            if r is None:
                continue
            owner, name, raw, fn = r
            st = self.stats.setdefault(c.target + (f"[{c.label}]" if getattr(c, "label", None) else ""), dict(calls=0, pre_ok=0, post_checked=0, not_evaluable=0, raised=0))
            # (variants of one target wrap each other: each checks the calls that fall inside its own variant)
            for po, pn, praw in self.patched:
                if isinstance(po, tuple) and isinstance(raw, tuple) and po[1] is raw[1]:
                    fn = raw[1].registry[object]
            w = self._wrap(c, fn, st)
            if isinstance(raw, tuple) and raw[0] == "singledispatch":
                raw[1].register(object, w)
                self.patched.append((("singledispatch", raw[1]), name, fn))
                continue
            if isinstance(raw, property):
                new = property(w, raw.fset, raw.fdel)
            elif isinstance(raw, functools.cached_property):
                new = functools.cached_property(w)
                new.__set_name__(owner, name)
            elif isinstance(raw, staticmethod):
                new = staticmethod(w)
            elif isinstance(raw, classmethod):
                new = classmethod(w)
            else:
                new = w
            setattr(owner, name, new)
            self.patched.append((owner, name, raw))
        return self

    def __exit__(self, *a):
        for owner, name, raw in reversed(self.patched):
            if isinstance(owner, tuple) and owner[0] == "singledispatch":
                owner[1].register(object, raw)
                continue
            setattr(owner, name, raw)
        self.patched = []
        return False

    def _fail(self, c, kind, clause, env, extra=""):
        if len(self.failures) < self.max_failures:
            args = {}
            for k, v in env.items():
                if k.startswith("old_") or k == "result":
                    continue
                try:
                    args[k] = repr(v)[:300]
                except Exception:
                    args[k] = "<unreprable>"
            self.failures.append(dict(function=c.target, kind=kind, clause=clause, args=args, extra=str(extra)[:500],
                                      result=repr(env.get("result"))[:300] if "result" in env else None))

    def _wrap(self, c, fn, st):
        sig = inspect.signature(fn)
        is_gen = inspect.isgeneratorfunction(fn)
        mon = self
        extra = dict(self.concrete_env)
        extra.update(getattr(c, "concrete_env", {}) or {})

        _ev = globals()["eval_clause"]

        def eval_clause(text, env, extra=None):
            prev = mon._in_spec
            mon._in_spec = True
            try:
                return _ev(text, env, extra)
            finally:
                mon._in_spec = prev

        @functools.wraps(fn)
        def wrapper(*args, **kwargs):
            if mon._depth > 0 and getattr(c, "no_reentrant", False):
                return fn(*args, **kwargs)
            if mon._in_spec:
                return fn(*args, **kwargs)      # a call made BY a clause under evaluation (e.g. `x in terms` -> Term.__eq__) is not a workload call
            st["calls"] += 1
            if st["pre_ok"] >= mon.max_checked_calls:
                st["beyond_cap"] = st.get("beyond_cap", 0) + 1
                return fn(*args, **kwargs)
            try:
                b = sig.bind(*args, **kwargs)
                b.apply_defaults()
                env = dict(b.arguments)
            except TypeError:
                return fn(*args, **kwargs)
            if not all(conforms(env[k], spec) for k, spec in c.params.items() if k in env):
                st["other_variant"] = st.get("other_variant", 0) + 1
                return fn(*args, **kwargs)
            for k in list(env):
                v = env[k]
                if isinstance(v, (dict, list, set)):
                    env["old_" + k] = copy.copy(v)
                elif isinstance(c.params.get(k), dict) and (hasattr(v, "__dict__") or hasattr(type(v), "__slots__")):
                    # receiver modelled as a mutable object: snapshot its attributes (no __getattr__ games)
                    snap = _Snap()
                    items = list(vars(v).items()) if hasattr(v, "__dict__") else []
                    for klass in type(v).__mro__:
                        for a in getattr(klass, "__slots__", ()):
                            try:
                                items.append((a, object.__getattribute__(v, a)))
                            except AttributeError:
                                pass
                    for a, av in items:
                        snap.__dict__[a] = copy.copy(av) if isinstance(av, (dict, list, set)) else av
                    # contract attribute names that are properties over private slots (e.g. kind -> _kind)
                    for a in c.params[k]:
                        if a != "__class__" and a not in snap.__dict__:
                            try:
                                snap.__dict__[a] = getattr(v, a)
                            except Exception:
                                pass
                    env["old_" + k] = snap
                else:
                    env["old_" + k] = v
            try:
                for nm, text in c.lets.items():
                    env[nm] = eval_clause(text, env, extra)
                    if isinstance(env[nm], (dict, list, set)):
                        env[nm] = copy.copy(env[nm])      # entry-state value: the function may mutate the container in place
                    env["old_" + nm] = env[nm]
                pre = all(eval_clause(r, env, extra) for r in c.requires)
            except Exception as ex:
                st["not_evaluable"] += 1
                mon.last_eval_error = f"{c.target}: requires/lets: {type(ex).__name__}: {ex}"
                return fn(*args, **kwargs)
            if not pre:
                return fn(*args, **kwargs)
            st["pre_ok"] += 1
            mon._depth += 1
            try:
                result = fn(*args, **kwargs)
                if is_gen:
                    result = list(result)
            except Exception as e:
                mon._depth -= 1
                st["raised"] += 1
                exc = type(e).__name__
                mro = [k.__name__ for k in type(e).__mro__]
                allowed = [x for x in c.raises if x in mro]
                if not allowed:
                    mon._fail(c, "raises", f"{exc} escapes; declared raises: {sorted(c.raises)}", env, e)
                else:
                    cond = c.raises[allowed[0]]
                    if cond is not None:
                        try:
                            old_env = {k[4:]: v for k, v in env.items() if k.startswith("old_")}
                            if not eval_clause(cond, old_env, extra):
                                mon._fail(c, "raises.when", cond, env, e)
                        except Exception:
                            st["not_evaluable"] += 1
                raise
            mon._depth -= 1
            env["result"] = result
            # declared raise conditions must not hold when returning normally
            for exc, cond in c.raises.items():
                if cond is None:
                    continue
                try:
                    old_env = {k[4:]: v for k, v in env.items() if k.startswith("old_")}
                    if eval_clause(cond, old_env, extra):
                        mon._fail(c, "raises.iff", f"returned normally although ({cond}) held at entry [{exc}]", env)
                except Exception:
                    st["not_evaluable"] += 1
            for e in c.ensures:
                try:
                    ok = eval_clause(e, env, extra)
                except Exception as ex:
                    st["not_evaluable"] += 1
                    mon.last_eval_error = f"{c.target}: {e}: {type(ex).__name__}: {ex}"
                    continue
                st["post_checked"] += 1
                if not ok:
                    mon._fail(c, "post", e, env)
            return iter(result) if is_gen else result

        return wrapper
