"""pyvc: verification-condition generation by symbolic execution of the real Python AST.

The function's source is re-read from /repo on every run (`frontend.load_function`), executed
path by path over z3 terms; callees are replaced by their contracts; every partial operation,
callee precondition, loop invariant, postcondition and raise site yields an obligation
(hypotheses => goal) that `solve.py` discharges with z3 / cvc5.  See DESIGN.md §2.2–2.3.
"""
from __future__ import annotations

import ast
import itertools

import z3

from . import seqs as SQ

from .types import (TKSet, TData, TSLICE, MObj, TBool, TDict, TEnum, TInt, TNone, TObj, TOpt, TPy, TReal, TRec, TSeq, TSet, TStr, TTup, Ty,
                    V, parse_ty)


class OutOfSubset(Exception):
    def __init__(self, node, why):
        self.node, self.why = node, why
        super().__init__(f"out-of-subset at line {getattr(node, 'lineno', '?')}: {why}")


class NeedSplit(Exception):
    def __init__(self, cond):
        self.cond = cond


class PyRaise(Exception):
    """The symbolic program raises `exc` (class name) at `node`."""

    def __init__(self, exc, node, msg=None, st=None):
        self.exc, self.node, self.msg, self.st = exc, node, msg, st


class Closure:
    def __init__(self, node, env, name="<lambda>"):
        self.node, self.env, self.name = node, env, name


class PyConst:
    """Python-level constant the engine does not interpret further (module, class, function)."""

    def __init__(self, name, value=None):
        self.name, self.value = name, value

    def __repr__(self):
        return f"PyConst({self.name})"


class Obligation:
    def __init__(self, oid, kind, hyps, goal, line, note=""):
        self.id, self.kind, self.hyps, self.goal, self.line, self.note = oid, kind, list(hyps), goal, line, note
        self.expect_sat = False  # cover obligations: satisfiable is the good outcome


class State:
    def __init__(self):
        self.env = {}
        self.pc = []
        self.guards = []  # transient guards while evaluating short-circuit expressions
        self.decisions = {}
        self.fresh_n = 0
        self.yielded = None  # ghost output sequence of a generator

    def fork(self):
        s = State()
        s.env = {k: (v.copy() if isinstance(v, MObj) else v) for k, v in self.env.items()}
        s.pc = list(self.pc)
        s.guards = list(self.guards)
        s.decisions = dict(self.decisions)
        s.fresh_n = self.fresh_n
        s.yielded = self.yielded
        return s

    def assume(self, c):
        if c is None:
            return
        c = z3.simplify(c) if z3.is_expr(c) else c
        if z3.is_true(c):
            return
        self.pc.append(c)

    def hyps(self):
        return self.pc + self.guards


BIN_ARITH = {ast.Add: "+", ast.Sub: "-", ast.Mult: "*", ast.FloorDiv: "//", ast.Mod: "%", ast.Div: "/", ast.Pow: "**",
             ast.BitOr: "|", ast.BitAnd: "&"}


def lift(x):
    if isinstance(x, bool):
        return V(TBool, z3.BoolVal(x))
    if isinstance(x, int):
        return V(TInt, z3.IntVal(x))
    if isinstance(x, float):
        return V(TReal, z3.RealVal(repr(x)))
    if isinstance(x, str):
        return V(TStr, z3.StringVal(x))
    if x is None:
        return V(TNone, None)
    return x


def is_none(v):
    return isinstance(v, V) and v.ty is TNone


_READS_KW = {}


def _reads_kwargs(f):
    """does the python function f(eng, args, kw, n, st) ever read its third parameter?"""
    code = getattr(f, "__code__", None)
    if code is None or code.co_argcount < 3:
        return True
    if code not in _READS_KW:
        import dis

        name = code.co_varnames[2]
        _READS_KW[code] = name in code.co_cellvars or any(i.argval == name and i.opname.startswith("LOAD") for i in dis.get_instructions(code))
    return _READS_KW[code]


def _mul_axioms():
    f = z3.Function("real!mul", z3.RealSort(), z3.RealSort(), z3.RealSort())
    a, b = z3.Reals("rm!a rm!b")
    return [z3.ForAll([a, b], f(a, b) == f(b, a), patterns=[f(a, b)]),
            z3.ForAll([b], f(0, b) == 0, patterns=[f(0, b)]), z3.ForAll([b], f(1, b) == b, patterns=[f(1, b)]),
            z3.ForAll([a], f(a, 0) == 0, patterns=[f(a, 0)]), z3.ForAll([a], f(a, 1) == a, patterns=[f(a, 1)])]


class Engine:
    def __init__(self, contract, registry, fnode, src_info, verbose=False):
        self.c = contract
        self.reg = registry
        self.fn = fnode
        self.src = src_info
        self.obls = []
        self.axioms = list(contract.axioms_z3())
        self.notes = []
        self.verbose = verbose
        self._ord = {}
        self._ordn = itertools.count()
        for n in ast.walk(fnode):
            self._ord[id(n)] = next(self._ordn)
        self.loop_ordinals = {}
        k = 0
        for n in ast.walk(fnode):
            if isinstance(n, (ast.For, ast.While)):
                self.loop_ordinals[id(n)] = k
                k += 1
        self.npaths = 0
        self._feas_cache = {}
        self._axiom_keys = set()
        self._nonneg = set()
        self.flat_ordinals = {}
        fk = 0
        for n in ast.walk(fnode):
            if isinstance(n, (ast.ListComp, ast.GeneratorExp)) and len(n.generators) == 2:
                self.flat_ordinals[id(n)] = fk
                fk += 1

    # ------------------------------------------------------------------ utils
    def fresh(self, st, ty, hint="v"):
        st.fresh_n += 1
        name = f"{hint}!{st.fresh_n}"
        if isinstance(ty, TTup):
            return tuple(self.fresh(st, t, f"{hint}.{i}") for i, t in enumerate(ty.elems))
        if ty is TNone:
            return V(TNone, None)
        if self._comp_ctx:
            idxs = [c[0] for c in self._comp_ctx]
            fn = z3.Function(name, *([z3.IntSort()] * len(idxs)), ty.sort())
            v = V(ty, fn(*idxs))
        else:
            v = V(ty, z3.Const(name, ty.sort()))
        inv = self.type_inv(v)
        if inv is not None:
            st.assume(inv)
        return v

    def fresh_like(self, st, val, hint="h"):
        if isinstance(val, V):
            return self.fresh(st, val.ty, hint)
        if isinstance(val, tuple):
            return tuple(self.fresh_like(st, x, hint) for x in val)
        if isinstance(val, MObj):
            return MObj(val.cls, {k: self.fresh_like(st, a, f"{hint}.{k}") for k, a in val.attrs.items()})
        return val

    def type_inv(self, v):
        """Representation invariants of the encoding (dict keys distinct, nodup sequences)."""
        ty = v.ty
        if isinstance(ty, TDict):
            return self.distinct(ty.sort().keys(v.t))
        if isinstance(ty, TSeq) and ty.nodup:
            return self.distinct(v.t)
        return None

    def distinct(self, seq):
        i, j = z3.Ints("di!0 dj!0")
        return z3.ForAll([i, j], z3.Implies(z3.And(0 <= i, i < j, j < SQ.length(seq)), SQ.at(seq, i) != SQ.at(seq, j)))

    def is_nonneg(self, t):
        """syntactic non-negativity (loop / comprehension indices, lengths, literals and their sums)"""
        t = z3.simplify(t)
        if z3.is_int_value(t):
            return t.as_long() >= 0
        if t.get_id() in self._nonneg:
            return True
        if z3.is_app(t):
            nm = t.decl().name()
            if nm.endswith(".len") or nm == "str.len":
                return True
            if t.decl().kind() == z3.Z3_OP_ADD:
                return all(self.is_nonneg(c) for c in t.children())
        return False

    def uses_axioms(self, fn, *args):
        key = (fn.__name__,) + tuple(repr(a) for a in args)
        if key not in self._axiom_keys:
            self._axiom_keys.add(key)
            self.axioms.extend(fn(*args))

    def site(self, node):
        return self._ord.get(id(node), -1)

    def oblige(self, st, kind, node, goal, note=""):
        goal = z3.simplify(goal) if z3.is_expr(goal) else z3.BoolVal(bool(goal))
        if z3.is_true(goal):
            # still recorded (trivially discharged) so the ledger sees the site
            pass
        oid = f"{kind}@{self.site(node)}"
        self.obls.append(Obligation(oid, kind, st.hyps(), goal, getattr(node, "lineno", 0), note))

    def require(self, st, kind, node, cond, exc=None, note=""):
        """A partial operation: `cond` must hold or `exc` is raised. If the contract allows
        `exc` to escape (or an enclosing try handles it), fork instead of obliging."""
        cond = z3.simplify(cond)
        if z3.is_true(cond) or self.spec_mode:
            return
        if kind == "safe.key" and self.c.strict_lookup:
            exc = None  # lookups on supplied mappings must be guarded by membership: their behaviour on absent keys is unspecified
        if exc is not None and (exc in self.c.raises or exc in self._handled):
            if st.guards:
                raise OutOfSubset(node, "raising operation under a short-circuit guard")
            if self._comp_ctx:
                # inside a comprehension body evaluated at arbitrary indices: split on the universal statement
                idxs = [c[0] for c in self._comp_ctx]
                rng = z3.And(*[c[1] for c in self._comp_ctx])
                outer = self._comp_ctx[0][2]
                local = [h for h in st.pc if not any(h.eq(o) for o in outer.pc)]
                univ = z3.ForAll(idxs, z3.Implies(z3.And(*local) if local else z3.BoolVal(True), cond))
                if self.branch(outer, univ):
                    st.assume(cond)
                    return
                bad = st.fork()
                bad.assume(z3.Not(cond))
                raise PyRaise(exc, node, st=bad)
            if not self.branch(st, cond):
                raise PyRaise(exc, node, st=st)
            return
        self.oblige(st, kind, node, cond, note)
        st.assume(z3.Implies(z3.And(*st.guards), cond) if st.guards else cond)

    def branch(self, st, cond):
        cond = z3.simplify(cond)
        if z3.is_true(cond):
            return True
        if z3.is_false(cond):
            return False
        key = cond.sexpr()
        if key in st.decisions:
            return st.decisions[key]
        if st.guards:
            raise OutOfSubset(None, "path split under a short-circuit guard")
        raise NeedSplit(cond)

    def feasible(self, st):
        if not st.pc:
            return True
        # cheap pruning only (quantifier-free part of the path condition, 300 ms): an unpruned infeasible path just
        # yields obligations with contradictory hypotheses
        s = z3.Solver()
        s.set("timeout", 300)
        for h in st.pc:
            if not z3.is_quantifier(h) and "ForAll" not in h.sexpr()[:0]:
                s.add(h)
        return s.check() != z3.unsat

    # ------------------------------------------------------------ truthiness
    def truthy(self, v, node=None):
        if isinstance(v, V):
            ty = v.ty
            if ty is TBool:
                return v.t
            if ty is TInt or ty is TReal:
                return v.t != 0
            if ty is TStr or isinstance(ty, TSeq):
                return SQ.length(v.t) > 0
            if isinstance(ty, TDict):
                return SQ.length(ty.sort().keys(v.t)) > 0
            if isinstance(ty, TSet):
                return v.t != z3.EmptySet(ty.elem.sort())
            if ty is TNone:
                return z3.BoolVal(False)
            if isinstance(ty, TOpt):
                inner = V(ty.t, ty.sort().v(v.t))
                return z3.And(ty.sort().is_some(v.t), self.truthy(inner, node))
            if isinstance(ty, TEnum):
                return z3.BoolVal(True)        # members of a plain Enum are truthy (enum.Enum defines neither __bool__ nor __len__)
            if isinstance(ty, TObj):
                tr = self.c.truthy_of.get(ty.name)
                if tr is None:
                    # an opaque object: its truth value is unknown (it may be an empty container or define __bool__/__len__) unless the
                    # contract says otherwise (truthy_of)
                    return z3.Function(f"truthy!{ty.name}", ty.sort(), z3.BoolSort())(v.t)
                if tr == "always":
                    return z3.BoolVal(True)
                return tr(v)
        if isinstance(v, tuple):
            return z3.BoolVal(len(v) > 0)
        if isinstance(v, MObj):
            k = self.reg.lookup_method(v.cls, "__bool__")
            if k is not None:
                return k(self, v)
            return z3.BoolVal(True)
        if isinstance(v, (Closure, PyConst)):
            return z3.BoolVal(True)
        raise OutOfSubset(node, f"truthiness of {v!r}")

    # ----------------------------------------------------------- expressions
    def ev(self, node, st):
        m = getattr(self, "ev_" + type(node).__name__, None)
        if m is None:
            raise OutOfSubset(node, f"expression {type(node).__name__}")
        return m(node, st)

    def ev_Constant(self, n, st):
        if isinstance(n.value, (bool, int, float, str)) or n.value is None:
            return lift(n.value)
        raise OutOfSubset(n, f"constant {n.value!r}")

    def ev_Name(self, n, st):
        if n.id in st.env:
            return st.env[n.id]
        g = self.c.globals.get(n.id)
        if g is not None:
            return g
        if n.id in self.reg.builtins:
            return PyConst(n.id)
        raise OutOfSubset(n, f"unbound name {n.id}")

    def mangle(self, attr):
        if attr.startswith("__") and not attr.endswith("__") and self.c.cls:
            return f"_{self.c.cls}{attr}"
        return attr

    def ev_Attribute(self, n, st):
        base = self.ev(n.value, st)
        attr = self.mangle(n.attr)
        return self.getattr(base, attr, n, st)

    def getattr(self, base, attr, n, st):
        if isinstance(base, MObj) and attr == "__dict__":
            return ("dictview", base)
        if isinstance(base, MObj) and base.cls == "StrKeyDict" and attr in ("get", "pop", "setdefault") and attr not in base.attrs:
            return self._skd_method(base, attr)
        if isinstance(base, tuple) and len(base) == 2 and base[0] == "dictview" and attr in ("get", "pop"):
            return self._skd_method(base[1], attr)
        if isinstance(base, MObj):
            if attr in base.attrs:
                return base.attrs[attr]
            k = self.reg.lookup_method(base.cls, attr)
            if k is not None:
                if getattr(k, "is_property", False):
                    return self.apply_contract(k, [base], {}, n, st)
                return ("bound", base, k)
            raise OutOfSubset(n, f"attribute {attr} of object {base.cls}")
        if isinstance(base, V) and isinstance(base.ty, TObj) and (base.ty.name, attr) in getattr(self.c, "heap_fields", {}):
            # a mutable attribute of an opaque object: read from the ghost heap field (an array object -> value) of the current state
            return V(self.c.heap_fields[(base.ty.name, attr)], z3.Select(st.env[f"$heap.{base.ty.name}.{attr}"].t, base.t))
        if isinstance(base, V):
            ty = base.ty
            if isinstance(ty, TRec) and attr in ty.fields:
                return self.wrap(ty.fields[attr], ty.field_fn(attr)(base.t))
            if isinstance(ty, TData) and attr in ty.fields:
                return V(ty.fields[attr], ty.get(base.t, attr))
            if isinstance(ty, TOpt):
                # attribute of an optional: must be some
                self.require(st, "safe.none", n, ty.sort().is_some(base.t), "AttributeError")
                return self.getattr(V(ty.t, ty.sort().v(base.t)), attr, n, st)
            if isinstance(ty, (TObj, TData, TRec, TEnum)):
                k = self.reg.lookup_method(ty.name, attr)
                if k is not None:
                    if getattr(k, "is_property", False):
                        if not hasattr(k, "requires"):
                            return k(self, [base], {}, n, st)
                        return self.apply_contract(k, [base], {}, n, st)
                    return ("bound", base, k)
            if ty is TNone:
                self.require(st, "safe.none", n, z3.BoolVal(False), "AttributeError")
            return ("method", base, attr)
        if isinstance(base, PyConst):
            full = f"{base.name}.{attr}"
            g = self.c.globals.get(full)
            if g is not None:
                return g
            return PyConst(full)
        raise OutOfSubset(n, f"attribute {attr} of {base!r}")

    def _skd_method(self, obj, meth):
        """d.get(k[, default]) / d.pop(k[, default]) on a dict with statically known string keys (or an object's __dict__)"""
        def call(eng, args, kw, n, st):
            key = eng.static_key(args[0], n)
            if key in obj.attrs:
                v = obj.attrs[key]
                if meth == "pop":
                    if eng.c.frame is not None and obj.cls == "StrKeyDict":
                        eng.oblige(st, "frame", n, z3.BoolVal(key in eng.c.frame or "*" in eng.c.frame), f"removal of state key {key!r} outside modifies={sorted(eng.c.frame)}")
                    del obj.attrs[key]
                return v
            if meth == "setdefault":
                val = args[1] if len(args) > 1 else lift(None)
                if eng.c.frame is not None and obj.cls == "StrKeyDict":
                    eng.oblige(st, "frame", n, z3.BoolVal(key in eng.c.frame or "*" in eng.c.frame), f"store to state key {key!r} outside modifies={sorted(eng.c.frame)}")
                obj.attrs[key] = val
                return val
            if len(args) > 1:
                return args[1]
            if meth == "pop":
                eng.require(st, "safe.key", n, z3.BoolVal(False), "KeyError")
            return lift(None)

        return call

    def wrap(self, ty, term):
        return V(ty, term)

    def ev_test(self, n, st):
        """truth value of an expression in a boolean context (if / while / conditional-expression test): `a and b` / `a or b` / `not a`
        combine the TRUTHINESS of their operands (short-circuit: later operands are evaluated under the guard of the earlier ones)"""
        if isinstance(n, ast.BoolOp):
            is_and = isinstance(n.op, ast.And)
            saved = len(st.guards)
            terms = []
            try:
                for sub in n.values:
                    t = self.ev_test(sub, st)
                    terms.append(t)
                    st.guards.append(t if is_and else z3.Not(t))
            finally:
                del st.guards[saved:]
            return z3.And(*terms) if is_and else z3.Or(*terms)
        if isinstance(n, ast.UnaryOp) and isinstance(n.op, ast.Not):
            return z3.Not(self.ev_test(n.operand, st))
        return self.truthy(self.ev(n, st), n)

    def ev_BoolOp(self, n, st):
        vals = []
        is_and = isinstance(n.op, ast.And)
        # pure boolean evaluation with guards when every operand is Bool-valued
        saved = len(st.guards)
        try:
            terms = []
            for sub in n.values:
                v = self.ev(sub, st)
                if not (isinstance(v, V) and v.ty is TBool):
                    raise _NotBool(v, len(terms))
                terms.append(v.t)
                st.guards.append(v.t if is_and else z3.Not(v.t))
            return V(TBool, z3.And(*terms) if is_and else z3.Or(*terms))
        except _NotBool:
            pass
        finally:
            del st.guards[saved:]
        # `a or b` / `a and b` with two operands whose types unify (same type, or T / Optional[T] / None): a conditional VALUE, no path split
        if len(n.values) == 2:
            r = self._boolop_value(n, st, is_and)
            if r is not None:
                return r
        # general python semantics: value of the deciding operand
        last = None
        for i, sub in enumerate(n.values):
            v = self.ev(sub, st)
            last = v
            if i == len(n.values) - 1:
                break
            t = self.branch(st, self.truthy(v, sub))
            if is_and and not t:
                return v
            if (not is_and) and t:
                return v
        return last

    def _boolop_value(self, n, st, is_and):
        a = self.ev(n.values[0], st)
        if not isinstance(a, V) or a.ty is TNone:
            return None
        try:
            ta = self.truthy(a, n.values[0])
        except OutOfSubset:
            return None
        saved = len(st.guards)
        st.guards.append(ta if is_and else z3.Not(ta))
        try:
            b = self.ev(n.values[1], st)
        finally:
            del st.guards[saved:]
        if not isinstance(b, V):
            return None
        first, second = a, b            # `a and b`: b if truthy(a) else a ;  `a or b`: a if truthy(a) else b
        def unify(x, y):
            if x.ty == y.ty and x.ty is not TNone:
                return x, y
            if isinstance(x.ty, TOpt) and x.ty.t == y.ty:
                return x, V(x.ty, x.ty.sort().some(y.t))
            if isinstance(y.ty, TOpt) and y.ty.t == x.ty:
                return V(y.ty, y.ty.sort().some(x.t)), y
            if isinstance(x.ty, TOpt) and y.ty is TNone:
                return x, V(x.ty, x.ty.sort().none)
            if isinstance(y.ty, TOpt) and x.ty is TNone:
                return V(y.ty, y.ty.sort().none), y
            if y.ty is TNone and not isinstance(x.ty, TOpt) and x.ty is not TNone:
                oty = TOpt(x.ty)
                return V(oty, oty.sort().some(x.t)), V(oty, oty.sort().none)
            return None
        u = unify(first, second)
        if u is None:
            return None
        x, y = u
        return V(x.ty, z3.If(ta, y.t, x.t) if is_and else z3.If(ta, x.t, y.t))

    def ev_UnaryOp(self, n, st):
        v = self.ev(n.operand, st)
        if isinstance(n.op, ast.Not):
            return V(TBool, z3.Not(self.truthy(v, n)))
        if isinstance(n.op, ast.USub) and isinstance(v, V) and v.ty in (TInt, TReal):
            return V(v.ty, -v.t)
        if isinstance(n.op, ast.USub) and isinstance(v, V):
            k = self.reg.lookup_method(v.ty.name, "__neg__")
            if k is not None:
                return self.apply_contract(k, [v], {}, n, st)
        raise OutOfSubset(n, "unary op")

    @staticmethod
    def _none_test(test):
        """`x is None` -> (x, True) ; `x is not None` -> (x, False) ; otherwise None"""
        if (isinstance(test, ast.Compare) and len(test.ops) == 1 and isinstance(test.left, ast.Name) and isinstance(test.comparators[0], ast.Constant)
                and test.comparators[0].value is None and isinstance(test.ops[0], (ast.Is, ast.IsNot))):
            return test.left.id, isinstance(test.ops[0], ast.Is)
        return None

    def _narrowed(self, st, name):
        """the value of optional local `name` on a branch where it is known not to be None"""
        v = st.env.get(name)
        if isinstance(v, V) and isinstance(v.ty, TOpt):
            return V(v.ty.t, v.ty.sort().v(v.t))
        return None

    def ev_IfExp(self, n, st):
        c = self.ev_test(n.test, st)
        c = z3.simplify(c)
        if z3.is_true(c):
            return self.ev(n.body, st)
        if z3.is_false(c):
            return self.ev(n.orelse, st)
        saved = len(st.guards)
        nt = self._none_test(n.test)
        narrowed = self._narrowed(st, nt[0]) if nt else None

        def branch_value(node, guard, narrow_here):
            st.guards.append(guard)
            old = st.env.get(nt[0]) if (narrow_here and narrowed is not None) else None
            if old is not None:
                st.env[nt[0]] = narrowed          # `x if x is not None else d`: x is not None on this branch
            try:
                return self.ev(node, st)
            finally:
                del st.guards[saved:]
                if old is not None:
                    st.env[nt[0]] = old

        a = branch_value(n.body, c, bool(nt) and not nt[1])
        b = branch_value(n.orelse, z3.Not(c), bool(nt) and nt[1])
        if isinstance(a, V) and isinstance(b, V) and a.ty == b.ty and a.ty is not TNone:
            return V(a.ty, z3.If(c, a.t, b.t))
        if isinstance(a, V) and isinstance(b, V) and isinstance(a.ty, TOpt) and a.ty.t == b.ty:
            return V(a.ty, z3.If(c, a.t, a.ty.sort().some(b.t)))
        if isinstance(a, V) and isinstance(b, V) and isinstance(b.ty, TOpt) and b.ty.t == a.ty:
            return V(b.ty, z3.If(c, b.ty.sort().some(a.t), b.t))
        if self.branch(st, c):
            return a
        return b

    def ev_Compare(self, n, st):
        left = self.ev(n.left, st)
        terms = []
        for op, rn in zip(n.ops, n.comparators):
            right = self.ev(rn, st)
            terms.append(self.compare(op, left, right, n, st))
            left = right
        return V(TBool, z3.And(*terms) if len(terms) > 1 else terms[0])

    def compare(self, op, a, b, n, st):
        if isinstance(op, (ast.Is, ast.IsNot)):
            r = self.identical(a, b, n)
            return r if isinstance(op, ast.Is) else z3.Not(r)
        if isinstance(op, (ast.In, ast.NotIn)):
            r = self.contains(b, a, n, st)
            return r if isinstance(op, ast.In) else z3.Not(r)
        if isinstance(op, (ast.Eq, ast.NotEq)):
            r = self.equal(a, b, n, st)
            return r if isinstance(op, ast.Eq) else z3.Not(r)
        if isinstance(a, V) and isinstance(a.ty, TOpt) and a.ty.t in (TInt, TReal):
            self.require(st, "safe.none", n, a.ty.sort().is_some(a.t), "TypeError")
            a = V(a.ty.t, a.ty.sort().v(a.t))
        if isinstance(b, V) and isinstance(b.ty, TOpt) and b.ty.t in (TInt, TReal):
            self.require(st, "safe.none", n, b.ty.sort().is_some(b.t), "TypeError")
            b = V(b.ty.t, b.ty.sort().v(b.t))
        if isinstance(a, V) and isinstance(b, V):
            if a.ty is TBool and b.ty is TBool:
                a, b = V(TInt, z3.If(a.t, 1, 0)), V(TInt, z3.If(b.t, 1, 0))
            if a.ty in (TInt, TReal) and b.ty in (TInt, TReal):
                x, y = a.t, b.t
                return {ast.Lt: x < y, ast.LtE: x <= y, ast.Gt: x > y, ast.GtE: x >= y}[type(op)]
            k = self.reg.lookup_method(getattr(a.ty, "name", ""), {ast.Lt: "__lt__", ast.LtE: "__le__", ast.Gt: "__gt__", ast.GtE: "__ge__"}[type(op)])
            if k is not None:
                r = self.apply_contract(k, [a, b], {}, n, st)
                return r.t
        raise OutOfSubset(n, f"comparison {type(op).__name__} on {a!r},{b!r}")

    def identical(self, a, b, n):
        if is_none(a) or is_none(b):
            other = b if is_none(a) else a
            if is_none(other):
                return z3.BoolVal(True)
            if isinstance(other, V) and isinstance(other.ty, TOpt):
                return other.ty.sort().is_none(other.t)
            return z3.BoolVal(False)
        if isinstance(a, V) and isinstance(b, V):
            for x, y in ((a, b), (b, a)):
                if isinstance(x.ty, TOpt) and isinstance(x.ty.t, TEnum) and x.ty.t == y.ty:
                    return z3.And(x.ty.sort().is_some(x.t), x.ty.sort().v(x.t) == y.t)
            if isinstance(a.ty, TEnum) and a.ty == b.ty:
                return a.t == b.t
            if a.ty is TBool and b.ty is TBool:
                return a.t == b.t
            if a.ty != b.ty and (isinstance(a.ty, TEnum) or isinstance(b.ty, TEnum)):
                return z3.BoolVal(False)  # e.g. str `is` Enum member: decided by sort
        if isinstance(a, PyConst) and isinstance(b, PyConst):
            return z3.BoolVal(a.name == b.name)
        if (isinstance(a, PyConst) and isinstance(b, (V, MObj))) or (isinstance(b, PyConst) and isinstance(a, (V, MObj))):
            return z3.BoolVal(False)   # a typed value of the model is never a module-level sentinel object (MISSING, UNSET, ...)
        raise OutOfSubset(n, "identity test other than None/enum/bool")

    def equal(self, a, b, n, st):
        for x, y in ((a, b), (b, a)):
            if isinstance(x, tuple) and x and isinstance(x[0], str) and x[0] in ("emptyset", "emptylist", "emptydict") and isinstance(y, V):
                if isinstance(y.ty, TSet):
                    return y.t == z3.EmptySet(y.ty.elem.sort())
                if isinstance(y.ty, TSeq):
                    return SQ.length(y.t) == 0
                if isinstance(y.ty, TDict):
                    return SQ.length(y.ty.sort().keys(y.t)) == 0
        if isinstance(a, tuple) and isinstance(b, tuple) and a and b and isinstance(a[0], str) and isinstance(b[0], str):
            return z3.BoolVal(a[0] == b[0])
        if isinstance(a, tuple) and isinstance(b, tuple):
            if len(a) != len(b):
                return z3.BoolVal(False)
            return z3.And(*[self.equal(x, y, n, st) for x, y in zip(a, b)]) if a else z3.BoolVal(True)
        if is_none(a) or is_none(b):
            return self.identical(a, b, n)
        if isinstance(a, V) and isinstance(b, V):
            if a.ty is TInt and b.ty is TReal:
                return z3.ToReal(a.t) == b.t
            if a.ty is TReal and b.ty is TInt:
                return a.t == z3.ToReal(b.t)
            if isinstance(a.ty, TOpt) and not isinstance(b.ty, TOpt):
                return z3.And(a.ty.sort().is_some(a.t), self.equal(V(a.ty.t, a.ty.sort().v(a.t)), b, n, st))
            if isinstance(b.ty, TOpt) and not isinstance(a.ty, TOpt):
                return self.equal(b, a, n, st)
            for x, y in ((a, b), (b, a)):
                hook = self.reg.lookup_method(getattr(x.ty, "name", ""), "__eq_other__")
                if hook is not None and x.t.sort() != y.t.sort():
                    return hook(self, x, y, n, st)
            if a.t.sort() == b.t.sort() and isinstance(a.ty, TSeq):
                return SQ.eq(a.t, b.t)
            if a.t.sort() == b.t.sort():
                eqk = self.reg.lookup_method(getattr(a.ty, "name", ""), "__eq__")
                if eqk is not None and not eqk.structural_eq:
                    return self.apply_contract(eqk, [a, b], {}, n, st).t
                return a.t == b.t
            return z3.BoolVal(False) if self.c.strict_sorts else self._oos(n, f"== across sorts {a.ty} / {b.ty}")
        if isinstance(a, tuple) and isinstance(b, V) and isinstance(b.ty, TTup):
            return self.equal(a, self.untup(b), n, st)
        if isinstance(a, tuple) and isinstance(b, V) and isinstance(b.ty, TSeq):
            return z3.And(SQ.length(b.t) == len(a), *[self.equal(x, V(b.ty.elem, SQ.at(b.t, i)), n, st) for i, x in enumerate(a)])
        if isinstance(b, tuple) and isinstance(a, V):
            return self.equal(b, a, n, st)
        for x, y in ((a, b), (b, a)):
            if isinstance(x, V) and isinstance(y, PyConst):
                hook = self.reg.lookup_method(getattr(x.ty, "name", ""), "__eq_other__")      # e.g. `values.dtype == object`
                if hook is not None:
                    return hook(self, x, y, n, st)
        raise OutOfSubset(n, f"== on {a!r} / {b!r}")

    def _oos(self, n, why):
        raise OutOfSubset(n, why)

    def static_key(self, x, n):
        t = z3.simplify(x.t) if isinstance(x, V) and x.ty is TStr else None
        if t is None or not z3.is_string_value(t):
            raise OutOfSubset(n, "dict with statically known string keys indexed by a non-literal key")
        return t.as_string()

    def contains(self, cont, x, n, st):
        if isinstance(cont, tuple) and cont and cont[0] == "dictview":
            return z3.BoolVal(self.static_key(x, n) in cont[1].attrs)
        if isinstance(cont, MObj) and cont.cls == "StrKeyDict":
            return z3.BoolVal(self.static_key(x, n) in cont.attrs)
        if isinstance(cont, tuple) and cont and isinstance(cont[0], str) and cont[0] in ("emptydict", "emptylist", "emptyset"):
            return z3.BoolVal(False)
        if isinstance(cont, tuple):
            return z3.Or(*[self.equal(x, y, n, st) for y in cont]) if cont else z3.BoolVal(False)
        if isinstance(cont, MObj):
            k = self.reg.lookup_method(cont.cls, "__contains__")
            if k is not None:
                return self.apply_contract(k, [cont, x], {}, n, st).t
        if isinstance(cont, V):
            ty = cont.ty
            if ty is TStr:
                return SQ.has(cont.t, x.t)
            if isinstance(ty, TSeq):
                return SQ.has(cont.t, self.coerce(x, ty.elem, n).t)
            if isinstance(ty, TKSet):
                return SQ.has(ty.sort().keys(cont.t), ty.rec.get(x.t, ty.keyfield))
            if isinstance(ty, TDict):
                return SQ.has(ty.sort().keys(cont.t), self.coerce(x, ty.k, n).t)
            if isinstance(ty, TSet):
                return z3.IsMember(self.coerce(x, ty.elem, n).t, cont.t)
            if isinstance(ty, TObj):
                k = self.reg.lookup_method(ty.name, "__contains__")
                if k is not None:
                    return self.apply_contract(k, [cont, x], {}, n, st).t
        raise OutOfSubset(n, f"`in` on {cont!r}")

    def coerce(self, v, ty, n=None):
        """Embed v into type ty (tuples into datatypes, values into options, ints into reals)."""
        if isinstance(v, tuple) and v and isinstance(v[0], str) and v[0] in ("emptyset", "emptylist", "emptydict"):
            return self.empty_of(ty)
        if isinstance(v, V):
            if v.ty == ty or (isinstance(v.ty, TSeq) and isinstance(ty, TSeq) and v.ty.elem == ty.elem):
                return V(ty, v.t)
            if isinstance(ty, TOpt):
                if v.ty is TNone:
                    return V(ty, ty.sort().none)
                return V(ty, ty.sort().some(self.coerce(v, ty.t, n).t))
            if ty is TReal and v.ty is TInt:
                return V(TReal, z3.ToReal(v.t))
            if isinstance(v.ty, TOpt) and v.ty.t == ty:
                return V(ty, v.ty.sort().v(v.t))  # unwrapping: callers have established is_some (safe.none obligations at use sites)
            if isinstance(ty, TObj) and isinstance(v.ty, TObj) and ty.name == v.ty.name:
                return V(ty, v.t)
        if isinstance(v, tuple) and isinstance(ty, TTup):
            return V(ty, ty.sort().mk(*[self.coerce(x, t, n).t for x, t in zip(v, ty.elems)]))
        if isinstance(v, tuple) and isinstance(ty, TSeq):
            if not v:
                return V(ty, SQ.empty(ty.sort()))
            units = [SQ.unit(ty.sort(), self.coerce(x, ty.elem, n).t) for x in v]
            return V(ty, SQ.concat(*units) if len(units) > 1 else units[0])
        raise OutOfSubset(n, f"cannot embed {v!r} into {ty!r}")

    def untup(self, v):
        """Datatype tuple -> python-level tuple."""
        if isinstance(v, V) and isinstance(v.ty, TTup):
            s = v.ty.sort()
            return tuple(self.untup(V(t, s.accessor(0, i)(v.t))) for i, t in enumerate(v.ty.elems))
        return v

    def ev_BinOp(self, n, st):
        a = self.ev(n.left, st)
        b = self.ev(n.right, st)
        return self.binop(n.op, a, b, n, st)

    def binop(self, op, a, b, n, st):
        o = BIN_ARITH.get(type(op))
        for side in (0, 1):
            x = (a, b)[side]
            if isinstance(x, V) and isinstance(x.ty, TOpt):
                self.require(st, "safe.none", n, x.ty.sort().is_some(x.t), "TypeError")
                x = V(x.ty.t, x.ty.sort().v(x.t))
                a, b = (x, b) if side == 0 else (a, x)
        if isinstance(a, V) and isinstance(b, V):
            if a.ty in (TInt, TReal) and b.ty in (TInt, TReal):
                real = a.ty is TReal or b.ty is TReal
                x = z3.ToReal(a.t) if (real and a.ty is TInt) else a.t
                y = z3.ToReal(b.t) if (real and b.ty is TInt) else b.t
                rt = TReal if real else TInt
                if o == "+":
                    return V(rt, x + y)
                if o == "-":
                    return V(rt, x - y)
                if real and o in ("*", "/") and getattr(self.c, "abstract_nonlinear", False) and not (z3.is_rational_value(z3.simplify(x)) or z3.is_rational_value(z3.simplify(y))):
                    # products and quotients of two non-constant reals as uninterpreted operations (the clause language and the code go through the
                    # same symbols, so a proof by "same expression" stays in linear arithmetic + EUF); multiplication is declared commutative
                    f = z3.Function("real!mul" if o == "*" else "real!div", z3.RealSort(), z3.RealSort(), z3.RealSort())
                    if o == "/":
                        self.require(st, "safe.div", n, y != 0, "ZeroDivisionError")
                    else:
                        self.uses_axioms(_mul_axioms)
                    return V(TReal, f(x, y))
                if o == "*":
                    return V(rt, x * y)
                if o == "/":
                    self.require(st, "safe.div", n, y != 0, "ZeroDivisionError")
                    return V(TReal, (z3.ToReal(x) if not real else x) / (z3.ToReal(y) if not real else y))
                if o in ("//", "%") and not real:
                    self.require(st, "safe.div", n, y != 0, "ZeroDivisionError")
                    # python floor semantics == SMT-LIB div/mod for positive divisor; handle sign
                    q = z3.If(y > 0, x / y, -((-x) / (-y)) if False else (x / y))
                    if o == "//":
                        return V(TInt, z3.If(y > 0, x / y, (-x) / (-y)))
                    return V(TInt, z3.If(y > 0, x % y, -((-x) % (-y))))
            if o == "+" and a.ty is TStr and b.ty is TStr:
                return V(TStr, SQ.concat(a.t, b.t))
            if o == "+" and isinstance(a.ty, TSeq) and isinstance(b.ty, TSeq) and a.ty.elem == b.ty.elem:
                return V(TSeq(a.ty.elem), SQ.concat(a.t, b.t))
            if o == "*" and ((isinstance(a.ty, TSeq) and b.ty is TInt) or (a.ty is TInt and isinstance(b.ty, TSeq))):
                # list repetition: len = len(s) * max(k, 0), element i is s[i mod len(s)]
                sq, k = (a, b) if isinstance(a.ty, TSeq) else (b, a)
                r = self.fresh(st, TSeq(sq.ty.elem), "repeated")
                ls = SQ.length(sq.t)
                kk = z3.If(k.t < 0, z3.IntVal(0), k.t)
                st.assume(SQ.length(r.t) == ls * kk)
                i = z3.Int("rp!i")
                st.assume(z3.ForAll([i], z3.Implies(z3.And(0 <= i, i < SQ.length(r.t), ls > 0), SQ.at(r.t, i) == SQ.at(sq.t, i % ls)), patterns=[SQ.at(r.t, i)]))
                return r
            if isinstance(a.ty, TSet) and isinstance(b.ty, TSet):
                if o == "|":
                    return V(a.ty, z3.SetUnion(a.t, b.t))
                if o == "&":
                    return V(a.ty, z3.SetIntersect(a.t, b.t))
                if o == "-":
                    return V(a.ty, z3.SetDifference(a.t, b.t))
            if isinstance(a.ty, TSeq) and a.ty.nodup and o in ("-", "|"):
                from . import stdlib

                return stdlib.oset_sub(self, a, b, n, st) if o == "-" else stdlib.oset_or(self, a, b, n, st)
            dunder = {"+": "__add__", "-": "__sub__", "*": "__mul__", "/": "__truediv__", "|": "__or__", "&": "__and__"}.get(o)
            dunder = dunder or {"**": "__pow__"}.get(o)
            k = self.reg.lookup_method(getattr(a.ty, "name", ""), dunder) if dunder else None
            if k is not None and not hasattr(k, "requires"):
                return k(self, [a, b], {}, n, st)
            if k is None and isinstance(a.ty, TSeq) and a.ty.nodup and dunder:
                k = self.reg.lookup_method("OrderedSet", dunder)
            if k is not None:
                return self.apply_contract(k, [a, b], {}, n, st)
            rd = {"+": "__radd__", "*": "__rmul__", "-": "__rsub__"}.get(o)
            rk = self.reg.lookup_method(getattr(b.ty, "name", ""), rd) if rd else None
            if rk is not None and not hasattr(rk, "requires"):
                return rk(self, [b, a], {}, n, st)          # reflected operator of the right operand (scalar * vector)
        if isinstance(a, tuple) and isinstance(b, tuple) and o == "+":
            return a + b
        if isinstance(a, V) and isinstance(a.ty, TSeq) and a.ty.nodup and o in ("-", "|"):
            from . import stdlib

            return stdlib.oset_sub(self, a, b, n, st) if o == "-" else stdlib.oset_or(self, a, b, n, st)
        raise OutOfSubset(n, f"binop {o} on {a!r}, {b!r}")

    def ev_Tuple(self, n, st):
        out = []
        for e in n.elts:
            if isinstance(e, ast.Starred):
                v = self.ev(e.value, st)
                if isinstance(v, tuple):
                    out.extend(v)
                elif isinstance(v, V) and isinstance(v.ty, TSeq):
                    return self.ev_List(n, st)       # (*xs, y) over a symbolic sequence: a tuple of unknown length, modelled as a sequence
                else:
                    raise OutOfSubset(n, "starred symbolic sequence in tuple display")
            else:
                out.append(self.ev(e, st))
        return tuple(out)

    def ev_List(self, n, st):
        # list display: homogeneous symbolic sequence (supports *splat of sequences)
        parts = []
        elem = None
        for e in n.elts:
            if isinstance(e, ast.Starred):
                v = self.ev(e.value, st)
                if isinstance(v, tuple):
                    for x in v:
                        parts.append(("u", x))
                elif isinstance(v, V) and isinstance(v.ty, TSeq):
                    parts.append(("s", v))
                    elem = elem or v.ty.elem
                else:
                    raise OutOfSubset(n, "starred non-sequence")
            else:
                parts.append(("u", self.ev(e, st)))
        if not parts:
            return ("emptylist",)
        if elem is None:
            for k, v in parts:
                if k == "u":
                    elem = self.type_of(v, n)
                    break
        seqs = []
        for k, v in parts:
            if k == "u":
                seqs.append(SQ.unit(TSeq(elem).sort(), self.coerce(v, elem, n).t))
            else:
                seqs.append(v.t)
        return V(TSeq(elem), SQ.concat(*seqs) if len(seqs) > 1 else seqs[0])

    def type_of(self, v, n=None):
        if isinstance(v, V):
            return v.ty
        if isinstance(v, tuple):
            return TTup(*[self.type_of(x, n) for x in v])
        raise OutOfSubset(n, f"no symbolic type for {v!r}")

    def ev_Dict(self, n, st):
        if not n.keys:
            return ("emptydict",)
        if all(isinstance(k, ast.Constant) and isinstance(k.value, str) for k in n.keys):
            # a display with literal string keys: a dict with statically known keys (values of any type)
            return MObj("StrKeyDict", {k.value: self.ev(v, st) for k, v in zip(n.keys, n.values)})
        raise OutOfSubset(n, "non-empty dict display with computed keys")

    def keyed_for(self, ty):
        for ks in self.c.keyed.values():
            if ks.rec == ty:
                return ks
        return None

    def kset_comprehension(self, n, st, src, body_node, ifs, target):
        """{b(e) for e in S if c(e)} over a keyed set S: the body must preserve the key (obligation); the result keeps the
        keys whose element passes the filter and maps each to b's payload."""
        ty = src.ty
        s_ = ty.sort()
        st.fresh_n += 1
        kv = z3.Const(f"kk!{st.fresh_n}", ty.k.sort())
        inner = st.fork()
        inner.decisions = st.decisions
        keys = s_.keys(src.t)
        inner.assume(SQ.has(keys, kv))
        self.bind_target(target, V(ty.rec, ty.elem_at_key(src.t, kv)), inner, n)
        conds = [self.truthy(self.ev(c, inner), c) for c in ifs]
        b = self.ev(body_node, inner) if body_node is not None else inner.env[target.id]
        if not (isinstance(b, V) and b.ty == ty.rec):
            raise OutOfSubset(n, "comprehension over a keyed set whose body is not an element of the same kind")
        self.oblige(inner, "comp.key-preserving", n, ty.rec.get(b.t, ty.keyfield) == kv, "the body keeps the element's equality key")
        for h in [h for h in inner.pc if not any(h.eq(o) for o in st.pc)][1:]:
            st.assume(z3.ForAll([kv], z3.Implies(SQ.has(keys, kv), h)))
        res = self.fresh(st, ty, "kcomp")
        rk = s_.keys(res.t)
        keep = z3.And(SQ.has(keys, kv), *conds)
        st.assume(SQ.forall([kv], SQ.has(rk, kv) == keep, patterns=[SQ.has(rk, kv), SQ.has(keys, kv)]))
        st.assume(SQ.forall([kv], z3.Implies(keep, z3.Select(s_.val(res.t), kv) == ty.rec.get(b.t, ty.valfield)), patterns=[z3.Select(s_.val(res.t), kv)]))
        self.merge_fresh(st, inner)
        return res

    def ev_Set(self, n, st):
        vals = [self.ev(e, st) for e in n.elts]
        ty = self.type_of(vals[0], n)
        ks = self.keyed_for(ty)
        if ks is not None and len(vals) == 1:
            s_ = ks.sort()
            kk, vv = ks.rec.get(vals[0].t, ks.keyfield), ks.rec.get(vals[0].t, ks.valfield)
            return V(ks, s_.mk(SQ.unit(SQ.theory(ks.k.sort()).S, kk), z3.Store(z3.K(ks.k.sort(), self.default_of(ks.v)), kk, vv)))
        s = z3.EmptySet(ty.sort())
        for v in vals:
            s = z3.SetAdd(s, self.coerce(v, ty, n).t)
        return V(TSet(ty), s)

    def ev_JoinedStr(self, n, st):
        # f-string: the concatenation of its parts when every formatted value is a plain `str` (no conversion, no format spec); otherwise an
        # opaque string of unknown content (sub-expressions are still evaluated: safety obligations)
        parts, exact = [], True
        for v in n.values:
            if isinstance(v, ast.Constant) and isinstance(v.value, str):
                parts.append(z3.StringVal(v.value))
            elif isinstance(v, ast.FormattedValue):
                x = self.ev(v.value, st)
                if isinstance(x, V) and x.ty is TStr and v.conversion == -1 and v.format_spec is None:
                    parts.append(x.t)
                else:
                    exact = False
            else:
                exact = False
        if exact and parts:
            return V(TStr, z3.Concat(*parts) if len(parts) > 1 else parts[0])
        return self.fresh(st, TStr, "fstr")

    def ev_Lambda(self, n, st):
        return Closure(n, dict(st.env))

    def ev_Subscript(self, n, st):
        base = self.ev(n.value, st)
        if isinstance(n.slice, ast.Slice):
            return self.slice(base, n.slice, n, st)
        idx = self.ev(n.slice, st)
        return self.index(base, idx, n, st)

    def index(self, base, idx, n, st):
        if isinstance(base, tuple):
            i = self.concrete_int(idx, n)
            if not -len(base) <= i < len(base):
                self.require(st, "safe.index", n, z3.BoolVal(False), "IndexError")
            return base[i]
        if isinstance(base, MObj) and base.cls == "StrKeyDict":
            key = self.static_key(idx, n)
            if key not in base.attrs:
                self.require(st, "safe.key", n, z3.BoolVal(False), "KeyError")
            return base.attrs[key]
        if isinstance(base, MObj):
            k = self.reg.lookup_method(base.cls, "__getitem__")
            if k is not None:
                return self.apply_contract(k, [base, idx], {}, n, st)
        if isinstance(base, V):
            ty = base.ty
            if isinstance(ty, TRec) and ty.order and isinstance(idx, V) and idx.ty is TInt:
                i = self.concrete_int(idx, n)
                return self.getattr(base, ty.order[i], n, st)
            if ty is TStr or isinstance(ty, TSeq):
                ln = SQ.length(base.t)
                i = idx.t
                self.require(st, "safe.index", n, z3.And(-ln <= i, i < ln), "IndexError")
                pos = i if (self.spec_mode or self.is_nonneg(i)) else z3.simplify(z3.If(i < 0, ln + i, i))  # clause language: mathematical indices
                if ty is TStr:
                    return V(TStr, z3.SubString(base.t, pos, 1))
                return self.untup_lazy(V(ty.elem, SQ.at(base.t, pos)))
            if isinstance(ty, TKSet):
                kk = ty.rec.get(idx.t, ty.keyfield)
                self.require(st, "safe.key", n, SQ.has(ty.sort().keys(base.t), kk), "KeyError")
                return V(ty.rec, ty.elem_at_key(base.t, kk))
            if isinstance(ty, TDict):
                k = self.coerce(idx, ty.k, n)
                s = ty.sort()
                self.require(st, "safe.key", n, SQ.has(s.keys(base.t), k.t), "KeyError")
                return self.untup_lazy(V(ty.v, z3.Select(s.val(base.t), k.t)))
            if isinstance(ty, TTup):
                return self.index(self.untup(base), idx, n, st)
            hook = self.reg.lookup_method(getattr(ty, "name", ""), "__getitem__")
            if hook is not None and not hasattr(hook, "bind_args"):
                return hook(self, [base, idx], {}, n, st)       # natively modelled container type (e.g. a numpy vector)
            if isinstance(ty, TObj):
                k = self.reg.lookup_method(ty.name, "__getitem__")
                if k is not None:
                    return self.apply_contract(k, [base, idx], {}, n, st)
        raise OutOfSubset(n, f"subscript on {base!r}")

    def untup_lazy(self, v):
        return v

    def concrete_int(self, v, n):
        if isinstance(v, V) and v.ty is TInt:
            s = z3.simplify(v.t)
            if z3.is_int_value(s):
                return s.as_long()
        raise OutOfSubset(n, "symbolic index into a python-level tuple/record")

    def slice(self, base, sl, n, st):
        if sl.step is not None:
            raise OutOfSubset(n, "slice step")
        lo = self.ev(sl.lower, st) if sl.lower is not None else None
        hi = self.ev(sl.upper, st) if sl.upper is not None else None

        def _some(x, what):
            # an Optional operand of a slice: None is a TypeError for the sliced object, and `None` as a BOUND means "open" - a bound that may be
            # None at run time is outside the subset; in a clause the guarded value is meant
            if isinstance(x, V) and isinstance(x.ty, TOpt):
                if not self.spec_mode:
                    self.require(st, "safe.none", n, x.ty.sort().is_some(x.t), "TypeError" if what == "base" else None,
                                 "slice bound may be None (would silently mean an open bound)" if what != "base" else "")
                return V(x.ty.t, x.ty.sort().v(x.t))
            return x

        base, lo, hi = _some(base, "base"), _some(lo, "lo"), _some(hi, "hi")
        if isinstance(base, tuple):
            l = self.concrete_int(lo, n) if lo is not None else None
            h = self.concrete_int(hi, n) if hi is not None else None
            return base[l:h]
        if isinstance(base, V) and (base.ty is TStr or isinstance(base.ty, TSeq)):
            ln = SQ.length(base.t)

            def clamp(x):
                return z3.If(x < 0, z3.If(ln + x < 0, z3.IntVal(0), ln + x), z3.If(x > ln, ln, x))

            if self.spec_mode:
                clamp = lambda x: x  # clause language: slice bounds are in range
            l = clamp(lo.t) if lo is not None else z3.IntVal(0)
            h = clamp(hi.t) if hi is not None else ln
            if self.spec_mode:
                rty = TStr if base.ty is TStr else TSeq(base.ty.elem)
                body = SQ.take(base.t, h) if lo is None else SQ.extract(base.t, l, h - l)
                return V(rty, body)
            cnt = z3.If(h - l < 0, z3.IntVal(0), h - l)
            rty = TStr if base.ty is TStr else TSeq(base.ty.elem)
            return V(rty, z3.simplify(SQ.extract(base.t, l, cnt)))
        raise OutOfSubset(n, f"slice of {base!r}")

    # -------------------------------------------------------- comprehensions
    def ev_ListComp(self, n, st):
        return self.comprehension(n, st, "list")

    def ev_GeneratorExp(self, n, st):
        return self.comprehension(n, st, "list")

    def ev_SetComp(self, n, st):
        if len(n.generators) == 1 and isinstance(n.generators[0].target, ast.Name):
            src = self.ev(n.generators[0].iter, st)
            if isinstance(src, V) and isinstance(src.ty, TKSet):
                return self.kset_comprehension(n, st, src, n.elt, n.generators[0].ifs, n.generators[0].target)
        seq = self.comprehension(n, st, "list")
        return self.call_builtin("set", [seq], {}, n, st)

    def ev_DictComp(self, n, st):
        g = n.generators[0]
        if (len(n.generators) == 1 and isinstance(g.target, ast.Name) and not g.ifs and isinstance(n.key, ast.Name) and isinstance(n.value, ast.Name)
                and n.key.id == g.target.id == n.value.id):
            src = self.ev(g.iter, st)
            if isinstance(src, V) and isinstance(src.ty, TKSet):
                return src  # {e: e for e in S}: the identity map over a keyed set (lookup by an equal element returns S's element)
        return self.comprehension(n, st, "dict")

    def iter_view(self, it, n, st):
        """Normalise an iterable into (length term, element-at function, elem description)."""
        if isinstance(it, tuple) and it and it[0] == "enumerate":
            ln, at = self.iter_view(it[1], n, st)
            return ln, (lambda i: (V(TInt, i), at(i)))
        if isinstance(it, tuple) and it and it[0] == "items":
            d = it[1]
            s = d.ty.sort()
            ks = s.keys(d.t)
            return SQ.length(ks), (lambda i: (V(d.ty.k, SQ.at(ks, i)), V(d.ty.v, z3.Select(s.val(d.t), SQ.at(ks, i)))))
        if isinstance(it, tuple) and it and it[0] == "values":
            d = it[1]
            s = d.ty.sort()
            ks = s.keys(d.t)
            return SQ.length(ks), (lambda i: V(d.ty.v, z3.Select(s.val(d.t), SQ.at(ks, i))))
        if isinstance(it, tuple) and it and it[0] == "range":
            lo, hi = it[1], it[2]
            return z3.If(hi - lo < 0, z3.IntVal(0), hi - lo), (lambda i: V(TInt, lo + i))
        if isinstance(it, tuple) and it and it[0] == "zip":
            views = [self.iter_view(x, n, st) for x in it[1]]
            ln = views[0][0]
            for l2, _ in views[1:]:
                ln = z3.If(l2 < ln, l2, ln)
            return ln, (lambda i: tuple(at(i) for _, at in views))
        if isinstance(it, tuple) and it and it[0] in ("emptylist", "emptydict"):
            return z3.IntVal(0), (lambda i: None)
        if isinstance(it, tuple):
            raise _ConcreteIter(list(it))
        if isinstance(it, V):
            ty = it.ty
            if ty is TStr:
                return SQ.length(it.t), (lambda i: V(TStr, z3.SubString(it.t, i, 1)))
            if isinstance(ty, TSeq):
                return SQ.length(it.t), (lambda i: self.untup(V(ty.elem, SQ.at(it.t, i))))
            if isinstance(ty, TKSet):
                ks = ty.sort().keys(it.t)
                return SQ.length(ks), (lambda i: V(ty.rec, ty.elem_at_key(it.t, SQ.at(ks, i))))
            if isinstance(ty, TDict):
                ks = ty.sort().keys(it.t)
                return SQ.length(ks), (lambda i: V(ty.k, SQ.at(ks, i)))
            if isinstance(ty, TSet):
                # arbitrary enumeration order: a fresh duplicate-free sequence with the same members
                order = self.fresh(st, TSeq(ty.elem, nodup=True), "setorder")
                x = z3.Const("so!x", ty.elem.sort())
                st.assume(z3.ForAll([x], SQ.has(order.t, x) == z3.IsMember(x, it.t)))
                self._last_set_order = order      # ghost `_seq` of the loop: the enumeration of the iterated set
                return SQ.length(order.t), (lambda i: V(ty.elem, SQ.at(order.t, i)))
            if isinstance(ty, TObj):
                k = self.reg.lookup_method(ty.name, "__iter__")
                if k is not None:
                    seq = self.apply_contract(k, [it], {}, n, st)
                    return self.iter_view(seq, n, st)
        if isinstance(it, MObj):
            k = self.reg.lookup_method(it.cls, "__iter__")
            if k is not None:
                seq = self.apply_contract(k, [it], {}, n, st)
                return self.iter_view(seq, n, st)
        raise OutOfSubset(n, f"iteration over {it!r}")

    def bind_target(self, tgt, val, st, n):
        if isinstance(tgt, ast.Name):
            st.env[tgt.id] = val
            return
        if isinstance(tgt, (ast.Tuple, ast.List)):
            val = self.untup(val)
            if isinstance(val, V) and isinstance(val.ty, TRec) and val.ty.order:
                val = tuple(self.getattr(val, f, n, st) for f in val.ty.order)
            if not isinstance(val, tuple):
                raise OutOfSubset(n, f"unpacking of {val!r}")
            if len(val) != len(tgt.elts):
                self.require(st, "safe.unpack", n, z3.BoolVal(False), "ValueError")
            for t, v in zip(tgt.elts, val):
                self.bind_target(t, v, st, n)
            return
        raise OutOfSubset(n, "binding target")

    def comprehension(self, n, st, kind):
        gens = n.generators
        if len(gens) == 2 and kind == "list" and not gens[0].ifs and not gens[1].ifs:
            return self.flat_comprehension(n, st)
        if len(gens) != 1:
            raise OutOfSubset(n, "comprehension with several generators")
        g = gens[0]
        it = self.ev(g.iter, st)
        try:
            ln, at = self.iter_view(it, n, st)
        except _ConcreteIter as ci:
            return self.concrete_comprehension(n, st, kind, ci.items)
        # evaluate the body at an arbitrary index j (obligations inside are for every j)
        st.fresh_n += 1
        j = z3.Int(f"cj!{st.fresh_n}")
        self._nonneg.add(j.get_id())
        inner = st.fork()
        inner.decisions = st.decisions
        rng = z3.And(0 <= j, j < ln)
        inner.assume(rng)
        saved_ctx = self._comp_ctx
        self._comp_ctx = saved_ctx + ((j, rng, st),)
        try:
            self.bind_target(g.target, at(j), inner, n)
            conds = []
            guard_of = {}  # id of local assumption -> number of filter conditions in force when it was established
            for c in g.ifs:
                before = len(inner.pc)
                cv = self.truthy(self.ev(c, inner), c)
                for h in inner.pc[before:]:
                    guard_of[h.get_id()] = len(conds)
                conds.append(cv)
                inner.assume(cv)
                guard_of[inner.pc[-1].get_id()] = -1  # the condition itself is not exported
            if kind == "dict":
                kv = self.ev(n.key, inner)
                vv = self.ev(n.value, inner)
            else:
                body = self.ev(n.elt, inner)
        finally:
            self._comp_ctx = saved_ctx
        # facts established for the arbitrary index hold for every index: export them universally
        base = len(st.pc)
        local = [h for h in inner.pc if not any(h.eq(o) for o in st.pc)]
        idxs = [c[0] for c in saved_ctx] + [j]
        elem_j = at(j)
        jpat = [elem_j.t] if isinstance(elem_j, V) and elem_j.t is not None and z3.is_app(elem_j.t) and not z3.is_const(elem_j.t) else []
        if not jpat and isinstance(it, V) and isinstance(it.ty, TSeq):
            jpat = [SQ.at(it.t, j)]  # elements unpacked into python-level tuples: trigger on the raw element access
        for h in local:
            if h.eq(z3.simplify(rng)) or h.eq(rng):
                continue
            ng = guard_of.get(h.get_id(), len(conds))
            if ng < 0:
                continue
            body_h = z3.Implies(z3.And(rng, *conds[:ng]), h)
            st.assume(SQ.forall([j], body_h, patterns=jpat) if jpat else z3.ForAll([j], body_h))
        if kind == "dict":
            kt, vt = self.type_of(kv, n), self.type_of(vv, n)
            dty = TDict(kt, vt)
            res = self.fresh(st, dty, "dcomp")
            s = dty.sort()
            keys = s.keys(res.t)
            kterm, vterm = self.coerce(kv, kt, n).t, self.coerce(vv, vt, n).t
            cond = z3.And(0 <= j, j < ln, *conds)
            # every generated key is present and maps to the value generated at the index producing it;
            # stated for injective key expressions (obligation) which is what the code base uses
            j2 = z3.Int(f"cj2!{st.fresh_n}")
            kterm2 = z3.substitute(kterm, (j, j2))
            inj = z3.ForAll([j, j2], z3.Implies(z3.And(0 <= j, j < j2, j2 < ln), kterm != kterm2))
            self.oblige(st, "comp.keys-injective", n, inj, "dict comprehension keys must be pairwise distinct for the pointwise encoding")
            if conds:
                # filtered: membership + value characterisation (insertion order of the kept keys is not encoded)
                kx2 = z3.Const(f"ckf!{st.fresh_n}", kt.sort())
                st.assume(SQ.forall([kx2], SQ.has(keys, kx2) == SQ.exists([j], z3.And(cond, kterm == kx2), patterns=jpat), patterns=[SQ.has(keys, kx2)]))
                st.assume(SQ.forall([j], z3.Implies(cond, z3.And(SQ.has(keys, kterm), z3.Select(s.val(res.t), kterm) == vterm)), patterns=jpat))
                st.assume(SQ.length(keys) <= ln)
                self.notes.append(f"line {n.lineno}: filtered dict comprehension encoded by membership and values (key order not encoded)")
                self.merge_fresh(st, inner)
                return res
            st.assume(SQ.length(keys) == ln)
            st.assume(SQ.forall([j], z3.Implies(cond, z3.And(SQ.at(keys, j) == kterm, z3.Select(s.val(res.t), kterm) == vterm)),
                                patterns=[SQ.at(keys, j)] + jpat))
            # derived membership fact (lets the solver go from "x is a source element" to "x is a key")
            kx = z3.Const(f"ck!{st.fresh_n}", kt.sort())
            mpats = [SQ.has(keys, kx)]
            if isinstance(it, V) and isinstance(it.ty, TSeq) and z3.simplify(kterm).eq(z3.simplify(SQ.at(it.t, j))):
                mpats.append(SQ.has(it.t, kx))
            st.assume(SQ.forall([kx], SQ.has(keys, kx) == SQ.exists([j], z3.And(cond, kterm == kx), patterns=jpat), patterns=mpats))
            self.merge_fresh(st, inner)
            return res
        et = self.type_of(body, n)
        bterm = self.coerce(body, et, n).t
        res = self.fresh(st, TSeq(et), "comp")
        if not conds:
            st.assume(SQ.length(res.t) == ln)
            st.assume(SQ.forall([j], z3.Implies(z3.And(0 <= j, j < ln), SQ.at(res.t, j) == bterm), patterns=[SQ.at(res.t, j)] + jpat))
        else:
            # filter: membership characterisation (+ length bound; order preservation is not encoded)
            x = z3.Const(f"cx!{st.fresh_n}", et.sort())
            pats = [SQ.has(res.t, x)]
            if isinstance(it, V) and isinstance(it.ty, TSeq) and z3.simplify(bterm).eq(z3.simplify(SQ.at(it.t, j))):
                pats.append(SQ.has(it.t, x))  # identity-bodied filter: also instantiate from membership in the source
            inner_ex = SQ.exists([j], z3.And(0 <= j, j < ln, *conds, bterm == x), patterns=jpat) if jpat else z3.Exists([j], z3.And(0 <= j, j < ln, *conds, bterm == x))
            st.assume(SQ.forall([x], SQ.has(res.t, x) == inner_ex, patterns=pats))
            st.assume(SQ.length(res.t) <= ln)
            # order: a strictly increasing bijection between result positions and kept source positions
            src = z3.Function(f"src!{st.fresh_n}", z3.IntSort(), z3.IntSort())
            dst = z3.Function(f"dst!{st.fresh_n}", z3.IntSort(), z3.IntSort())
            q, q2 = z3.Int(f"fq!{st.fresh_n}"), z3.Int(f"fq2!{st.fresh_n}")
            keep = z3.And(*conds)
            keep_at = lambda e: z3.substitute(keep, (j, e))
            b_at = lambda e: z3.substitute(bterm, (j, e))
            rl = SQ.length(res.t)
            st.assume(z3.ForAll([q], z3.Implies(z3.And(0 <= q, q < rl), z3.And(0 <= src(q), src(q) < ln, keep_at(src(q)), SQ.at(res.t, q) == b_at(src(q)), dst(src(q)) == q)),
                                patterns=[src(q)]))
            st.assume(SQ.forall([q], z3.Implies(z3.And(0 <= q, q < ln, keep_at(q)), z3.And(0 <= dst(q), dst(q) < rl, src(dst(q)) == q)), patterns=[dst(q)]))
            st.assume(SQ.forall([q, q2], z3.Implies(z3.And(0 <= q, q < q2, q2 < rl), src(q) < src(q2)), patterns=[z3.MultiPattern(src(q), src(q2))]))
        self.merge_fresh(st, inner)
        return res

    def merge_fresh(self, st, inner):
        st.fresh_n = max(st.fresh_n, inner.fresh_n)

    def concrete_comprehension(self, n, st, kind, items):
        g = n.generators[0]
        out = []
        for item in items:
            self.bind_target(g.target, item, st, n)
            keep = True
            for c in g.ifs:
                keep = keep and self.branch(st, self.truthy(self.ev(c, st), c))
            if keep:
                out.append(self.ev(n.elt, st) if kind != "dict" else (self.ev(n.key, st), self.ev(n.value, st)))
        if kind == "dict":
            raise OutOfSubset(n, "dict comprehension over python-level tuple")
        return tuple(out)

    def flat_comprehension(self, n, st):
        """[f(a, b) for a in A for b in g(a)]  ==  concatenation; encoded with a prefix-sum
        function off: off(0)=0, off(k+1)=off(k)+len(g(A[k])), R[off(k)+m] = f(A[k], g(A[k])[m])."""
        g0, g1 = n.generators
        it0 = self.ev(g0.iter, st)
        ln0, at0 = self.iter_view(it0, n, st)
        st.fresh_n += 1
        tag = st.fresh_n
        k, m = z3.Int(f"fk!{tag}"), z3.Int(f"fm!{tag}")
        inner = st.fork()
        inner.assume(z3.And(0 <= k, k < ln0))
        self.bind_target(g0.target, at0(k), inner, n)
        it1 = self.ev(g1.iter, inner)
        ln1, at1 = self.iter_view(it1, n, inner)
        inner.assume(z3.And(0 <= m, m < ln1))
        self.bind_target(g1.target, at1(m), inner, n)
        body = self.ev(n.elt, inner)
        et = self.type_of(body, n)
        bterm = self.coerce(body, et, n).t
        res = self.fresh(st, TSeq(et), "flat")
        ordinal = self.flat_ordinals.get(id(n), 0)
        given = self.c.flat.get(ordinal)
        if given is not None:
            # the contract names the prefix-sum function: check that it satisfies the defining recurrence
            off = lambda kk: given(self, it0, kk)
            self.oblige(st, f"flat.off0[{ordinal}]", n, off(z3.IntVal(0)) == 0, "offset function starts at 0")
            step = z3.substitute(ln1, (k, k))
            self.oblige(inner, f"flat.offstep[{ordinal}]", n, off(k + 1) == off(k) + ln1, "offset function advances by the inner length")
        else:
            offn = z3.Function(f"off!{tag}", z3.IntSort(), z3.IntSort())
            off = lambda kk: offn(kk)
            st.assume(off(0) == 0)
            st.assume(z3.ForAll([k], z3.Implies(z3.And(0 <= k, k < ln0), z3.And(off(k + 1) == off(k) + ln1, ln1 >= 0))))
        st.assume(SQ.length(res.t) == off(ln0))
        st.assume(z3.ForAll([k, m], z3.Implies(z3.And(0 <= k, k < ln0, 0 <= m, m < ln1), SQ.at(res.t, off(k) + m) == bterm),
                            patterns=[z3.MultiPattern(off(k), SQ.at(it1.t, m))] if (isinstance(it1, V) and isinstance(it1.ty, TSeq)) else []))
        self.merge_fresh(st, inner)
        return res

    # ----------------------------------------------------------------- calls
    def ev_Call(self, n, st):
        if isinstance(n.func, ast.Name) and n.func.id == "cast" and len(n.args) == 2 and "cast" not in st.env:
            return self.ev(n.args[1], st)  # typing.cast(T, x) is the identity; T is a type expression, not evaluated
        if isinstance(n.func, ast.Attribute) and n.func.attr == "pop" and isinstance(n.func.value, (ast.Name, ast.Attribute)) and not self.spec_mode:
            cur = self.ev(n.func.value, st)
            if isinstance(cur, V) and isinstance(cur.ty, TSeq):
                # value-returning list.pop() / list.pop(-1) inside an expression: yields the last element and shortens the receiver
                if st.guards or self._comp_ctx:
                    raise OutOfSubset(n, "list.pop() under a short-circuit guard or inside a comprehension")
                from . import lib

                last = V(cur.ty.elem, SQ.at(cur.t, SQ.length(cur.t) - 1))
                new = lib.mutate(self, cur, "pop", [self.ev(a, st) for a in n.args], n, st)
                self.assign(n.func.value, new, st, n)
                return last
        f = self.ev_callee(n.func, st)
        args = []
        for a in n.args:
            if isinstance(a, ast.Starred):
                v = self.ev(a.value, st)
                if isinstance(v, tuple):
                    args.extend(v)
                else:
                    args.append(("star", v))
            else:
                args.append(self.ev(a, st))
        kwargs = {}
        for kw in n.keywords:
            if kw.arg is None:
                if "**" in kwargs:
                    raise OutOfSubset(n, "several **kwargs at one call site")
                kwargs["**"] = self.ev(kw.value, st)
                continue
            kwargs[kw.arg] = self.ev(kw.value, st)
        res = self.call(f, args, kwargs, n, st)
        hints = getattr(self.c, "hints", None)
        if hints and isinstance(n.func, ast.Name) and f"call:{n.func.id}" in hints and not self.spec_mode:
            # proof hints about the value a call just returned (`_result`): proved here, then assumed
            if st.guards or self._comp_ctx:
                raise OutOfSubset(n, "call hint under a short-circuit guard or inside a comprehension")
            saved = st.env
            st.env = dict(saved)
            st.env["_result"] = res
            try:
                for i, text in enumerate(hints[f"call:{n.func.id}"]):
                    goal = z3.simplify(self.spec_bool(text, st))
                    self.oblige(st, f"hint[call:{n.func.id}][{i}]", n, goal, text)
                    st.assume(goal)
            finally:
                st.env = saved
        return res

    def ev_callee(self, fnode, st):
        if isinstance(fnode, ast.Name) and fnode.id not in st.env:
            g = self.c.globals.get(fnode.id)
            if g is not None:
                return g
            k = self.c.calls.get(fnode.id) or self.reg.lookup_function(fnode.id)
            if k is not None:
                return k
            from . import lib
            if fnode.id in self.reg.builtins or fnode.id in lib.BUILTINS:
                return PyConst(fnode.id)
            raise OutOfSubset(fnode, f"call to unknown function {fnode.id}")
        return self.ev(fnode, st)

    def call(self, f, args, kwargs, n, st):
        from .contracts import Contract

        if isinstance(f, Contract):
            return self.apply_contract(f, args, kwargs, n, st)
        if isinstance(f, tuple) and f and f[0] == "bound":
            if not isinstance(f[2], Contract):
                return f[2](self, [f[1]] + args, kwargs, n, st)
            return self.apply_contract(f[2], [f[1]] + args, kwargs, n, st)
        if isinstance(f, tuple) and f and f[0] == "method":
            return self.call_method(f[1], f[2], args, kwargs, n, st)
        if isinstance(f, tuple) and f and f[0] == "z3fn":
            return V(TInt, f[1](*[a.t for a in args]))
        if isinstance(f, Closure):
            return self.call_closure(f, args, kwargs, n, st)
        if callable(f) and not isinstance(f, (V, MObj, tuple)):
            if kwargs and not self.spec_mode and not _reads_kwargs(f):
                # a library model that never looks at its keyword arguments would silently ignore an option the code passes (dtype=, axis=, ...)
                raise OutOfSubset(n, f"{getattr(f, '__name__', 'library model')}(..., {', '.join(sorted(kwargs))}=...): the library contract has no keyword options")
            return f(self, args, kwargs, n, st)
        if isinstance(f, V) and isinstance(f.ty, TObj):
            k = self.reg.lookup_method(f.ty.name, "__call__")
            if k is not None:
                return self.apply_contract(k, [f] + args, kwargs, n, st)
        if isinstance(f, PyConst) and callable(self.c.globals.get(f.name + ".__call__")):
            return self.c.globals[f.name + ".__call__"](self, args, kwargs, n, st)
        if isinstance(f, PyConst):
            k = self.c.calls.get(f.name) or self.reg.lookup_function(f.name)
            if k is not None:
                return self.apply_contract(k, args, kwargs, n, st)
            return self.call_builtin(f.name, args, kwargs, n, st)
        raise OutOfSubset(n, f"call of {f!r}")

    def call_closure(self, f, args, kwargs, n, st):
        node = f.node
        if not isinstance(node, ast.Lambda):
            return self.inline_def(f, args, kwargs, n, st)
        params = [a.arg for a in node.args.args]
        if len(params) != len(args) or kwargs or node.args.vararg:
            raise OutOfSubset(n, "lambda arity")
        saved = st.env
        st.env = dict(f.env)
        st.env.update(zip(params, args))
        try:
            return self.ev(node.body, st)
        finally:
            st.env = saved

    def inline_def(self, f, args, kwargs, n, st):
        """Call of a nested `def` without a contract of its own: its body is executed in place (loop-free bodies only).
        Free variables are those of the enclosing function at the time of the CALL (Python cells), parameters and names
        assigned in the body are local; mutations of enclosing containers (x.append(...)) are written back.  Branches in
        the body split the path of the calling statement (NeedSplit propagates: single-path mode)."""
        node = f.node
        if any(isinstance(x, (ast.For, ast.While, ast.Yield, ast.YieldFrom, ast.Try, ast.With, ast.Nonlocal, ast.Global)) for x in ast.walk(node)):
            raise OutOfSubset(n, f"nested def {node.name}: loops/try/yield/nonlocal in an inlined body (give it a contract)")
        if st.guards or self._comp_ctx:
            raise OutOfSubset(n, f"call of nested def {node.name} under a short-circuit guard or inside a comprehension")
        a = node.args
        if a.vararg or a.kwarg or a.kwonlyargs or a.posonlyargs or a.defaults:
            raise OutOfSubset(n, f"nested def {node.name}: only plain positional parameters are inlined")
        params = [x.arg for x in a.args]
        if len(params) != len(args) or kwargs:
            raise OutOfSubset(n, f"nested def {node.name}: arity")
        local = set(params)
        for x in ast.walk(node):
            if isinstance(x, ast.Name) and isinstance(x.ctx, (ast.Store, ast.Del)):
                local.add(x.id)
        outer = st.env
        inner = dict(outer)
        for k in local:
            inner.pop(k, None)
        inner.update(zip(params, args))
        st.env = inner
        saved_mode = self._single_path
        self._single_path = True
        result = V(TNone, None)
        try:
            outs = self.exec_block(node.body, st)
        finally:
            self._single_path = saved_mode
            cur = st.env
            st.env = outer
        if len(outs) != 1:
            raise OutOfSubset(n, f"nested def {node.name}: {len(outs)} outcomes in single-path mode")
        st2, out = outs[0]
        if st2 is not st:
            raise OutOfSubset(n, f"nested def {node.name}: state forked in single-path mode")
        for k, v in cur.items():
            if k not in local and k in outer and outer[k] is not v:
                outer[k] = v          # an enclosing container mutated in place by the body
        if out is None:
            return result
        if out[0] == "return":
            return out[1]
        if out[0] == "raise":
            raise PyRaise(out[1], out[2], st=st)
        raise OutOfSubset(n, f"nested def {node.name}: stray {out[0]}")

    _single_path = False

    def apply_contract(self, k, args, kwargs, n, st):
        """Modular call: check `requires`, havoc the result, assume `ensures` (never the body)."""
        if not hasattr(k, "bind_args"):
            return k(self, args, kwargs, n, st)  # natively modelled library contract
        env = k.bind_args(args, kwargs, self, n)
        sub = st.fork()
        sub.env = dict(env)
        sub.env.update(k.spec_env)
        sub.pc, sub.guards = st.pc, st.guards  # share lists: assumptions/obligations use the caller's path
        sub.decisions = st.decisions
        if k.lets:
            from .contracts import parse_clause as _pcl

            saved_sm = self.spec_mode
            self.spec_mode = True
            sub.fresh_n = st.fresh_n
            try:
                for nm, text in k.lets.items():   # entry-state abbreviations of the callee's contract
                    sub.env[nm] = self.ev(_pcl(text), sub)
                    sub.env["old_" + nm] = sub.env[nm]
            finally:
                self.spec_mode = saved_sm
            st.fresh_n = sub.fresh_n
        for i, r in enumerate(k.requires):
            goal = self.spec_bool(r, sub, k)
            exc = k.pre_raises.get(i)
            if exc is not None:
                self.require(st, f"call.pre[{k.short}#{i}]", n, goal, exc)
            else:
                self.oblige(st, f"call.pre[{k.short}#{i}]", n, goal, f"precondition of {k.target}: {r}")
                st.assume(goal)
        sub.fresh_n = st.fresh_n
        for exc, cond in k.raises.items():
            if cond is None:
                continue  # may raise nondeterministically: only relevant for exception-safety contracts
            c = self.spec_bool(cond, sub, k)
            st.fresh_n = sub.fresh_n
            if self.branch(st, c):
                raise PyRaise(exc, n)
        for exc, cond in k.raises.items():
            caught = any(self.reg.is_subclass(exc, h) for h in self._handled) or any(self.reg.is_subclass(exc, h) for h in self.c.raises)
            if cond is None and not caught:
                self.oblige(st, f"call.raises[{k.short}:{exc}]", n, z3.BoolVal(False), f"{k.target} may raise {exc}, which the caller neither handles nor declares")
        for exc, cond in k.raises.items():
            if cond is None and any(self.reg.is_subclass(exc, h) for h in self._handled) and not st.guards and not self._comp_ctx:
                flag = z3.Bool(f"raises!{k.short}!{exc}!{self.site(n)}")
                if self.branch(st, flag):
                    raise PyRaise(exc, n, st=st)
        st.fresh_n = sub.fresh_n
        if k.returns is None:
            res = V(TNone, None)
        elif k.returns == "self":
            res = args[0]
        elif callable(k.returns) and not isinstance(k.returns, Ty):
            res = k.returns(self, st, env)
        else:
            res = self.fresh(st, k.returns, f"r_{k.short}")
        skip = set()
        if isinstance(res, V) and not k.modifies:
            import ast as _a
            from .contracts import parse_clause as _pc

            for ei, e in enumerate(k.ensures):
                nd = _pc(e)
                if (isinstance(nd, _a.Compare) and len(nd.ops) == 1 and isinstance(nd.ops[0], _a.Eq) and isinstance(nd.left, _a.Name)
                        and nd.left.id == "result" and not any(isinstance(x, _a.Name) and x.id == "result" for x in _a.walk(nd.comparators[0]))):
                    saved_sm = self.spec_mode
                    self.spec_mode = True
                    try:
                        val = self.ev(nd.comparators[0], sub)
                    finally:
                        self.spec_mode = saved_sm
                    try:
                        res = self.coerce(val, res.ty, n)
                        skip.add(ei)
                    except OutOfSubset:
                        pass
                    break
        sub.fresh_n = st.fresh_n
        sub.env["result"] = res
        # mutated receiver: havoc attributes listed in `modifies`
        if k.modifies:
            recv = args[0] if args else None
            if isinstance(recv, MObj):
                pnames = list(k.params)
                if pnames:
                    sub.env["old_" + pnames[0]] = recv.copy()
                for a in k.modifies:
                    sub.env["old_" + a] = recv.attrs[a]
                    recv.attrs[a] = self.fresh_like(st, recv.attrs[a], f"m_{a}")
                sub.fresh_n = st.fresh_n
        for ei, e in enumerate(k.ensures):
            if ei in skip:
                continue
            st.assume(self.spec_bool(e, sub, k))
        st.fresh_n = max(st.fresh_n, sub.fresh_n)
        return res

    def spec_bool(self, text, st, k=None):
        """Evaluate a contract clause (python expression text) in state `st`."""
        from .contracts import parse_clause

        node = parse_clause(text)
        saved = self.spec_mode
        self.spec_mode = True
        try:
            v = self.ev(node, st)
        finally:
            self.spec_mode = saved
        if isinstance(v, V) and v.ty is TBool:
            return v.t
        return self.truthy(v, node)

    # built-in functions -------------------------------------------------
    def call_builtin(self, name, args, kw, n, st):
        from . import lib

        h = lib.BUILTINS.get(name)
        if h is None:
            raise OutOfSubset(n, f"call to {name} (no library contract)")
        return h(self, args, kw, n, st)

    def call_method(self, recv, meth, args, kw, n, st):
        from . import lib

        return lib.method(self, recv, meth, args, kw, n, st)

    # ------------------------------------------------------------ statements
    def exec_block(self, stmts, st):
        """-> list of (state, outcome); outcome = None (fell through) | ('return', v) | ('raise', exc, node)
        | ('break',) | ('continue',)"""
        frontier = [st]
        done = []
        for s in stmts:
            nxt = []
            for cur in frontier:
                for st2, out in self.exec_stmt(s, cur):
                    if out is None:
                        nxt.append(st2)
                    else:
                        done.append((st2, out))
            frontier = nxt
            if not frontier:
                break
        return [(f, None) for f in frontier] + done

    def exec_stmt(self, stmt, st):
        work = [st]
        results = []
        while work:
            cur = work.pop()
            snap = cur.fork()
            mark = len(self.obls)
            try:
                results.extend(self._exec(stmt, cur))
            except NeedSplit as ns:
                if self._single_path:
                    raise               # inside an inlined nested def: the CALLING statement is re-executed with the decision
                del self.obls[mark:]
                for val in (True, False):
                    b = snap.fork()
                    b.decisions[ns.cond.sexpr()] = val
                    b.assume(ns.cond if val else z3.Not(ns.cond))
                    if self.feasible(b):
                        work.append(b)
            except PyRaise as pr:
                results.append((pr.st or cur, ("raise", pr.exc, pr.node)))
            if len(results) + len(work) > 4000:
                raise OutOfSubset(stmt, "path explosion (>4000 paths in one statement)")
        return results

    _handled = frozenset()
    spec_mode = False
    _comp_ctx = ()

    def _exec(self, s, st):
        m = getattr(self, "ex_" + type(s).__name__, None)
        if m is None:
            raise OutOfSubset(s, f"statement {type(s).__name__}")
        return m(s, st)

    def ex_Expr(self, s, st):
        if isinstance(s.value, ast.Constant):
            return [(st, None)]  # docstring
        if isinstance(s.value, ast.Yield):
            v = self.ev(s.value.value, st)
            self.do_yield(st, v, s)
            return [(st, None)]
        if isinstance(s.value, ast.YieldFrom):
            v = self.ev(s.value.value, st)
            self.do_yield_from(st, v, s)
            return [(st, None)]
        # method calls with side effects on a named receiver
        if isinstance(s.value, ast.Call) and isinstance(s.value.func, ast.Attribute):
            if self.mutating_call(s.value, st):
                return [(st, None)]
        self.ev(s.value, st)
        return [(st, None)]

    def do_yield(self, st, v, node):
        if st.yielded is None:
            ety = self.c.yield_type
            if ety is None:
                raise OutOfSubset(node, "yield without `yields` type in the contract")
            st.yielded = V(TSeq(ety), SQ.empty(TSeq(ety).sort()))
        ety = st.yielded.ty.elem
        if isinstance(v, MObj) and isinstance(ety, TRec):
            snap = self.fresh(st, ety, "snap")
            for f_, fty in ety.fields.items():
                st.assume(ety.field_fn(f_)(snap.t) == self.coerce(v.attrs[f_], fty, node).t)
            v = snap
        st.yielded = V(st.yielded.ty, SQ.append1(st.yielded.t, self.coerce(v, ety, node).t))

    def do_yield_from(self, st, v, node):
        if st.yielded is None:
            st.yielded = V(TSeq(self.c.yield_type), SQ.empty(TSeq(self.c.yield_type).sort()))
        if isinstance(v, V) and isinstance(v.ty, TSeq):
            st.yielded = V(st.yielded.ty, SQ.concat(st.yielded.t, v.t))
            return
        raise OutOfSubset(node, "yield from non-sequence")

    def mutating_call(self, call, st):
        """x.append(v) / x.add(v) / x.update(...) / x.extend(...) on a Name or self.attr receiver."""
        from . import lib

        meth = call.func.attr
        if meth not in lib.MUTATORS:
            return False
        tgt = call.func.value
        cur = self.ev(tgt, st)
        if isinstance(cur, MObj) or (isinstance(cur, V) and isinstance(cur.ty, TObj) and not isinstance(cur.ty, TRec)):
            return False
        if isinstance(cur, tuple) and len(cur) == 2 and cur[0] == "dictview":
            return False        # obj.__dict__.pop(...): handled as an ordinary (native) call
        if isinstance(cur, V) and isinstance(cur.ty, TOpt) and isinstance(cur.ty.t, TObj) and not isinstance(cur.ty.t, TRec):
            return False        # optional opaque object: an ordinary method call (the attribute access obliges "is not None")
        args = [self.ev(a, st) for a in call.args]
        new = lib.mutate(self, cur, meth, args, call, st)
        self.assign(tgt, new, st, call)
        return True

    def assign(self, tgt, val, st, node):
        if isinstance(tgt, ast.Name):
            if (isinstance(val, tuple) and val and val[0] in ("emptylist", "emptydict", "emptyset") and tgt.id in self.c.local_types
                    and isinstance(self.c.local_types[tgt.id], TObj) and not isinstance(self.c.local_types[tgt.id], TRec)):
                # a new empty container assigned to a local that the contract models as an opaque reference: a fresh object
                ty = self.c.local_types[tgt.id]
                val = self.fresh(st, ty, tgt.id + "_new")
                hook = self.reg.lookup_method(ty.name, "__fresh_empty__")
                if hook is not None:
                    hook(self, val, st)
            elif isinstance(val, tuple) and val and val[0] in ("emptylist", "emptydict", "emptyset") and tgt.id in self.c.local_types:
                val = self.empty_of(self.c.local_types[tgt.id])
            elif tgt.id in self.c.local_types and isinstance(val, V):
                try:
                    val = self.coerce(val, self.c.local_types[tgt.id], node)
                except OutOfSubset:
                    pass  # the local changes type here (e.g. after the loop): keep the raw value
            st.env[tgt.id] = val
            return
        if isinstance(tgt, ast.Attribute):
            base = self.ev(tgt.value, st)
            attr = self.mangle(tgt.attr)
            if isinstance(base, MObj):
                setter = self.reg.lookup_method(base.cls, attr + ".setter")
                if setter is not None:
                    val = setter(self, base, val, node, st)
                if self.c.frame is not None and isinstance(tgt.value, ast.Name) and tgt.value.id in self.c.frame_objects:
                    self.oblige(st, "frame", node, z3.BoolVal(attr in self.c.frame), f"store to {tgt.value.id}.{attr} outside modifies={sorted(self.c.frame)}")
                old = base.attrs.get(attr)
                if isinstance(val, tuple) and val and val[0] in ("emptylist", "emptydict") and old is not None:
                    val = self.empty_of(old.ty)
                base.attrs[attr] = val
                return
            if isinstance(base, V) and isinstance(base.ty, TObj) and (base.ty.name, attr) in getattr(self.c, "heap_fields", {}):
                fty = self.c.heap_fields[(base.ty.name, attr)]
                hname = f"$heap.{base.ty.name}.{attr}"
                if self.c.frame is not None:
                    self.oblige(st, "frame", node, z3.BoolVal(f"{base.ty.name}.{attr}" in self.c.frame), f"store to {base.ty.name}.{attr} outside modifies={sorted(self.c.frame)}")
                cur = st.env[hname]
                st.env[hname] = V(cur.ty, z3.Store(cur.t, base.t, self.coerce(val, fty, node).t))
                return
            raise OutOfSubset(node, "attribute store on non-object")
        if isinstance(tgt, ast.Subscript):
            base = self.ev(tgt.value, st)
            if isinstance(tgt.slice, ast.Slice):
                raise OutOfSubset(node, "slice store")
            idx = self.ev(tgt.slice, st)
            new = self.store(base, idx, val, node, st)
            self.assign(tgt.value, new, st, node)
            return
        if isinstance(tgt, (ast.Tuple, ast.List)):
            val = self.untup(val)
            if isinstance(val, V) and isinstance(val.ty, TRec) and val.ty.order:
                val = tuple(self.getattr(val, f, node, st) for f in val.ty.order)
            if isinstance(val, V) and isinstance(val.ty, TData) and getattr(val.ty, "unpack", False):
                val = tuple(V(fty, val.ty.get(val.t, f)) for f, fty in val.ty.fields.items())     # namedtuple
            if not isinstance(val, tuple) or len(val) != len(tgt.elts):
                raise OutOfSubset(node, "tuple assignment of non-tuple")
            for t, v in zip(tgt.elts, val):
                self.assign(t, v, st, node)
            return
        raise OutOfSubset(node, "assignment target")

    def empty_of(self, ty):
        if isinstance(ty, TSeq):
            return V(ty, SQ.empty(ty.sort()))
        if isinstance(ty, TDict):
            s = ty.sort()
            return V(ty, s.mk(SQ.empty(SQ.theory(ty.k.sort()).S), z3.K(ty.k.sort(), self.default_of(ty.v))))
        if isinstance(ty, TSet):
            return V(ty, z3.EmptySet(ty.elem.sort()))
        raise OutOfSubset(None, f"empty value of {ty}")

    def default_of(self, ty):
        return z3.Const(f"dflt!{ty!r}", ty.sort())

    def store(self, base, idx, val, node, st):
        if isinstance(base, tuple) and base and base[0] == "emptydict":
            kt, vt = self.type_of(idx, node), self.type_of(val, node)
            base = self.empty_of(TDict(kt, vt))
        if isinstance(base, MObj) and base.cls == "StrKeyDict":
            key = self.static_key(idx, node)
            if self.c.frame is not None:
                self.oblige(st, "frame", node, z3.BoolVal(key in self.c.frame or "*" in self.c.frame), f"store to state key {key!r} outside modifies={sorted(self.c.frame)}")
            base.attrs[key] = val
            return base
        if isinstance(base, MObj):
            k = self.reg.lookup_method(base.cls, "__setitem__")
            if k is not None:
                self.apply_contract(k, [base, idx, val], {}, node, st)
                return base
        if isinstance(base, V) and isinstance(base.ty, TObj) and not isinstance(base.ty, TRec):
            k = self.reg.lookup_method(base.ty.name, "__setitem__")
            if k is not None:
                if hasattr(k, "bind_args"):
                    self.apply_contract(k, [base, idx, val], {}, node, st)
                else:
                    k(self, [base, idx, val], {}, node, st)
                return base
        if isinstance(base, V):
            ty = base.ty
            if isinstance(ty, TDict):
                s = ty.sort()
                k, v = self.coerce(idx, ty.k, node), self.coerce(val, ty.v, node)
                keys = s.keys(base.t)
                present = SQ.has(keys, k.t)
                nkeys = z3.If(present, keys, SQ.append1(keys, k.t))
                return V(ty, s.mk(nkeys, z3.Store(s.val(base.t), k.t, v.t)))
            if isinstance(ty, TSeq):
                ln = SQ.length(base.t)
                i = idx.t
                self.require(st, "safe.index", node, z3.And(-ln <= i, i < ln), "IndexError")
                pos = z3.If(i < 0, ln + i, i)
                v = self.coerce(val, ty.elem, node)
                return V(ty, SQ.concat(SQ.append1(SQ.take(base.t, pos), v.t), SQ.drop(base.t, pos + 1)))
        raise OutOfSubset(node, f"subscript store on {base!r}")

    def ex_Assign(self, s, st):
        val = self.ev(s.value, st)
        for t in s.targets:
            self.assign(t, val, st, s)
        self.after_assign_hints(s, st)
        return [(st, None)]

    def after_assign_hints(self, s, st):
        """Proof hints (intermediate assertions of the contract, `hints={"name" | "name#n": [clauses]}`): after the n-th (source order) simple
        assignment to local `name` each clause is PROVED from the path's hypotheses (obligation `hint[...]`) and then assumed - a cut that keeps the
        solver's queries small.  Hints never weaken anything: an unprovable hint is an undischarged obligation."""
        hints = getattr(self.c, "hints", None)
        if not hints or len(s.targets) != 1 or not isinstance(s.targets[0], ast.Name):
            return
        name = s.targets[0].id
        if getattr(self, "_assign_ord", None) is None:
            self._assign_ord = {}
            seen = {}
            for n_ in ast.walk(self.fn):
                if isinstance(n_, ast.Assign) and len(n_.targets) == 1 and isinstance(n_.targets[0], ast.Name):
                    nm = n_.targets[0].id
                    self._assign_ord[id(n_)] = seen.get(nm, 0)
                    seen[nm] = seen.get(nm, 0) + 1
        k = self._assign_ord.get(id(s), 0)
        clauses = list(hints.get(f"{name}#{k}", [])) + (list(hints.get(name, [])) if k == 0 else [])
        if st.guards and clauses:
            raise OutOfSubset(s, "hint under a short-circuit guard")
        for i, text in enumerate(clauses):
            goal = z3.simplify(self.spec_bool(text, st))
            self.oblige(st, f"hint[{name}#{k}][{i}]", s, goal, text)
            st.assume(goal)

    def ex_AnnAssign(self, s, st):
        if s.value is None:
            return [(st, None)]
        val = self.ev(s.value, st)
        self.assign(s.target, val, st, s)
        return [(st, None)]

    def ex_AugAssign(self, s, st):
        load = ast.copy_location(ast.BinOp(left=_as_load(s.target), op=s.op, right=s.value), s)
        ast.fix_missing_locations(load)
        self._ord[id(load)] = self.site(s)
        val = self.ev(load, st)
        self.assign(s.target, val, st, s)
        return [(st, None)]

    def ex_Pass(self, s, st):
        return [(st, None)]

    def ex_Return(self, s, st):
        v = self.ev(s.value, st) if s.value is not None else V(TNone, None)
        return [(st, ("return", v))]

    def ex_Break(self, s, st):
        return [(st, ("break",))]

    def ex_Continue(self, s, st):
        return [(st, ("continue",))]

    def ex_Raise(self, s, st):
        exc = "Exception"
        if s.exc is None:
            cur = st.env.get("__current_exception__")
            if isinstance(cur, PyConst):
                exc = cur.name[4:]         # bare `raise` inside a handler re-raises the exception being handled
        if s.exc is not None:
            e = s.exc
            if isinstance(e, ast.Call):
                for a in e.args:
                    self.ev(a, st)  # message expressions are evaluated (safety obligations)
                e = e.func
            if isinstance(e, ast.Name):
                exc = e.id
                k = self.c.calls.get(exc)
                if k is not None and k.raises_type:
                    exc = k.raises_type
            elif isinstance(e, ast.Attribute):
                exc = e.attr
        return [(st, ("raise", exc, s))]

    def ex_Assert(self, s, st):
        c = self.ev_test(s.test, st)
        self.require(st, "safe.assert", s, c, "AssertionError")
        return [(st, None)]

    def ex_Delete(self, s, st):
        from . import lib

        for t in s.targets:
            if isinstance(t, ast.Subscript):
                base = self.ev(t.value, st)
                idx = self.ev(t.slice, st)
                if isinstance(base, tuple) and base and base[0] == "dictview":
                    key = self.static_key(idx, s)
                    if key not in base[1].attrs:
                        self.require(st, "safe.key", s, z3.BoolVal(False), "KeyError")
                    base[1].attrs.pop(key, None)
                    continue
                new = lib.delete_item(self, base, idx, s, st)
                self.assign(t.value, new, st, s)
            elif isinstance(t, ast.Attribute):
                base = self.ev(t.value, st)
                if isinstance(base, MObj):
                    base.attrs.pop(self.mangle(t.attr), None)
                else:
                    raise OutOfSubset(s, "del attribute")
            else:
                raise OutOfSubset(s, "del target")
        return [(st, None)]

    def ex_If(self, s, st):
        c = self.ev_test(s.test, st)
        if self.branch(st, c):
            return self.exec_block(s.body, st)
        return self.exec_block(s.orelse, st)

    def ex_FunctionDef(self, s, st):
        k = self.c.calls.get(s.name)
        st.env[s.name] = k if k is not None else Closure(s, dict(st.env), s.name)
        return [(st, None)]

    def ex_Import(self, s, st):
        return [(st, None)]

    ex_ImportFrom = ex_Import

    def ex_Try(self, s, st):
        if s.finalbody:
            raise OutOfSubset(s, "try/finally")
        names = set()
        for h in s.handlers:
            if h.type is None:
                names.add("*")
            elif isinstance(h.type, ast.Name):
                names.add(h.type.id)
            elif isinstance(h.type, ast.Tuple):
                names.update(e.id for e in h.type.elts if isinstance(e, ast.Name))
            else:
                raise OutOfSubset(s, "except clause")
        saved = self._handled
        self._handled = frozenset(saved | names)
        try:
            outs = self.exec_block(s.body, st)
        finally:
            self._handled = saved
        results = []
        for st2, out in outs:
            if out is not None and out[0] == "raise":
                h = self.find_handler(s.handlers, out[1])
                if h is not None:
                    st2.env["__current_exception__"] = PyConst("exc:" + out[1])
                    if h.name:
                        st2.env[h.name] = PyConst("exc:" + out[1])
                    results.extend(self.exec_block(h.body, st2))
                    continue
            if out is None and s.orelse:
                results.extend(self.exec_block(s.orelse, st2))
                continue
            results.append((st2, out))
        return results

    def find_handler(self, handlers, exc):
        for h in handlers:
            if h.type is None:
                return h
            names = [h.type.id] if isinstance(h.type, ast.Name) else [e.id for e in h.type.elts]
            for nm in names:
                if self.reg.is_subclass(exc, nm):
                    return h
        return None

    # ---- loops ----------------------------------------------------------
    def assigned_names(self, body):
        names, attrs = set(), set()
        from . import lib

        for s in body:
            for n in ast.walk(s):
                tgts = []
                if isinstance(n, ast.Assign):
                    tgts = n.targets
                elif isinstance(n, (ast.AugAssign, ast.AnnAssign)):
                    tgts = [n.target]
                elif isinstance(n, ast.For):
                    tgts = [n.target]
                elif isinstance(n, ast.Delete):
                    tgts = n.targets
                elif isinstance(n, ast.Call) and isinstance(n.func, ast.Attribute) and n.func.attr in lib.MUTATORS:
                    tgts = [n.func.value]
                elif isinstance(n, ast.NamedExpr):
                    tgts = [n.target]
                elif isinstance(n, ast.Call) and isinstance(n.func, ast.Name) and n.func.id in self.nested_defs():
                    # a nested def called in the loop body mutates enclosing containers in place (x.append(...) inside it)
                    d = self.nested_defs()[n.func.id]
                    dl = {a.arg for a in d.args.args} | {x.id for x in ast.walk(d) if isinstance(x, ast.Name) and isinstance(x.ctx, (ast.Store, ast.Del))}
                    for m in ast.walk(d):
                        if (isinstance(m, ast.Call) and isinstance(m.func, ast.Attribute) and m.func.attr in lib.MUTATORS
                                and isinstance(m.func.value, ast.Name) and m.func.value.id not in dl):
                            names.add(m.func.value.id)
                for t in tgts:
                    # the variable a store goes to is the ROOT of the target (`cache[0][i] = v` stores to `cache`, not to `i`)
                    stack = [t]
                    while stack:
                        y = stack.pop()
                        if isinstance(y, (ast.Tuple, ast.List)):
                            stack.extend(y.elts)
                        elif isinstance(y, (ast.Subscript, ast.Attribute, ast.Starred)):
                            stack.append(y.value)
                        elif isinstance(y, ast.Name):
                            names.add(y.id)
                    if isinstance(t, ast.Attribute):
                        for (cls_, attr_) in getattr(self.c, "heap_fields", {}):
                            if attr_ == self.mangle(t.attr):
                                names.add(f"$heap.{cls_}.{attr_}")
                    root = t
                    while isinstance(root, ast.Subscript):
                        root = root.value
                    if isinstance(root, ast.Attribute) and isinstance(root.value, ast.Name):
                        attrs.add((root.value.id, self.mangle(root.attr)))
        return names, attrs

    def nested_defs(self):
        if getattr(self, "_nested", None) is None:
            self._nested = {x.name: x for x in ast.walk(self.fn) if isinstance(x, ast.FunctionDef) and x is not self.fn}
        return self._nested

    def havoc(self, st, names, attrs, body):
        has_yield = any(isinstance(n, (ast.Yield, ast.YieldFrom)) for s in body for n in ast.walk(s))
        # mutable objects: re-bound in the body, or receivers of any method call / attribute store in the body
        recv = set()
        for s_ in body:
            for n_ in ast.walk(s_):
                if isinstance(n_, ast.Call) and isinstance(n_.func, ast.Attribute) and isinstance(n_.func.value, ast.Name):
                    recv.add(n_.func.value.id)
                if isinstance(n_, ast.Attribute) and isinstance(n_.ctx, ast.Store) and isinstance(n_.value, ast.Name):
                    recv.add(n_.value.id)
        for nm in sorted(set(names) | recv):
            cur = st.env.get(nm)
            if isinstance(cur, MObj) and nm not in self.c.frame_objects:
                st.env[nm] = self.fresh_like(st, cur, nm)
            elif isinstance(cur, MObj) and nm in recv and self.c.modifies is not None:
                for a in self.c.modifies:
                    if a in cur.attrs:
                        cur.attrs[a] = self.fresh_like(st, cur.attrs[a], f"{nm}.{a}")
        for nm in sorted(names):
            if nm in st.env and not isinstance(st.env[nm], (Closure, PyConst)):
                cur = st.env[nm]
                if isinstance(cur, MObj):
                    continue
                if isinstance(cur, tuple) and cur and isinstance(cur[0], str):
                    raise OutOfSubset(None, f"loop modifies `{nm}` whose type is unknown at loop entry (declare local_types)")
                st.env[nm] = self.fresh_like(st, cur, nm)
        for obj, attr in sorted(attrs):
            o = st.env.get(obj)
            if isinstance(o, MObj) and attr in o.attrs:
                o.attrs[attr] = self.fresh_like(st, o.attrs[attr], f"{obj}.{attr}")
        if has_yield:
            if st.yielded is None:
                st.yielded = V(TSeq(self.c.yield_type), SQ.empty(TSeq(self.c.yield_type).sort()))
            st.yielded = self.fresh(st, st.yielded.ty, "yielded")

    def loop_spec(self, s):
        k = self.loop_ordinals[id(s)]
        spec = self.c.loops.get(k)
        if spec is None:
            raise OutOfSubset(s, f"loop #{k} has no invariant in the contract")
        return k, spec

    def check_invs(self, st, kind, k, spec, node, extra_env):
        sub_env = dict(st.env)
        sub_env.update(extra_env)
        saved = st.env
        st.env = sub_env
        try:
            for i, inv in enumerate(spec.get("inv", [])):
                self.oblige(st, f"{kind}[{k}][{i}]", node, self.spec_bool(inv, st), inv)
        finally:
            st.env = saved

    def assume_invs(self, st, spec, extra_env):
        sub_env = dict(st.env)
        sub_env.update(extra_env)
        saved = st.env
        st.env = sub_env
        try:
            for inv in spec.get("inv", []):
                st.assume(self.spec_bool(inv, st))
        finally:
            st.env = saved

    def spec_env(self, st):
        e = {}
        if st.yielded is not None:
            e["_yielded"] = st.yielded
        return e

    def ex_For(self, s, st):
        it = self.ev(s.iter, st)
        try:
            ln, at = self.iter_view(it, s, st)
        except _ConcreteIter as ci:
            return self.unrolled_for(s, st, ci.items)
        k, spec = self.loop_spec(s)
        idx_name = spec.get("index", "_i")
        seq_ghost = {}
        if isinstance(it, V) and isinstance(it.ty, TSet) and getattr(self, "_last_set_order", None) is not None:
            seq_ghost = {"_seq": self._last_set_order}       # ghost of THIS loop's invariants: the enumeration of the iterated set
        elif isinstance(it, V) and isinstance(it.ty, TSeq):
            seq_ghost = {"_seq": it}
        env0 = {idx_name: V(TInt, z3.IntVal(0)), "_n": V(TInt, ln)}
        env0.update(seq_ghost)
        env0.update(self.spec_env(st))
        self.check_invs(st, "inv.init", k, spec, s, env0)
        names, attrs = self.assigned_names(s.body)
        for t in ast.walk(s.target):
            if isinstance(t, ast.Name):
                names.discard(t.id)
        results = []
        # arbitrary iteration
        body_st = st.fork()
        self.havoc(body_st, names, attrs, s.body)
        i = self.fresh(body_st, TInt, "_i")
        self._nonneg.add(i.t.get_id())
        body_st.assume(z3.And(0 <= i.t, i.t < ln))
        envi = {idx_name: i, "_n": V(TInt, ln)}
        envi.update(seq_ghost)
        envi.update(self.spec_env(body_st))
        self.assume_invs(body_st, spec, envi)
        body_st.env[idx_name] = i  # ghost: visible to invariants of nested loops
        if "_seq" in seq_ghost:
            body_st.env[f"_seq{k}"] = seq_ghost["_seq"]      # ghost: the sequence loop #k iterates, visible to nested invariants and hints
        # prefix stepping lemma for the iterated sequence: it[:i+1] == it[:i] + [it[i]]
        seq_t = None
        if isinstance(it, V) and isinstance(it.ty, TSeq):
            seq_t = it.t
        elif isinstance(it, V) and isinstance(it.ty, TDict):
            seq_t = it.ty.sort().keys(it.t)
        if seq_t is not None:
            body_st.assume(SQ.take(seq_t, i.t + 1) == SQ.append1(SQ.take(seq_t, i.t), SQ.at(seq_t, i.t)))
        item = at(i.t)
        if isinstance(item, V):
            inv = self.type_inv(item)       # an element taken out of a container keeps the representation invariant of its type (dict keys distinct, ...)
            if inv is not None:
                body_st.assume(inv)
        if getattr(self.c, "name_loop_items", False) and isinstance(s.target, ast.Name) and isinstance(item, V) and item.ty is not TNone:
            # opt-in: the loop variable gets a name of its own (item == seq[i] as a ground equation): obligations then mention the item, not the
            # sequence and index it came from, which keeps goal-directed slicing local
            named = self.fresh(body_st, item.ty, s.target.id)
            body_st.assume(named.t == item.t)
            item = named
        self.bind_target(s.target, item, body_st, s)
        for st2, out in self.exec_block(s.body, body_st):
            if out is None or out[0] == "continue":
                envn = {idx_name: V(TInt, i.t + 1), "_n": V(TInt, ln)}
                envn.update(seq_ghost)
                envn.update(self.spec_env(st2))
                self.check_invs(st2, "inv.pres", k, spec, s, envn)
            elif out[0] == "break":
                results.append((st2, None))
            else:
                results.append((st2, out))
        # exit
        exit_st = st.fork()
        exit_st.fresh_n = max(exit_st.fresh_n, body_st.fresh_n) + 1000
        self.havoc(exit_st, names, attrs, s.body)
        enve = {idx_name: V(TInt, ln), "_n": V(TInt, ln)}
        enve.update(seq_ghost)
        enve.update(self.spec_env(exit_st))
        exit_st.assume(ln >= 0)
        self.assume_invs(exit_st, spec, enve)
        if s.orelse:
            results.extend(self.exec_block(s.orelse, exit_st))
        else:
            results.append((exit_st, None))
        return results

    def unrolled_for(self, s, st, items):
        frontier = [st]
        results = []
        for item in items:
            nxt = []
            for cur in frontier:
                self.bind_target(s.target, item, cur, s)
                for st2, out in self.exec_block(s.body, cur):
                    if out is None or out[0] == "continue":
                        nxt.append(st2)
                    elif out[0] == "break":
                        results.append((st2, None))
                    else:
                        results.append((st2, out))
            frontier = nxt
        for cur in frontier:
            if s.orelse:
                results.extend(self.exec_block(s.orelse, cur))
            else:
                results.append((cur, None))
        return results

    def ex_While(self, s, st):
        k, spec = self.loop_spec(s)
        env0 = self.spec_env(st)
        self.check_invs(st, "inv.init", k, spec, s, env0)
        names, attrs = self.assigned_names(s.body)
        results = []
        body_st = st.fork()
        self.havoc(body_st, names, attrs, s.body)
        self.assume_invs(body_st, spec, self.spec_env(body_st))
        variant0 = None
        if "variant" in spec:
            variant0 = self.spec_int(spec["variant"], body_st)
        # the loop test is evaluated in the havocked state
        test_paths = self.exec_stmt(ast.copy_location(ast.If(test=s.test, body=[ast.Pass()], orelse=[ast.Break()]), s), body_st) if False else None
        c = None
        entered = []
        exited = []
        for val in (True, False):
            b = body_st.fork()
            try:
                cond = self.ev_test(s.test, b)
            except NeedSplit as ns:
                raise OutOfSubset(s, f"loop test needs a path split on {str(ns.cond)[:200]}")
            b.assume(cond if val else z3.Not(cond))
            if self.feasible(b):
                (entered if val else exited).append(b)
        for b in entered:
            for st2, out in self.exec_block(s.body, b):
                if out is None or out[0] == "continue":
                    self.check_invs(st2, "inv.pres", k, spec, s, self.spec_env(st2))
                    if variant0 is not None:
                        v1 = self.spec_int(spec["variant"], st2)
                        self.oblige(st2, f"variant[{k}]", s, z3.And(v1 < variant0, variant0 >= 0), spec["variant"])
                elif out[0] == "break":
                    results.append((st2, None))
                else:
                    results.append((st2, out))
        for b in exited:
            if s.orelse:
                results.extend(self.exec_block(s.orelse, b))
            else:
                results.append((b, None))
        if "variant" not in spec:
            self.notes.append(f"while loop #{k}: no variant given, termination not proved")
        return results

    def spec_int(self, text, st):
        from .contracts import parse_clause

        saved = self.spec_mode
        self.spec_mode = True
        try:
            v = self.ev(parse_clause(text), st)
        finally:
            self.spec_mode = saved
        return v.t

    def ex_With(self, s, st):
        raise OutOfSubset(s, "with statement")

    # ------------------------------------------------------------------ main
    def run(self):
        from .contracts import verify_function

        return verify_function(self)


class _NotBool(Exception):
    def __init__(self, v, i):
        self.v, self.i = v, i


class _ConcreteIter(Exception):
    def __init__(self, items):
        self.items = items


def _as_load(t):
    t2 = ast.parse(ast.unparse(t), mode="eval").body
    return t2
