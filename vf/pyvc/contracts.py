"""Contract objects, registry, source frontend and the per-function verification driver."""
from __future__ import annotations

import ast
import functools
import hashlib
import time
from pathlib import Path

import z3

from .types import MObj, TBool, TInt, TNone, TObj, TPy, TRec, TSeq, TStr, Ty, V, parse_ty

import os

REPO = Path(os.environ.get("VERIF_REPO", "/repo"))


@functools.lru_cache(maxsize=4096)
def parse_clause(text):
    return ast.parse(text.strip(), mode="eval").body


class Contract:
    """Sidecar contract for `path::QualName` (DESIGN.md §2.1a).

    params      name -> type text ('Seq[Int]', record names ...) or an `obj(...)` description for
                mutable receivers: {"self": {"_mutations": "Dict[Key,Val]", ...}}
    requires    clause texts (python expressions over the parameters + spec helpers)
    ensures     clause texts over parameters, `result`, `old_<param>` (entry snapshots)
    raises      exception class name -> clause text (condition under which it is raised, over the
                entry state) or None (may be raised, unspecified when)
    loops       loop ordinal (pre-order within the function) -> {"inv": [...], "variant": text, "index": name}
    returns     type text of the result (needed when used as a callee)
    modifies    receiver attributes the function may write (frame)
    """

    def __init__(self, target, params=None, requires=(), ensures=(), raises=None, loops=None, returns=None,
                 modifies=None, calls=None, globals=None, props=(), yields=None, is_property=False, cls=None,
                 local_types=None, axioms=(), spec_env=None, pre_raises=None, lemmas=None, frame_objects=("self",),
                 raise_post=None, notes="", truthy_of=None, structural_eq=False, raises_type=None, trusted=False,
                 drop_decorators=(), strict_sorts=True, cases=None, lets=None, concrete_env=None, no_monitor=False, flat=None, defs=None, keyed=None, strict_lookup=False):
        self.strict_lookup = strict_lookup
        self.keyed = dict(keyed or {})
        self.defs = dict(defs or {})
        self.flat = dict(flat or {})
        self.concrete_env = dict(concrete_env or {})
        self.no_monitor = no_monitor
        self.lets = dict(lets or {})
        self.target = target
        self.path, self.qual = (target.split("::") + [None])[:2] if "::" in target else (None, target)
        self.short = (self.qual or target).split(".")[-1]
        self.cls = cls if cls is not None else (self.qual.split(".")[0] if self.qual and "." in self.qual and "<locals>" not in self.qual else None)
        self.params = dict(params or {})
        self.requires = list(requires)
        self.ensures = list(ensures)
        self.raises = dict(raises or {})
        self.loops = dict(loops or {})
        self.returns = returns if returns == "self" else (parse_ty(returns) if isinstance(returns, str) else returns)
        self.modifies = list(modifies) if modifies is not None else None
        self.frame = set(modifies) if modifies is not None else None
        self.frame_objects = set(frame_objects)
        self.calls = dict(calls or {})
        self.globals = dict(globals or {})
        self.props = list(props)
        self.yield_type = parse_ty(yields) if isinstance(yields, str) else yields
        self.is_property = is_property
        self.local_types = {k: parse_ty(v) if isinstance(v, str) else v for k, v in (local_types or {}).items()}
        self._axioms = list(axioms)
        self.spec_env = dict(spec_env or {})
        self.pre_raises = dict(pre_raises or {})
        self.lemmas = dict(lemmas or {})
        self.raise_post = dict(raise_post or {})
        self.notes = notes
        self.truthy_of = dict(truthy_of or {})
        self.structural_eq = structural_eq
        self.raises_type = raises_type
        self.trusted = trusted  # assumed contract (library / out of subset): never verified against a body
        self.strict_sorts = strict_sorts
        self.cases = cases  # optional list of {param: None|...} instantiations for Optional parameters

    def axioms_z3(self):
        out = []
        for a in self._axioms:
            out.extend(a() if callable(a) else [a])
        return out

    # -- used at call sites ------------------------------------------------
    def bind_args(self, args, kwargs, eng, node):
        names = list(self.params)
        env = {}
        if len(args) > len(names):
            from .engine import OutOfSubset

            raise OutOfSubset(node, f"too many arguments for contract {self.target}")
        for nm, a in zip(names, args):
            env[nm] = a
        for k, v in kwargs.items():
            if k == "**":
                kp = getattr(self, "kwarg_param", None)
                if kp is None:
                    from .engine import OutOfSubset

                    raise OutOfSubset(node, f"**kwargs passed to {self.target}, whose contract declares no kwarg_param")
                env[kp] = v
                continue
            env[k] = v
        for nm in names:
            if nm not in env:
                d = self.defaults.get(nm, _MISSING) if hasattr(self, "defaults") else _MISSING
                if d is _MISSING:
                    from .engine import OutOfSubset

                    raise OutOfSubset(node, f"missing argument {nm} for contract {self.target}")
                from .engine import lift

                env[nm] = lift(d)
        for nm, ad in getattr(self, "adapters", {}).items():
            if nm in env:
                env[nm] = ad(eng, env[nm], node)
        # coerce symbolic arguments into the declared parameter types where these are plain types
        for nm in names:
            pt = self.params[nm]
            if isinstance(pt, str):
                pt = parse_ty(pt)
            if isinstance(pt, Ty) and not isinstance(pt, TPy):
                try:
                    env[nm] = eng.coerce(env[nm], pt, node)
                except Exception:
                    pass
        return env


_MISSING = object()


class Registry:
    def __init__(self):
        self.by_target = {}
        self.methods = {}  # (class name, method) -> Contract
        self.functions = {}
        self.bases = {"DefaultOperatorResolver": ["OperatorResolver"], "ConstraintOperatorResolver": ["DefaultOperatorResolver"],
                      "DefaultFormulaParser": ["FormulaParser"]}
        self.builtins = {"len", "range", "list", "tuple", "set", "dict", "sorted", "enumerate", "isinstance", "zip", "str",
                         "int", "bool", "min", "max", "sum", "any", "all", "next", "iter", "reversed", "slice", "repr", "hash",
                         "abs", "frozenset", "print", "cast", "type", "getattr", "hasattr", "float", "id", "map", "filter"}
        self.exc_parents = {
            "KeyError": "LookupError", "IndexError": "LookupError", "LookupError": "Exception", "ValueError": "Exception",
            "TypeError": "Exception", "AttributeError": "Exception", "RuntimeError": "Exception", "StopIteration": "Exception",
            "ZeroDivisionError": "ArithmeticError", "ArithmeticError": "Exception", "AssertionError": "Exception",
            "NotImplementedError": "RuntimeError", "NameError": "Exception", "SyntaxError": "Exception",
            "FormulaicError": "Exception", "FormulaInvalidError": "FormulaicError", "FormulaParsingError": "FormulaInvalidError",
            "FormulaSyntaxError": "FormulaParsingError", "FormulaMaterializationError": "FormulaicError",
            "FactorEncodingError": "FormulaMaterializationError", "FactorEvaluationError": "FormulaMaterializationError",
            "Exception": "BaseException",
        }

    def add(self, c, as_method=None, as_function=None):
        self.by_target[c.target] = c
        if as_method:
            self.methods[as_method] = c
        elif c.qual and "." in c.qual and "<locals>" not in c.qual:
            cls, m = c.qual.rsplit(".", 1)
            self.methods[(cls, m)] = c
        if as_function:
            self.functions[as_function] = c
        elif c.qual and "." not in c.qual:
            self.functions[c.qual] = c
        return c

    def lookup_method(self, cls, m):
        seen = set()
        todo = [cls]
        while todo:
            c = todo.pop(0)
            if c in seen:
                continue
            seen.add(c)
            k = self.methods.get((c, m))
            if k is not None:
                return k
            todo.extend(self.bases.get(c, ()))
        return None

    def lookup_function(self, name):
        return self.functions.get(name)

    def is_subclass(self, exc, parent):
        if parent == "*":
            return True
        while exc is not None:
            if exc == parent:
                return True
            exc = self.exc_parents.get(exc)
        return False


# --------------------------------------------------------------------------- frontend
DROPPED = ("docstrings, comments, type annotations, decorators (@property, @cached_property, @staticmethod, @classmethod, "
           "@override), default-argument expressions (re-introduced through `requires`/explicit arguments)")


def load_function(path, qual):
    """Parse /repo/<path> afresh and return (FunctionDef|Lambda node, sha256 of its ast dump, source line)."""
    src = (REPO / path).read_text()
    tree = ast.parse(src)
    node = tree
    parts = [p for p in qual.split(".") if p != "<locals>"]
    lam = None
    cut = None
    if parts and parts[-1].startswith("<dispatch:"):
        # <dispatch:GENERIC/TYPE>: the implementation registered with `@GENERIC.register` whose first parameter is annotated TYPE
        generic, ann = parts.pop()[10:-1].split("/", 1)
        for p in parts:
            node = next(c for c in ast.walk(node) if isinstance(c, (ast.FunctionDef, ast.ClassDef)) and c.name == p)
        hits = [c for c in ast.walk(node) if isinstance(c, ast.FunctionDef) and c.args.args and c.args.args[0].annotation is not None
                and ast.unparse(c.args.args[0].annotation) == ann
                and any(ast.unparse(d) in (f"{generic}.register", f"{generic}.register({ann})") for d in c.decorator_list)]
        if len(hits) != 1:
            raise LookupError(f"{path}::{qual}: {len(hits)} implementations of {generic} registered for {ann} in the current working tree")
        node = hits[0]
        h = hashlib.sha256(ast.dump(node).encode()).hexdigest()[:16]
        return node, h
    if parts and parts[-1].startswith("<from:"):
        cut = parts.pop()[6:-1]          # <from:NAME>: the statements of the function from the first top-level assignment to NAME to the end
    if parts and parts[-1].startswith("<op:"):
        lam = parts.pop()[4:-1]          # <op:SYMBOL/ARITY[/FIXITY][#N]/KEYWORD>  e.g. <op:+/2/to_terms>, <op:~/2#1/to_terms>
    for p in parts:
        found = None
        body = node.body if hasattr(node, "body") else []
        # search direct children first, then nested statements (e.g. defs inside if/try)
        for child in body:
            if isinstance(child, (ast.FunctionDef, ast.ClassDef, ast.AsyncFunctionDef)) and child.name == p:
                found = child           # no break: a later definition rebinds the name (typing.overload stubs come first)
        if found is None:
            for child in ast.walk(node):
                if child is not node and isinstance(child, (ast.FunctionDef, ast.ClassDef)) and child.name == p:
                    found = child
                    break
        if found is None:
            raise LookupError(f"{path}::{qual}: `{p}` not found in the current working tree")
        node = found
    if lam is not None:
        spec, kwname = lam.rsplit("/", 1)
        nth = 0
        if "#" in spec:
            spec, nth_s = spec.split("#")
            nth = int(nth_s)
        bits = spec.split("/")
        sym, arity = bits[0], int(bits[1])
        sym = {"colon": ":", "star": "*", "slash": "/", "tilde": "~", "bar": "|", "dot": ".", "pow": "**", "hat": "^"}.get(sym, sym)
        fixity = bits[2] if len(bits) > 2 else None
        hits = []
        for call in ast.walk(node):
            if isinstance(call, ast.Call) and isinstance(call.func, ast.Name) and call.func.id == "Operator" and call.args \
                    and isinstance(call.args[0], ast.Constant) and call.args[0].value == sym:
                kws = {k.arg: k.value for k in call.keywords}
                if isinstance(kws.get("arity"), ast.Constant) and kws["arity"].value == arity:
                    fx = kws.get("fixity")
                    fxv = fx.value if isinstance(fx, ast.Constant) else None
                    if fixity is None and fxv not in (None, "infix") and arity == 1:
                        pass
                    if fixity is not None and fxv != fixity:
                        continue
                    if fixity is None and fxv is not None:
                        continue
                    hits.append(kws)
        if len(hits) <= nth or kwname not in hits[nth]:
            raise LookupError(f"{path}::{qual}: Operator({sym!r}, arity={arity}) #{nth} with keyword {kwname} not found")
        val = hits[nth][kwname]
        if isinstance(val, ast.Name):
            # keyword refers to a nested def of the same enclosing function
            for child in ast.walk(node):
                if isinstance(child, ast.FunctionDef) and child.name == val.id:
                    node = child
                    break
            else:
                raise LookupError(f"{path}::{qual}: nested function {val.id} not found")
        elif isinstance(val, ast.Lambda):
            fd = ast.FunctionDef(name=f"op_{kwname}", args=val.args, body=[ast.Return(value=val.body)], decorator_list=[], returns=None, type_comment=None)
            try:
                fd.type_params = []
            except Exception:
                pass
            ast.copy_location(fd, val)
            ast.copy_location(fd.body[0], val)
            ast.fix_missing_locations(fd)
            node = fd
        else:
            raise LookupError(f"{path}::{qual}: keyword {kwname} is neither a lambda nor a name")
    if cut is not None:
        node = _tail_of(node, cut, f"{path}::{qual}")
    h = hashlib.sha256(ast.dump(node).encode()).hexdigest()[:16]
    return node, h


def _tail_of(fn, name, where):
    """Mechanical extraction of the tail of a function body: the top-level statements from the first assignment to `name` to the end, as a
    function whose parameters are the names the tail reads that the dropped prefix binds (parameters of the original function and names
    stored in the prefix), in order of first use.  What is dropped: the prefix; the tail is verified for EVERY value of those names that
    satisfies the contract's `requires` (so the contract's preconditions are assumptions about the prefix)."""
    def stores(stmt):
        tg = stmt.targets if isinstance(stmt, ast.Assign) else [stmt.target] if isinstance(stmt, (ast.AnnAssign, ast.AugAssign)) else []
        return {t.id for t in tg if isinstance(t, ast.Name)}

    at = next((i for i, s_ in enumerate(fn.body) if name in stores(s_)), None)
    if at is None:
        raise LookupError(f"{where}: no top-level assignment to `{name}` in the current working tree")
    prefix, tail = fn.body[:at], fn.body[at:]
    a = fn.args
    bound = [x.arg for x in a.posonlyargs + a.args + a.kwonlyargs] + [x.arg for x in (a.vararg, a.kwarg) if x is not None]
    for s_ in prefix:
        for x in ast.walk(s_):
            if isinstance(x, ast.Name) and isinstance(x.ctx, ast.Store) and x.id not in bound:
                bound.append(x.id)
    used, defined = [], set()
    for s_ in tail:
        for x in ast.walk(s_):
            if isinstance(x, ast.Name) and isinstance(x.ctx, ast.Load) and x.id in bound and x.id not in used:
                used.append(x.id)
    # a name stored by the tail before any read still counts as read if it is read anywhere (conservative: it becomes a parameter only
    # when the prefix binds it too)
    first_store = {}
    for s_ in tail:
        for x in ast.walk(s_):
            if isinstance(x, ast.Name) and isinstance(x.ctx, ast.Store):
                first_store.setdefault(x.id, (x.lineno, x.col_offset))
    params = []
    for nm in used:
        loads = [(x.lineno, x.col_offset) for s_ in tail for x in ast.walk(s_) if isinstance(x, ast.Name) and isinstance(x.ctx, ast.Load) and x.id == nm]
        if nm in first_store and first_store[nm] < min(loads) and nm == name:
            continue                      # the cut variable itself: (re)bound by the first statement of the tail
        params.append(nm)
    fd = ast.FunctionDef(name=f"{fn.name}__from_{name}", args=ast.arguments(posonlyargs=[], args=[ast.arg(arg=p_) for p_ in params], kwonlyargs=[], kw_defaults=[], defaults=[]),
                         body=tail, decorator_list=[], returns=None, type_comment=None)
    try:
        fd.type_params = []
    except Exception:
        pass
    ast.copy_location(fd, tail[0])
    ast.fix_missing_locations(fd)
    return fd


# --------------------------------------------------------------------------- verification driver
def make_param(eng, st, name, spec):
    if isinstance(spec, tuple) and spec and spec[0] == "pytuple":
        return tuple(make_param(eng, st, f"{name}.{i}", t) for i, t in enumerate(spec[1:]))
    if isinstance(spec, dict):
        cls = spec.get("__class__", name)
        attrs = {}
        for a, t in spec.items():
            if a == "__class__":
                continue
            attrs[a] = make_param(eng, st, f"{name}.{a}", t)
        return MObj(cls, attrs)
    ty = parse_ty(spec) if isinstance(spec, str) else spec
    if isinstance(ty, TPy):
        return spec
    return eng.fresh(st, ty, name)


def verify_function(eng):
    """Generates all obligations for eng.fn against eng.c. Returns eng.obls (unsolved)."""
    from .engine import Obligation, OutOfSubset, State, lift

    c, fn = eng.c, eng.fn
    st = State()
    argnames = [a.arg for a in fn.args.args] + [a.arg for a in fn.args.kwonlyargs]
    if fn.args.vararg:
        argnames.append(fn.args.vararg.arg)
    if fn.args.kwarg:
        argnames.append(fn.args.kwarg.arg)
    for nm in argnames:
        if nm not in c.params:
            raise OutOfSubset(fn, f"parameter `{nm}` has no type in the contract")
    for nm, spec in c.params.items():
        if nm not in argnames and not nm.startswith("_ghost"):
            raise OutOfSubset(fn, f"contract parameter `{nm}` is not a parameter of the current function (signature changed)")
        val = make_param(eng, st, nm, spec)
        st.env[nm] = val
    for (cls_, attr_), fty in getattr(c, "heap_fields", {}).items():
        from .types import THeap, TObj as _TObj

        st.env[f"$heap.{cls_}.{attr_}"] = eng.fresh(st, THeap(_TObj(cls_), fty), f"heap.{cls_}.{attr_}")
    for nm, val in list(st.env.items()):
        st.env["old_" + nm] = val.copy() if isinstance(val, MObj) else val
    st.env.update(c.spec_env)
    for (cls_, attr_), fty in getattr(c, "heap_fields", {}).items():
        # clause access to the ENTRY value of the attribute: entry_<attr>(obj); `obj.<attr>` in a clause reads the state the clause is evaluated in
        def _entry(eng_, args, kw, n, st_, _h=st.env[f"$heap.{cls_}.{attr_}"], _t=fty):
            return V(_t, z3.Select(_h.t, args[0].t))

        st.env[f"entry_{attr_}"] = _entry
    for nm, text in c.lets.items():
        eng.spec_mode = True
        try:
            st.env[nm] = eng.ev(parse_clause(text), st)
            st.env["old_" + nm] = st.env[nm]
        finally:
            eng.spec_mode = False
    # ghost predicate definitions over the entry state: name -> (int parameter names, body clause)
    def _mk(f_, rty_):
        return lambda eng_, args, kw, n, st_: V(rty_, f_(*[a.t for a in args]))

    dfns = {}
    for nm, d_ in c.defs.items():
        # (int parameter names, body clause[, result type]): Bool by default; a typed definition may be recursive (it is then a spec
        # FUNCTION given by its defining equation, e.g. the Cox-de Boor recursion) and may use the definitions declared before it
        rty = parse_ty(d_[2]) if len(d_) > 2 else TBool
        dfns[nm] = (z3.Function(f"def!{nm}", *([z3.IntSort()] * len(d_[0])), rty.sort()), rty)
        st.env[nm] = _mk(*dfns[nm])
    for nm, d_ in c.defs.items():
        pnames, body = d_[0], d_[1]
        dfn, rty = dfns[nm]
        bound = [z3.Int(f"{p}!d{nm}") for p in pnames]
        saved = dict(st.env)
        for p, b in zip(pnames, bound):
            st.env[p] = V(TInt, b)
        import re as _re
        if _re.search(rf"\b{nm}\(", body):
            # recursive definition: one unfolding per occurrence (the "fuel" encoding of Dafny/Boogie) - the body refers to a synonym
            # nm!0 of the function, with  forall args: nm(args) == nm!0(args)  triggered on nm(args) only, so that instantiating the defining
            # equation does not create new instances of itself (no matching loop)
            low = z3.Function(f"def!{nm}!0", *([z3.IntSort()] * len(pnames)), rty.sort())
            st.env[nm] = _mk(low, rty)
            st.assume(z3.ForAll(bound, dfn(*bound) == low(*bound), patterns=[dfn(*bound)]))
        if rty is TBool:
            bt = eng.spec_bool(body, st)
        else:
            eng.spec_mode = True
            try:
                bt = eng.coerce(eng.ev(parse_clause(body), st), rty, fn).t
            finally:
                eng.spec_mode = False
        st.env = saved
        st.assume(z3.ForAll(bound, dfn(*bound) == bt, patterns=[dfn(*bound)]))
    if c.yield_type is not None:
        from .types import TSeq as _TS
        from . import seqs as _SQ

        st.yielded = V(_TS(c.yield_type), _SQ.empty(_TS(c.yield_type).sort()))
    for r in c.requires:
        st.assume(eng.spec_bool(r, st))
    # vacuity guard: requires (+ type invariants) satisfiable
    cov = Obligation("cover.pre", "cover", st.hyps(), z3.BoolVal(False), fn.lineno, "preconditions are satisfiable")
    cov.expect_sat = True
    eng.obls.append(cov)
    outs = eng.exec_block(fn.body, st)
    nret = 0
    for st2, out in outs:
        eng.npaths += 1
        if out is None:
            out = ("return", V(TNone, None))
        if out[0] == "return":
            res = out[1]
            if st2.yielded is not None or c.yield_type is not None:
                from .types import TSeq as _TSeq

                res = st2.yielded if st2.yielded is not None else V(_TSeq(c.yield_type), z3.Empty(_TSeq(c.yield_type).sort()))
            saved = st2.env
            st2.env = dict(saved)
            st2.env["result"] = res
            for i, e in enumerate(getattr(c, "exit_lemmas", [])):
                # exit lemma: proved from the path's hypotheses like a postcondition, then available to the clauses after it
                goal = z3.simplify(eng.spec_bool(e, st2))
                eng.obls.append(Obligation(f"lemma[{i}]", "post", st2.hyps(), goal, getattr(out, "lineno", fn.lineno), e))
                st2.assume(goal)
            for i, e in enumerate(c.ensures):
                goal = eng.spec_bool(e, st2)
                ob = Obligation(f"post[{i}]", "post", st2.hyps(), z3.simplify(goal), getattr(out, "lineno", fn.lineno), e)
                eng.obls.append(ob)
            st2.env = saved
            nret += 1
            cv = Obligation(f"cover.path[{nret}]", "cover", st2.hyps(), z3.BoolVal(False), fn.lineno, "return path reachable")
            cv.expect_sat = True
            cv.optional = True
            eng.obls.append(cv)
        elif out[0] == "raise":
            exc, node = out[1], out[2]
            allowed = [e for e in c.raises if eng.reg.is_subclass(exc, e)]
            ob = Obligation(f"raises[{exc}]@{eng.site(node)}", "raises", st2.hyps(), z3.BoolVal(bool(allowed)), getattr(node, "lineno", 0),
                            f"{exc} escapes; declared raises: {sorted(c.raises)}")
            eng.obls.append(ob)
            if allowed:
                cond = c.raises[allowed[0]]
                if cond is not None:
                    # the declared raise condition (over the entry state) must hold whenever we raise
                    saved = st2.env
                    st2.env = {k[4:]: v for k, v in saved.items() if k.startswith("old_")}
                    st2.env.update({k: v for k, v in saved.items() if k.startswith("old_")})
                    st2.env.update(c.spec_env)
                    goal = eng.spec_bool(cond, st2)
                    st2.env = saved
                    eng.obls.append(Obligation(f"raises.when[{exc}]@{eng.site(node)}", "raises", st2.hyps(), z3.simplify(goal), getattr(node, "lineno", 0), cond))
                for i, e in enumerate(c.raise_post.get(allowed[0], [])):
                    goal = eng.spec_bool(e, st2)
                    eng.obls.append(Obligation(f"raises.post[{exc}][{i}]@{eng.site(node)}", "raises", st2.hyps(), z3.simplify(goal), getattr(node, "lineno", 0), e))
        else:
            raise OutOfSubset(fn, f"stray {out[0]} outside a loop")
    # completeness of declared raise conditions: if the condition holds at entry, no return path is feasible
    for exc, cond in c.raises.items():
        if cond is None:
            continue
        for st2, out in outs:
            if out is None or out[0] == "return":
                saved = st2.env
                st2.env = {k[4:]: v for k, v in saved.items() if k.startswith("old_")}
                st2.env.update(c.spec_env)
                g = eng.spec_bool(cond, st2)
                st2.env = saved
                eng.obls.append(Obligation(f"raises.iff[{exc}]", "raises", st2.hyps(), z3.simplify(z3.Not(g)), fn.lineno, f"returns normally only when not ({cond})"))
    # vacuity canary: `False` at the end of a normally returning path must NOT be provable
    return eng.obls
