"""Sorts of the pyvc encoding (DESIGN.md §2.2 'Sorts').

Every Python value the engine tracks is a `V(ty, term)` where `term` is a z3 expression of
`ty.sort()`, or — for the python-level kinds (tuples of fixed arity, mutable objects, functions,
constants) — a Python structure of such values.
"""
from __future__ import annotations

import z3

_SORT_CACHE = {}


class Ty:
    name = "?"

    def sort(self):
        raise NotImplementedError(f"type {self!r} has no single z3 sort")

    def __repr__(self):
        return self.name

    def __eq__(self, o):
        return isinstance(o, Ty) and repr(self) == repr(o)

    def __hash__(self):
        return hash(repr(self))


class _Prim(Ty):
    def __init__(self, name, mk):
        self.name, self._mk = name, mk

    def sort(self):
        return self._mk()


TInt = _Prim("Int", z3.IntSort)
TBool = _Prim("Bool", z3.BoolSort)
TReal = _Prim("Real", z3.RealSort)
TStr = _Prim("Str", z3.StringSort)


class TNoneT(Ty):
    name = "None"


TNone = TNoneT()


class TSeq(Ty):
    """list / tuple (homogeneous) / OrderedSet / dict-key order.  z3 Seq(elem)."""

    def __init__(self, elem, nodup=False):
        self.elem, self.nodup = elem, nodup
        self.name = f"Seq[{elem!r}]"

    def sort(self):
        from . import seqs

        return seqs.theory(self.elem.sort()).S


class TSet(Ty):
    def __init__(self, elem):
        self.elem = elem
        self.name = f"Set[{elem!r}]"

    def sort(self):
        return z3.SetSort(self.elem.sort())


class TDict(Ty):
    """dict: insertion-ordered key sequence + value array (datatype with two fields)."""

    def __init__(self, k, v):
        self.k, self.v = k, v
        self.name = f"Dict[{k!r},{v!r}]"

    def sort(self):
        key = self.name
        if key not in _SORT_CACHE:
            m = _mangle(key)
            d = z3.Datatype("D_" + m)
            from . import seqs

            # constructor/accessor names are unique per type (SMT-LIB text must be unambiguous); python-side aliases below
            d.declare("mk_" + m, ("keys_" + m, seqs.theory(self.k.sort()).S), ("val_" + m, z3.ArraySort(self.k.sort(), self.v.sort())))
            srt = d.create()
            srt.mk, srt.keys, srt.val = srt.constructor(0), srt.accessor(0, 0), srt.accessor(0, 1)
            _SORT_CACHE[key] = srt
        return _SORT_CACHE[key]


class TKSet(TDict):
    """set (or identity dict) of records that compare equal by one key field (e.g. ScaledFactor: __eq__/__hash__ use `.factor`
    only).  Represented as a map key -> payload field; the element for key k is rec(k, val[k])."""

    def __init__(self, rec, keyfield, valfield):
        self.rec, self.keyfield, self.valfield = rec, keyfield, valfield
        super().__init__(rec.fields[keyfield], rec.fields[valfield])
        self.name = f"KSet[{rec.name}]"

    def sort(self):
        return TDict(self.k, self.v).sort()

    def elem_at_key(self, dterm, k):
        s = self.sort()
        args = [k if f == self.keyfield else z3.Select(s.val(dterm), k) for f in self.rec.order]
        return self.rec.mk(*args)


class TObj(Ty):
    """Opaque immutable object sort (uninterpreted), compared with `==` up to its own __eq__
    (assumption A-eq: the sort is the quotient of the class by __eq__)."""

    def __init__(self, name):
        self.name = name

    def sort(self):
        if self.name not in _SORT_CACHE:
            _SORT_CACHE[self.name] = z3.DeclareSort(self.name)
        return _SORT_CACHE[self.name]


class TRec(TObj):
    """Immutable record: uninterpreted sort + one uninterpreted function per declared field.
    Fields may also be addressed by position (namedtuples) through `order`."""

    _REG = {}

    def __init__(self, name, fields=None, order=None):
        super().__init__(name)
        if fields is not None:
            TRec._REG[name] = (dict(fields), list(order or fields))

    @property
    def fields(self):
        return TRec._REG[self.name][0]

    @property
    def order(self):
        return TRec._REG[self.name][1]

    def field_fn(self, f):
        fty = self.fields[f]
        key = ("fld", self.name, f)
        if key not in _SORT_CACHE:
            _SORT_CACHE[key] = z3.Function(f"{self.name}.{f}", self.sort(), fty.sort())
        return _SORT_CACHE[key]


class TEnum(Ty):
    def __init__(self, name, members):
        self.name, self.members = name, list(members)

    def sort(self):
        if self.name not in _SORT_CACHE:
            s, consts = z3.EnumSort(self.name, self.members)
            _SORT_CACHE[self.name] = (s, dict(zip(self.members, consts)))
        return _SORT_CACHE[self.name][0]

    def member(self, m):
        self.sort()
        return _SORT_CACHE[self.name][1][m]


class TOpt(Ty):
    """Optional[T] as a datatype none | some(v)."""

    def __init__(self, t):
        self.t = t
        self.name = f"Opt[{t!r}]"

    def sort(self):
        if self.name not in _SORT_CACHE:
            m = _mangle(self.name)
            d = z3.Datatype("O_" + m)
            d.declare("none_" + m)
            d.declare("some_" + m, ("v_" + m, self.t.sort()))
            srt = d.create()
            srt.none, srt.some = srt.constructor(0)(), srt.constructor(1)
            srt.is_none, srt.is_some, srt.v = srt.recognizer(0), srt.recognizer(1), srt.accessor(1, 0)
            _SORT_CACHE[self.name] = srt
        return _SORT_CACHE[self.name]


class TData(Ty):
    """Immutable record with a constructor (z3 datatype): e.g. slice(start, stop)."""

    _REG = {}

    def __init__(self, name, fields):
        self.name, self.fields = name, dict(fields)
        self.order = list(fields)
        TData._REG[name] = self

    def sort(self):
        if ("data", self.name) not in _SORT_CACHE:
            d = z3.Datatype(self.name)
            d.declare("mk_" + self.name, *[(f"{self.name}_{f}", t.sort()) for f, t in self.fields.items()])
            _SORT_CACHE[("data", self.name)] = d.create()
        return _SORT_CACHE[("data", self.name)]

    def get(self, term, f):
        s = self.sort()
        return s.accessor(0, self.order.index(f))(term)

    def mk(self, *terms):
        return self.sort().constructor(0)(*terms)


TSLICE = TData("slice", {"start": TInt, "stop": TInt})


class TTup(Ty):
    """Fixed-arity heterogeneous tuple. Python-level (tuple of V) unless stored in a container,
    in which case a datatype with positional fields is used."""

    def __init__(self, *elems):
        self.elems = list(elems)
        self.name = "Tup[" + ",".join(map(repr, elems)) + "]"

    def sort(self):
        if self.name not in _SORT_CACHE:
            m = _mangle(self.name)
            d = z3.Datatype("T_" + m)
            d.declare("mk_" + m, *[(f"f{i}_{m}", t.sort()) for i, t in enumerate(self.elems)])
            srt = d.create()
            srt.mk = srt.constructor(0)
            _SORT_CACHE[self.name] = srt
        return _SORT_CACHE[self.name]


class TPy(Ty):
    """Python-level value (constant, function, class, module, mutable object)."""

    def __init__(self, what="py"):
        self.name = f"Py[{what}]"


def _mangle(s):
    return "".join(c if c.isalnum() else "_" for c in s)


class V:
    """A symbolic value."""

    __slots__ = ("ty", "t")

    def __init__(self, ty, t):
        self.ty, self.t = ty, t

    def __repr__(self):
        return f"V({self.ty!r}, {self.t})"


class MObj:
    """Mutable python-level object (e.g. `self`): attribute name -> V. Copied on path forks."""

    def __init__(self, cls, attrs):
        self.cls, self.attrs = cls, dict(attrs)

    def copy(self):
        # nested mutable objects (value.__formulaic_metadata__) are copied too: a path fork must not share them
        return MObj(self.cls, {k: (v.copy() if isinstance(v, MObj) else v) for k, v in self.attrs.items()})


def parse_ty(s, recs=None):
    """'Seq[Int]', 'Dict[Str,Int]', 'Set[Term]', 'Opt[Int]', 'Tup[Int,Str]', record/obj names."""
    s = s.strip()
    prim = {"Int": TInt, "Bool": TBool, "Real": TReal, "Str": TStr, "None": TNone}
    if s in prim:
        return prim[s]
    if "[" in s:
        head, rest = s.split("[", 1)
        rest = rest[: rest.rindex("]")]
        args, depth, cur = [], 0, ""
        for ch in rest:
            if ch == "[":
                depth += 1
            if ch == "]":
                depth -= 1
            if ch == "," and depth == 0:
                args.append(cur)
                cur = ""
            else:
                cur += ch
        args.append(cur)
        a = [parse_ty(x, recs) for x in args]
        if head == "Seq":
            return TSeq(a[0])
        if head == "OSet":
            return TSeq(a[0], nodup=True)
        if head == "Set":
            return TSet(a[0])
        if head == "Dict":
            return TDict(a[0], a[1])
        if head == "Opt":
            return TOpt(a[0])
        if head == "Tup":
            return TTup(*a)
        raise ValueError(s)
    if s == "slice":
        return TSLICE
    if s in TData._REG:
        return TData._REG[s]
    if s in TRec._REG:
        return TRec(s)
    if recs and s in recs:
        return recs[s]
    return TObj(s)


class THeap(Ty):
    """ghost heap field: the value of one mutable attribute for every object of an opaque class (array object -> value)"""

    def __init__(self, cls, val):
        self.cls, self.val = cls, val
        self.name = f"Heap[{cls!r},{val!r}]"

    def sort(self):
        return z3.ArraySort(self.cls.sort(), self.val.sort())
