"""Discharging obligations: one SMT-LIB2 query per obligation, 16-process pool, z3 (python API)
first, then /usr/bin/cvc5 --strings-exp and z3-new on the same text for anything left unknown."""
from __future__ import annotations

import multiprocessing as mp
import os
import subprocess
import tempfile
import time

import z3


_DECL_CACHE = {}


def decls(e):
    """names of the uninterpreted functions/constants/sorts occurring in e"""
    key = e.get_id()
    if key in _DECL_CACHE and _DECL_CACHE[key][0].eq(e):
        return _DECL_CACHE[key][1]
    out = set()
    seen = set()
    stack = [e]
    while stack:
        x = stack.pop()
        if x.get_id() in seen:
            continue
        seen.add(x.get_id())
        if z3.is_quantifier(x):
            stack.append(x.body())
            for i in range(x.num_vars()):
                out.add("sort:" + str(x.var_sort(i)))
            continue
        if z3.is_app(x):
            d = x.decl()
            if d.kind() == z3.Z3_OP_UNINTERPRETED:
                out.add(d.name())
            out.add("sort:" + str(x.sort()))
            stack.extend(x.children())
    _DECL_CACHE[key] = (e, out)  # keeping `e` alive pins its AST id (ids are recycled after garbage collection)
    return out


def relevant_axioms(axioms, ob):
    """Only the axioms that share an uninterpreted symbol with the query (to a fixpoint): irrelevant quantified
    axioms turn `sat` answers into `unknown`."""
    syms = set()
    for h in ob.hyps:
        syms |= decls(h)
    syms |= decls(ob.goal)
    chosen = []
    rest = [(a, {x for x in decls(a) if not x.startswith("sort:")}) for a in axioms]
    changed = True
    while changed:
        changed = False
        nxt = []
        for a, d in rest:          # (no list.remove on z3 terms: `==` on them builds new terms)
            if d & syms:
                chosen.append(a)
                syms |= d
                changed = True
            else:
                nxt.append((a, d))
        rest = nxt
    return chosen


def cone_of_influence(axioms, ob):
    """Hypotheses and axioms connected to the goal through shared uninterpreted symbols (transitively).  The rest shares no
    uninterpreted symbol with the kept part, so it is independent: dropping it changes neither unsat nor (given that the path
    condition is satisfiable) sat.  Quantified facts about unrelated containers otherwise turn `sat` into `unknown`."""
    if ob.expect_sat:
        return relevant_axioms(axioms, ob), list(ob.hyps)

    def syms(e):
        return {x for x in decls(e) if not x.startswith("sort:")}

    cached = getattr(ob, "_cone", None)
    if cached is not None and cached[0] is axioms:
        return cached[1], cached[2]
    cur = syms(ob.goal)
    pool = [(h, syms(h), "h") for h in ob.hyps] + [(a, syms(a), "a") for a in axioms]
    kept_h, kept_a = [], []
    changed = True
    while changed:
        changed = False
        nxt = []
        for item in pool:
            e, sy, kind = item
            if sy & cur or (not sy and kind == "h"):
                (kept_h if kind == "h" else kept_a).append(e)
                if not sy <= cur:
                    cur |= sy
                    changed = True
            else:
                nxt.append(item)
        pool = nxt
    try:
        ob._cone = (axioms, kept_a, kept_h)
    except Exception:
        pass
    return kept_a, kept_h


def to_smt2(axioms, ob):
    s = z3.Solver()
    kept_a, kept_h = cone_of_influence(axioms, ob)
    for a in kept_a:
        s.add(a)
    for h in kept_h:
        s.add(h)
    if not ob.expect_sat:
        s.add(z3.Not(ob.goal))
    return _fix_decl_order(s.to_smt2())


def rest_smt2(axioms, ob):
    """The hypotheses OUTSIDE the goal's cone of influence (with their axioms), or None if there are none.  If the sliced query is
    `sat`, the countermodel is genuine only if this independent remainder (the rest of the path condition) is satisfiable too."""
    if ob.expect_sat:
        return None
    kept_a, kept_h = cone_of_influence(axioms, ob)
    kept_ids = {h.get_id() for h in kept_h}
    rest_h = [h for h in ob.hyps if h.get_id() not in kept_ids]
    if not rest_h:
        return None
    s = z3.Solver()

    class _O:
        hyps, goal, expect_sat = rest_h, z3.BoolVal(True), True

    for a in relevant_axioms(axioms, _O):
        s.add(a)
    for h in rest_h:
        s.add(h)
    return _fix_decl_order(s.to_smt2())


_CONST_CACHE = {}


def consts_of(e):
    """names of the 0-ary uninterpreted symbols (program variables / skolems) occurring in e"""
    key = e.get_id()
    if key in _CONST_CACHE and _CONST_CACHE[key][0].eq(e):
        return _CONST_CACHE[key][1]
    out, seen, stack = set(), set(), [e]
    while stack:
        x = stack.pop()
        if x.get_id() in seen:
            continue
        seen.add(x.get_id())
        if z3.is_quantifier(x):
            stack.append(x.body())
        elif z3.is_app(x):
            if x.num_args() == 0 and x.decl().kind() == z3.Z3_OP_UNINTERPRETED:
                out.add(x.decl().name())
            stack.extend(x.children())
    _CONST_CACHE[key] = (e, out)
    return out


def near_smt2(axioms, ob, depth):
    """The goal with only the hypotheses within `depth` hops of it (two formulas are adjacent when they share a program variable), plus the
    axioms relevant to that part.  Proving the goal from FEWER hypotheses is sound; a `sat`/`unknown` answer of such a query means nothing."""
    cur = set(consts_of(ob.goal))
    kept = []
    rest = list(enumerate(ob.hyps))
    for _ in range(depth):
        nxt, add = [], set()
        for i, h in rest:
            c = consts_of(h)
            if c & cur:
                kept.append((i, h))
                add |= c
            else:
                nxt.append((i, h))
        rest = nxt
        cur |= add
    if not rest:
        return None          # nothing was left out: same as the full query
    kept.sort(key=lambda p: p[0])

    class _O:
        hyps, goal, expect_sat = [h for _, h in kept], ob.goal, False

    s = z3.Solver()
    for a in relevant_axioms(axioms, _O):
        s.add(a)
    for h in _O.hyps:
        s.add(h)
    s.add(z3.Not(ob.goal))
    return _fix_decl_order(s.to_smt2())


def skolem_smt2(axioms, ob):
    """For a goal `forall v. B(v)`: the query with the goal skolemised by hand (fresh constants c for v) and every universally quantified
    HYPOTHESIS whose bound variables have the sorts of c additionally instantiated at c.  Instances of hypotheses are consequences of them, so
    an `unsat` answer is a proof; this supplies the instantiation a trigger-based solver cannot find when the goal contains no term that
    matches the hypothesis' trigger (e.g. "every index in range is a key" against "index i in range is a key of the result").  None if the
    goal is not universally quantified."""
    g = ob.goal
    if not (z3.is_quantifier(g) and g.is_forall()):
        return None
    n = g.num_vars()
    sk = [z3.Const(f"sk!{g.var_name(i)}!{i}", g.var_sort(i)) for i in range(n)]
    body = z3.substitute_vars(g.body(), *reversed(sk))
    extra = []
    for h in ob.hyps:
        if z3.is_quantifier(h) and h.is_forall() and h.num_vars() == 1:
            for c in sk:
                if h.var_sort(0) == c.sort():
                    extra.append(z3.substitute_vars(h.body(), c))

    class _O:
        hyps, goal, expect_sat = list(ob.hyps) + extra, body, False

    s = z3.Solver()
    for a in relevant_axioms(axioms, _O):
        s.add(a)
    for h in _O.hyps:
        s.add(h)
    s.add(z3.Not(body))
    return _fix_decl_order(s.to_smt2())


def to_smt2_full(axioms, ob):
    s = z3.Solver()
    for a in relevant_axioms(axioms, ob):
        s.add(a)
    for h in ob.hyps:
        s.add(h)
    if not ob.expect_sat:
        s.add(z3.Not(ob.goal))
    return _fix_decl_order(s.to_smt2())


def _fix_decl_order(text):
    """z3's printer may declare a datatype before an uninterpreted sort that occurs (nested in an array sort) in one of its fields: move all
    `declare-sort` commands to the front."""
    lines = text.split("\n")
    sorts = [ln for ln in lines if ln.startswith("(declare-sort ")]
    if not sorts:
        return text
    rest = [ln for ln in lines if not ln.startswith("(declare-sort ")]
    k = 0
    while k < len(rest) and (rest[k].startswith(";") or rest[k].startswith("(set-")):
        k += 1
    return "\n".join(rest[:k] + sorts + rest[k:])


def _solve_z3(text, timeout_ms, want_model, auto_config=True):
    ctx = z3.Context()
    s = z3.Solver(ctx=ctx)
    s.set("timeout", timeout_ms)
    if not auto_config:
        s.set("smt.auto_config", False)     # z3's static feature analysis picks a configuration in which some trigger-driven proofs diverge
    try:
        s.from_string(text)
    except z3.Z3Exception as e:
        return "error", str(e)[:300]
    r = s.check()
    if r == z3.unsat:
        return "unsat", ""
    if r == z3.sat:
        m = ""
        if want_model:
            try:
                m = str(s.model())[:3000]
            except Exception:
                m = ""
        return "sat", m
    return "unknown", s.reason_unknown()


def _solve_cli(cmd, text, timeout_s):
    with tempfile.NamedTemporaryFile("w", suffix=".smt2", delete=False) as f:
        f.write(text)
        name = f.name
    try:
        r = subprocess.run(cmd + [name], capture_output=True, text=True, timeout=timeout_s + 5)
        out = r.stdout.strip().splitlines()
        first = out[0].strip() if out else ""
        if first in ("sat", "unsat"):
            return first, "\n".join(out[1:])[:3000]
        return "unknown", (r.stdout + r.stderr)[:300]
    except subprocess.TimeoutExpired:
        return "unknown", "timeout"
    finally:
        os.unlink(name)


def _work(job):
    idx, text, timeout_ms, expect_sat, rest_text, full_text = job[:6]
    near = job[6] if len(job) > 6 else ()
    t0 = time.time()
    # portfolio: z3 with a short budget (most obligations take < 0.5 s), then cvc5 (decides many of z3's unknowns at once),
    # then z3 with the full budget, then z3 4.8
    verdict, info = _solve_z3(text, min(2500, timeout_ms), True)
    solver = "z3-5.1(api)"
    if verdict in ("unknown", "error") and not expect_sat:
        nv, _ = _solve_z3(text, min(6000, timeout_ms), False, auto_config=False)
        if nv == "unsat":
            return idx, "unsat", "(z3 with smt.auto_config=false)", solver, time.time() - t0
    if verdict in ("unknown", "error") and not expect_sat:
        # the goal from its near neighbourhood only (hypotheses within 1, 2, 3 hops): fewer quantified facts for the solver to chase
        for d, ntext in near:
            nv, _ = _solve_z3(ntext, min(4000, timeout_ms), False)
            if nv == "unsat":
                return idx, "unsat", (f"(proved from the hypotheses within {d} hop(s) of the goal)" if d > 0 else "(proved without the sequence axioms)" if d == 0 else "(proved with the hypotheses instantiated at the goal's skolem constants)"), solver, time.time() - t0
    if verdict in ("unknown", "error") and not expect_sat:
        v2, i2 = _solve_cli(["/usr/bin/cvc5", "--strings-exp", f"--tlimit={timeout_ms}"], "(set-logic ALL)\n" + text, timeout_ms / 1000)
        if v2 == "unsat":
            return idx, "unsat", i2, "cvc5-1.0.3", time.time() - t0
        verdict, info = _solve_z3(text, timeout_ms, True)
    if verdict == "sat" and not expect_sat and rest_text is not None:
        # the goal does not follow from the hypotheses in its cone of influence; is the rest of the path condition satisfiable?
        rv, _ = _solve_z3(rest_text, min(timeout_ms, 5000), False)
        if rv == "unsat":
            return idx, "unsat", "(path condition outside the goal's cone of influence is contradictory: infeasible path)", solver, time.time() - t0
        if rv != "sat":
            fv, finfo = _solve_z3(full_text, timeout_ms, False)
            if fv == "unsat":
                return idx, "unsat", "", solver, time.time() - t0
            verdict, info = "unknown", "sliced query sat, remainder/full query undecided"
    if verdict in ("unknown", "error") and not expect_sat:
        cv = "(set-logic ALL)\n" + text
        v2, i2 = _solve_cli(["/usr/bin/cvc5", "--strings-exp", f"--tlimit={timeout_ms}"], cv, timeout_ms / 1000)
        if v2 in ("sat", "unsat") and not (v2 == "sat"):
            # cvc5 `sat` on quantified queries is not trusted as a counter-model (may be `unknown` in disguise is
            # not possible for cvc5: it answers unknown itself) -- but we only use cvc5 to confirm unsat
            verdict, info, solver = v2, i2, "cvc5-1.0.3"
        else:
            v3, i3 = _solve_cli(["/usr/bin/z3", f"-T:{max(1, timeout_ms // 1000)}"], text, timeout_ms / 1000)
            if v3 == "unsat":
                verdict, info, solver = v3, i3, "z3-4.8.12"
    return idx, verdict, info, solver, time.time() - t0


def discharge(axioms, obls, timeout_ms=10000, procs=None):
    """-> list of dicts (id, kind, verdict in discharged|refuted|undecided|covered|vacuous, solver, seconds, note, model).
    `axioms` is either one list for all obligations or a list of lists (one per obligation)."""
    jobs = []
    results = [None] * len(obls)
    per_ob = bool(axioms) and isinstance(axioms[0], list) and len(axioms) == len(obls)
    all_axioms = axioms
    for i, ob in enumerate(obls):
        axioms = all_axioms[i] if per_ob else all_axioms
        if not ob.expect_sat and z3.is_true(ob.goal):
            results[i] = dict(id=ob.id, kind=ob.kind, verdict="discharged", solver="simplifier", seconds=0.0, note=ob.note, line=ob.line)
            continue
        if not ob.expect_sat and z3.is_false(ob.goal) and not ob.hyps:
            results[i] = dict(id=ob.id, kind=ob.kind, verdict="refuted", solver="simplifier", seconds=0.0, note=ob.note, line=ob.line, model="(goal is literally False on an unconditional path)")
            continue
        rest = rest_smt2(axioms, ob)
        near = []
        if not ob.expect_sat:
            # stage 0: the query WITHOUT the sequence-theory axioms (fewer hypotheses: an `unsat` answer is still a proof); many goals about
            # maps, arithmetic and spec functions need none of them, and the solver chases them for the whole budget otherwise
            from . import seqs as _seqs
            sq = {a.get_id() for a in _seqs.all_axioms()}
            bare = [a for a in axioms if a.get_id() not in sq]
            if len(bare) < len(axioms):
                near.append((0, to_smt2(bare, ob)))
                ob._cone = None
        if not ob.expect_sat:
            sk_text = skolem_smt2(axioms, ob)
            if sk_text is not None:
                near.append((-1, sk_text))
        if not ob.expect_sat and len(ob.hyps) > 8:
            for d in (1, 2, 3):
                nt = near_smt2(axioms, ob, d)
                if nt is None:
                    break
                near.append((d, nt))
        jobs.append((i, to_smt2(axioms, ob), min(timeout_ms, 3000) if ob.expect_sat else timeout_ms, ob.expect_sat, rest,
                     to_smt2_full(axioms, ob) if rest is not None else None, tuple(near)))
    if jobs:
        procs = procs or min(16, max(1, len(jobs)))
        if len(jobs) <= 2 or procs == 1:
            outs = [_work(j) for j in jobs]
        else:
            with mp.get_context("fork").Pool(procs, maxtasksperchild=50) as pool:
                outs = pool.map(_work, jobs, chunksize=1)
        for idx, verdict, info, solver, secs in outs:
            ob = obls[idx]
            if ob.expect_sat:
                v = {"sat": "covered", "unsat": "vacuous"}.get(verdict, "cover-unknown")
            else:
                v = {"unsat": "discharged", "sat": "refuted"}.get(verdict, "undecided")
            results[idx] = dict(id=ob.id, kind=ob.kind, verdict=v, solver=solver, seconds=round(secs, 3), note=ob.note, line=ob.line)
            if verdict == "sat" and not ob.expect_sat:
                results[idx]["model"] = info
            if v in ("undecided", "cover-unknown"):
                results[idx]["reason"] = info
    return results
