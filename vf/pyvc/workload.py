"""Deterministic workloads that drive the real library while contracts are monitored (concrete.py)."""
from __future__ import annotations

import warnings


def frames():
    import numpy as np
    import pandas as pd

    rng = np.random.default_rng(7)
    n = 12
    df = pd.DataFrame({
        "y": rng.normal(size=n), "a": rng.normal(size=n), "b": rng.uniform(1, 2, size=n), "c": rng.normal(size=n),
        "A": pd.Categorical(list("xyzxyzxyzxyz")), "B": pd.Categorical(list("uuvvuuvvuuvv")), "D": pd.Categorical(list("pqrspqrspqrs")),
    })
    dfn = df.copy()
    dfn.loc[[1, 5], "a"] = np.nan
    dfn.loc[[2], "b"] = np.nan
    return {"df": df, "dfn": dfn}


FORMULAS = [
    "a", "a + b", "a:b", "b:a + a", "A", "A + B", "A:B", "A*B", "a*A", "B:a + A", "0 + A", "0 + A:B + a", "y ~ a + A", "y ~ a | b + A",
    "a + b + c + a:b:c", "(a + b + c)**2", "a/b", "A/a", "b %in% A", "poly(a, 3)", "poly(a, 2):A", "bs(b, df=4)", "scale(a) + center(b)",
    "C(A, contr.sum)", "C(A, contr.helmert):B", "C(D, contr.poly)", "2.5:a", "a + a:A + D", "1", "0", "a - a", "D:B:A", "I(a*2) + np.log(b)",
    "hashed(A, levels=5)", "A + a:A + B:a",
]


def run_materialization(items=None):
    """build model matrices for FORMULAS x {df, dfn} x outputs and exercise the spec metadata accessors"""
    import formulaic

    fr = frames()
    n = 0
    for f in (items or FORMULAS):
        for dname, d in fr.items():
            for output in ("pandas", "numpy", "sparse"):
                with warnings.catch_warnings():
                    warnings.simplefilter("ignore")
                    try:
                        mm = formulaic.model_matrix(f, d, output=output)
                    except Exception:
                        continue
                specs = mm.model_spec if hasattr(mm, "model_spec") else None
                for spec in _flatten(specs):
                    n += 1
                    _touch_spec(spec, d)
    return n


def _flatten(specs):
    from formulaic.model_spec import ModelSpec

    if specs is None:
        return []
    if isinstance(specs, ModelSpec):
        return [specs]
    try:
        return list(specs._flatten())
    except Exception:
        return []


def _touch_spec(spec, data):
    for attr in ("column_names", "column_indices", "term_indices", "term_slices", "term_variables", "variable_indices", "variables",
                 "variable_terms", "variables_by_source", "required_variables", "term_factors", "factor_terms"):
        try:
            getattr(spec, attr)
        except Exception:
            pass
    try:
        for t in list(spec.terms):
            spec.get_slice(t)
            spec.get_term_indices([t])
        for i, cname in enumerate(spec.column_names):
            spec.get_slice(cname)
            spec.get_column_indices(cname)
            spec.get_slice(i)
        if len(spec.terms) > 1:
            spec.subset(list(spec.terms)[:1])
    except Exception:
        pass


def run_parsing(items=None):
    from formulaic import Formula

    n = 0
    for f in (items or FORMULAS):
        try:
            fm = Formula(f)
            repr(fm)
            n += 1
        except Exception:
            pass
    return n
