"""Robustness guard shared by the C10/C11/C16/C17/C19/C20 bounded drivers.

Whatever a (possibly changed) library returns or raises, no exception may escape `run_bounded`:
* `guard(fail, fn, *args)` runs one case (set-up + library calls + judging). An exception that is not already
  handled as an outcome inside the case -- NaN/None/wrong shapes reaching the oracle arithmetic, a singular matrix,
  a missing accessor entry, a template that can no longer be built -- is recorded as a violation of clause
  `<PROP>.judge` with class `oracle-not-applicable:<ExceptionType>`; the run carries on with the next case.
* `safe_map(worker, tasks)` runs pool workers; workers never raise (their bodies are guarded), and if the pool itself
  breaks the tasks are run in-process.
The witness program re-runs the property's bounded driver with the same tier/seed and fails while any case still
ends in `oracle-not-applicable` (it therefore fails the same way on the same tree).
"""
from __future__ import annotations

import traceback

RUN = {"prop": "C00", "tier": "quick", "seed": 0}

CODE = """import sys
sys.path.insert(0, '/verif')
from vf import core
from vf.bounded import {mod}
ctx = core.Ctx({prop!r}, {tier!r}, {seed!r})
{mod}.run_bounded(ctx)
bad = [(v['clause'], v['witness'].get('cls'), v['detail'][:300]) for v in ctx.violations
       if 'oracle-not-applicable' in str(v['witness'].get('cls'))]
assert not bad, bad[:3]
"""


def begin(prop, ctx):
    RUN.update(prop=prop, tier=ctx.tier, seed=ctx.seed)


def describe(args):
    out = []
    for a in args:
        r = repr(a)
        if r.startswith("<") or len(r) > 400:  # accumulators, rng, bounded handles
            continue
        out.append(r)
    return out


def guard(fail, fn, *args, **kwargs):
    """Run one case; `fail(clause, cls, witness, detail)` records a violation."""
    try:
        return fn(*args, **kwargs)
    except Exception as e:  # anything the judge could not digest is an outcome of the code under test
        prop = RUN["prop"]
        witness = {
            "case": {"function": getattr(fn, "__name__", str(fn)), "arguments": describe(args)},
            "code": CODE.format(mod=prop.lower(), prop=prop, tier=RUN["tier"], seed=RUN["seed"]),
        }
        detail = f"{type(e).__name__}: {e}\n" + "".join(traceback.format_exc().splitlines(True)[-8:])
        try:
            fail(f"{prop}.judge", f"oracle-not-applicable:{type(e).__name__}", witness, detail)
        except Exception:  # the recorder itself must not take the run down
            pass
        return None


def safe_map(worker, tasks, processes=16):
    """Map `worker` over `tasks` in a process pool; fall back to in-process execution if the pool breaks."""
    from concurrent.futures import ProcessPoolExecutor

    tasks = list(tasks)
    try:
        with ProcessPoolExecutor(processes) as ex:
            return list(ex.map(worker, tasks))
    except Exception:
        return [worker(t) for t in tasks]
