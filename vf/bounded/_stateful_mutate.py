"""Self-test helper for the C04/C09/C12/C13 bounded drivers: run one driver against a *scratch
copy* of the formulaic package with one textual mutation applied and list the (clause, cls)
pairs it reports.  /repo is never touched; the copy lives in a `tempfile.TemporaryDirectory`
and is removed afterwards.  Nothing is written to evidence/ or replays/.

    python -m vf.bounded._stateful_mutate C13 transforms/scale.py 'ddof = _state["ddof"]' 'pass'
    python -m vf.bounded._stateful_mutate C13 --none          # unmutated copy (must match ./check)
    python -m vf.bounded._stateful_mutate C04 --patch some.diff [--seed N] [--tier thorough]
"""
from __future__ import annotations

import json
import os
import shutil
import subprocess
import sys
import tempfile
from pathlib import Path

REPO = Path(os.environ.get("VERIF_REPO", "/repo"))
ROOT = Path(__file__).resolve().parents[2]

RUNNER = r"""
import json, sys, collections
import formulaic, os
assert os.path.realpath(formulaic.__file__).startswith(os.path.realpath(sys.argv[3])), formulaic.__file__
from vf import core
import importlib
prop, tier = sys.argv[1], sys.argv[2]
ctx = core.Ctx(prop, tier, int(sys.argv[4]) if len(sys.argv) > 4 else 0)
mod = importlib.import_module("vf.bounded." + prop.lower())
mod.run_bounded(ctx)
c = collections.Counter((v["clause"], v["witness"].get("cls")) for v in ctx.violations)
print("RESULT " + json.dumps({"violations": sorted([k[0], k[1], n] for k, n in c.items()),
                              "evaluations": sum(b.evaluations for b in ctx.bounded_runs),
                              "notes": ctx.notes}))
"""


def run_mutant(prop, relpath=None, old=None, new=None, tier="quick", count=1, patch=None, seed=0):
    with tempfile.TemporaryDirectory(prefix="vf-mut-") as tmp:
        shutil.copytree(REPO / "formulaic", Path(tmp) / "formulaic",
                        ignore=shutil.ignore_patterns("__pycache__", "*.pyc"))
        if patch is not None:
            r = subprocess.run(["patch", "-p1", "-s", "-d", tmp, "-i", str(Path(patch).resolve())], capture_output=True, text=True)
            if r.returncode != 0:
                raise SystemExit("patch failed: " + r.stdout + r.stderr)
        if relpath is not None:
            p = Path(tmp) / "formulaic" / relpath
            src = p.read_text()
            if src.count(old) != count:
                raise SystemExit(f"mutation site occurs {src.count(old)} times in {relpath}, expected {count}")
            p.write_text(src.replace(old, new))
        env = {**os.environ, "PYTHONPATH": f"{tmp}{os.pathsep}{ROOT}", "PYTHONDONTWRITEBYTECODE": "1"}
        r = subprocess.run([sys.executable, "-c", RUNNER, prop, tier, tmp, str(seed)], capture_output=True, text=True,
                           cwd=str(ROOT), env=env)
        line = [ln for ln in r.stdout.splitlines() if ln.startswith("RESULT ")]
        if r.returncode != 0 or not line:
            return {"error": (r.stdout[-2000:] + r.stderr[-4000:])}
        return json.loads(line[-1][7:])


def main(argv):
    prop = argv[0]
    tier = "quick"
    if "--tier" in argv:
        i = argv.index("--tier")
        tier = argv[i + 1]
        argv = argv[:i] + argv[i + 2:]
    seed = 0
    if "--seed" in argv:
        i = argv.index("--seed")
        seed = int(argv[i + 1])
        argv = argv[:i] + argv[i + 2:]
    if argv[1] == "--none":
        out = run_mutant(prop, tier=tier, seed=seed)
    elif argv[1] == "--patch":
        out = run_mutant(prop, tier=tier, patch=argv[2], seed=seed)
    else:
        out = run_mutant(prop, argv[1], argv[2], argv[3], tier=tier)
    if "error" in out:
        print(out["error"])
        return 3
    print(f"evaluations={out['evaluations']}")
    for clause, cls, n in out["violations"]:
        print(f"  {n:5d}  {clause}  [{cls}]")
    return 0


if __name__ == "__main__":
    sys.exit(main(sys.argv[1:]))
