"""C15 bounded stand-in: lexing is whitespace-insensitive, quote-faithful, normalises Python
code, and records truthful token spans. Relational (metamorphic) contracts on the real
`tokenize`, `DefaultFormulaParser.get_terms`, `Formula` and `model_matrix`.
"""
from __future__ import annotations

import ast
import hashlib
import itertools
import random
import re
import string
import time
from concurrent.futures import ProcessPoolExecutor

from . import _parser_enum as E
from . import c01 as C1

NPROC = 16
MAX_WITNESS_PER_CLASS = 2


def _digest(key):
    return hashlib.blake2b(repr(key).encode(), digest_size=8).digest()


class Acc(C1.Acc):
    pass


# --------------------------------------------------------------------------------------
# A. whitespace at token boundaries
# --------------------------------------------------------------------------------------
WS_REPRO = (
    '''
parser = {psrc}
a, b = {a!r}, {b!r}       # b is a with whitespace added at token boundaries
oa = _outcome(lambda: parser.get_terms(a))
ob = _outcome(lambda: parser.get_terms(b))
assert oa == ob, (a, oa, b, ob)
'''
)


def ws_variants(tokens, chars, pairs):
    k = len(tokens)

    def build(ins):  # ins: list of (pos, text)
        parts = []
        for p in range(k + 1):
            for q, txt in ins:
                if q == p:
                    parts.append(txt)
            if p < k:
                parts.append(tokens[p])
        return "".join(parts)

    yield "spaced", E.render(tokens, "spaced")
    yield "wide", E.render(tokens, "wide")
    singles = [(p, c) for p in range(k + 1) for c in chars]
    for s1 in singles:
        yield "single", build([s1])
    if pairs:
        for s1, s2 in itertools.product(singles, repeat=2):
            if s1[0] <= s2[0]:
                yield "pair", build([s1, s2])


def outcome_sig(out):
    if out[0] == "ok":
        return ("ok", out[1])
    return (out[0], out[1])


def ws_trees(nmax_single, thorough):
    """(tree, with_pairs)"""
    for n in range(nmax_single + 1):
        for t in C1._labelled(n, thorough or n <= 1):
            yield t, (n <= (2 if thorough else 1))
    runs = E.runs_upto(3 if thorough else 2)
    for n in range(2):
        for t in C1._labelled(n, True):
            for d in C1.decorations(t, runs, runs):
                if E.has_dot(d):
                    continue
                yield d, thorough and n == 0


def w_whitespace(args):
    nmax, thorough, shard, nshards = args
    acc = Acc()
    chars = (" ", "\t", "\n", "\r") if thorough else (" ", "\t", "\n")
    for i, (tree, pairs) in enumerate(ws_trees(nmax, thorough)):
        if i % nshards != shard:
            continue
        tokens = E.to_tokens(tree)
        s0 = E.render(tokens)
        for intercept in (True, False):
            parser = C1.get_parser(intercept)
            ref = outcome_sig(C1.observe(lambda: parser.get_terms(s0)))
            seen = {s0}
            for kind, v in ws_variants(tokens, chars, pairs and intercept):
                if v in seen:
                    continue
                seen.add(v)
                if not intercept and kind not in ("spaced", "wide"):
                    continue
                acc.case((s0, v, intercept), True, sample={"formula": s0, "respaced": v})
                got = outcome_sig(C1.observe(lambda: parser.get_terms(v)))
                if got != ref:
                    w = {
                        "formula": s0,
                        "respaced": v,
                        "include_intercept": intercept,
                        "observed": [_brief(ref), _brief(got)],
                        "code": C1.REPRO_HEAD + WS_REPRO.format(psrc=C1.parser_src(intercept), a=s0, b=v),
                    }
                    cls = "parse-changes" if ref[0] == "ok" and got[0] == "ok" else f"{ref[0]}-vs-{got[0]}"
                    acc.fail("C15.whitespace.invariant", cls, w, f"{s0!r} and {v!r} differ only in whitespace at token boundaries but parse differently: {_brief(ref)} vs {_brief(got)}")
    return ("whitespace", acc.result())


def _brief(sig):
    if sig[0] == "ok":
        return C1.plain_actual(sig[1])
    return list(sig)


# --------------------------------------------------------------------------------------
# B. backtick-quoted arbitrary column names, evaluated against data
# --------------------------------------------------------------------------------------
NAME_REPRO = '''import numpy, pandas
from formulaic import model_matrix
names = {names!r}
df = pandas.DataFrame({{n: numpy.arange(5.0) * (i + 1) + 10.0 * (i + 1) for i, n in enumerate(names)}})
df["z"] = numpy.arange(5.0) + 0.5
formula = {formula!r}
try:
    mm = model_matrix(formula, df)
    got = numpy.asarray(mm, dtype=float)
except Exception as e:
    raise AssertionError((formula, type(e).__name__, str(e)[:200]))
expected = numpy.column_stack([{expected}])
assert got.shape == expected.shape and numpy.allclose(got, expected), (formula, got.tolist(), expected.tolist())
'''


def name_pool(thorough, seed):
    special = [c for c in string.punctuation if c != "`"] + [" ", "\t", "\n"]
    names = []
    for c in special:
        names += [c, "a" + c + "b", c + "a", "a" + c]
    names += ["a b c", "a b", "a+b", "a-b", "a_b", "a  b", "x:y", "my|special$column!", "d$in^df", "wacky name!"]
    names += ["é", "日本語", "😀", "a b", "ß", "x́", "​", "naïve café", "Ω≈ç√", "ＡＢ"]
    names += ["½", "x²", "aǌ", "ſ"]
    # backslash escapes inside the quotes: an escaped backtick, an escaped bracket / backslash at the end
    names += ["b\\`c", "\\`", "a\\`", "\\`a", "a\\(", "x\\)", "a\\[", "a\\\\", "a\\\\b\\`"]
    names += ["lambda", "for", "None", "class", "1", "1a", "2.5", "0", "00", "_", "__a__", "a.b", "a.b.c", ".a"]
    names += ['"', "'", '"a"', "'a'", "a\"b'c", "(a)", "[0]", "{a}", "f(x)", "a}", "{", "}}", "((", "\\", "\\\\", "a\\b", "\\n", "%in%", "~", "a ~ b"]
    if thorough:
        rng = random.Random(seed)
        pool = [chr(c) for c in itertools.chain(range(0x20, 0x7F), range(0xA0, 0x250), range(0x370, 0x400), range(0x4E00, 0x4E40), range(0x1F600, 0x1F620), [0x9, 0xA, 0x2028, 0xFEFF, 0x202E])]
        pool = [c for c in pool if c != "`"]
        for _ in range(1500):
            names.append("".join(rng.choice(pool) for _ in range(rng.randint(1, 6))))
    out = []
    for n in names:
        # the empty string is not treated as a column name (a quoted section must be non-empty)
        if n and _backticks_escaped(n) and n != "z" and n not in out:
            out.append(n)
    return out


def _backticks_escaped(n):
    """Every backtick of the name is preceded by an odd number of backslashes (so that the name can
    be written between backticks at all)."""
    for m in re.finditer("`", n):
        k = m.start()
        j = k
        while j > 0 and n[j - 1] == "\\":
            j -= 1
        if (k - j) % 2 == 0:
            return False
    return True


def name_class(n):
    """Label of a column name by the first applicable known cause (labels only)."""
    import keyword
    import unicodedata

    if n == "":
        return "empty-name"
    if n.endswith("\\") and (len(n) - len(n.rstrip("\\"))) % 2 == 1:
        return "name-ending-in-backslash"
    if "`" in n:
        return "name-with-escaped-backtick"
    if keyword.iskeyword(n):
        return "python-keyword"
    if any(re.match(r"\w", c) and not ("_" + c).isidentifier() for c in n):
        return "word-character-not-allowed-in-identifiers"
    if any((re.match(r"\w", c) or ("a" + c).isidentifier()) and unicodedata.normalize("NFKC", c) != c for c in n):
        return "character-changed-by-unicode-normalisation"
    if "\\" in n:
        return "name-with-backslash"
    if any(c in n for c in "\"'"):
        return "name-with-quote-character"
    if any(c in n for c in "\n\r\t\u2028"):
        return "name-with-control-whitespace"
    if any(c in n for c in "(){}[]"):
        return "name-with-bracket"
    if n.isidentifier():
        return "identifier"
    return "other" if len(n) > 1 else f"name={n!r}"


def col(i):
    return f"numpy.arange(5.0) * ({i} + 1) + 10.0 * ({i} + 1)"


def eval_formula(formula, names):
    import numpy
    import pandas
    from formulaic import model_matrix

    df = pandas.DataFrame({n: numpy.arange(5.0) * (i + 1) + 10.0 * (i + 1) for i, n in enumerate(names)})
    df["z"] = numpy.arange(5.0) + 0.5
    try:
        mm = model_matrix(formula, df)
        return ("ok", numpy.asarray(mm, dtype=float), df)
    except Exception as e:  # outcome of the code under test
        return ("raised", type(e).__name__, str(e)[:160])


def w_names(args):
    thorough, seed, shard, nshards = args
    import numpy

    acc = Acc()
    names = name_pool(thorough, seed)
    contexts = [
        ("top-level", "`{n}` + z", lambda df, n: [numpy.ones(5), df[n].values, df["z"].values], "numpy.ones(5), df[names[0]].values, df['z'].values"),
        ("brace", "{{`{n}` + 1}} + z", lambda df, n: [numpy.ones(5), df[n].values + 1, df["z"].values], "numpy.ones(5), df[names[0]].values + 1, df['z'].values"),
        ("call", "np.negative(`{n}`) + z", lambda df, n: [numpy.ones(5), -df[n].values, df["z"].values], "numpy.ones(5), -df[names[0]].values, df['z'].values"),
        ("interaction", "`{n}`:z - 1", lambda df, n: [df[n].values * df["z"].values], "df[names[0]].values * df['z'].values"),
    ]
    i = 0
    for n in names:
        for cname, tmpl, expf, expsrc in contexts:
            i += 1
            if i % nshards != shard:
                continue
            if "`" in n and cname in ("brace", "call"):
                continue  # names holding a backtick are outside the stated quantifier; inside fragments only the tokenizer contract is checked (python-verbatim)
            formula = tmpl.format(n=n)
            acc.case((cname, n), True, sample={"context": cname, "name": n, "formula": formula})
            out = eval_formula(formula, [n])
            ok = False
            if out[0] == "ok":
                exp = numpy.column_stack(expf(out[2], n))
                ok = out[1].shape == exp.shape and numpy.allclose(out[1], exp)
            if not ok:
                w = {"name": n, "context": cname, "formula": formula, "observed": out[1].tolist() if out[0] == "ok" else list(out), "code": NAME_REPRO.format(names=[n], formula=formula, expected=expsrc)}
                acc.fail(f"C15.quoted-name.{cname}", name_class(n) + ("" if out[0] == "ok" else f"/raises:{out[1]}"), w, f"column {n!r} referenced as {formula!r}: {'wrong values' if out[0] == 'ok' else out[1:]}")
    # two quoted names inside one Python fragment must stay distinct
    confusable = ["a+b", "a-b", "a b", "a_b", "a.b", "a b c", "a  b", "a b_c", "_formulaic_a_b", "1a", "_1a", "é", "e", "a", "b", "x:y", "x y", "a\tb", "a\nb", "a$", "a!"]
    if thorough:
        confusable += [n for n in names if n and name_class(n) == "other"][:40]
    for n1, n2 in itertools.permutations(confusable, 2):
        i += 1
        if i % nshards != shard:
            continue
        formula = "{`%s` - `%s`} - 1" % (n1, n2)
        acc.case(("pair", n1, n2), True, sample={"context": "two names in one fragment", "formula": formula})
        out = eval_formula(formula, [n1, n2])
        ok = False
        if out[0] == "ok":
            exp = (out[2][n1].values - out[2][n2].values).reshape(-1, 1)
            ok = out[1].shape == exp.shape and numpy.allclose(out[1], exp)
        if not ok:
            w = {"names": [n1, n2], "formula": formula, "observed": out[1].tolist() if out[0] == "ok" else list(out), "code": NAME_REPRO.format(names=[n1, n2], formula=formula, expected="df[names[0]].values - df[names[1]].values")}
            import re as _re

            same_alias = _re.sub(r"\W", "_", n1) == _re.sub(r"\W", "_", n2)
            contains = (n1 in n2) or (n2 in n1) or _re.sub(r"\W", "_", n1) in _re.sub(r"\W", "_", n2) or _re.sub(r"\W", "_", n2) in _re.sub(r"\W", "_", n1)
            cls = "names-with-equal-sanitised-form" if same_alias else ("one-name-contained-in-the-other" if contains else "other-pair")
            acc.fail("C15.quoted-name.two-in-one-fragment", cls + ("" if out[0] == "ok" else f"/raises:{out[1]}"), w, f"{formula!r}: columns {n1!r} and {n2!r} " + ("are conflated / wrong values" if out[0] == "ok" else f"-> {out[1:]}"))
    return ("quoted-names", acc.result())


# --------------------------------------------------------------------------------------
# C. reformatted Python fragments denote the same factor; D. fragments are taken verbatim
# --------------------------------------------------------------------------------------
BASE_FRAGMENTS = [
    "f(a)", "f(a, b)", "f(a, b, c=1)", "f(a + b)", "f(g(a), h(b, c))", "np.log(a + 1)", "f(a, 'x')", 'f(a, "x")',
    "f(a, k='v w')", "f([a, b])", "f((a, b))", "f({'k': a})", "f(a, *b, **c)", "f(lambda x: x + 1, a)", "f(a if b else c)", "f(a[1:2, ::3])",
    "f(-a)", "f(not a)", "f(a ** 2)", "f(a % b)", "f(a | b)", "f(a // b)", "f(a < b <= c)", "f(a is None)", "f(1.5, 2, 1e3)", "f(x for x in a)",
    "f([x for x in a if x])", "C(a, contr.treatment)", "poly(a, degree=3)", "bs(a, df=4)", "I(a + b)", "center(a)",
]
BRACE_FRAGMENTS = ["a + b", "a - b", "a * b", "a / b", "a ** 2", "-a", "a | b", "a & b", "~a", "a % b", "a < b", "a == 1", "(a, b)", "[a, b]", "a[0]", "a['k']", "f(a) + 1", "a if b else c", "'s'", "a.b.c", "a @ b", "1 + 2", "a >> 1"]

REFORMAT_REPRO = '''from formulaic import Formula
from formulaic.parser import DefaultFormulaParser
import ast
a, b = {a!r}, {b!r}     # two spellings of one Python fragment (same AST)
parser = DefaultFormulaParser(include_intercept=False)
def factors(s):
    try:
        return [[f.expr for f in t.factors] for t in parser.get_terms(s).root]
    except Exception as e:
        return ("raised", type(e).__name__)
fa, fb = factors(a), factors(b)
assert not isinstance(fa, tuple) and fa == fb, (a, fa, b, fb)
fc = factors(a + " + " + b)
assert fc == fa, (fc, fa)     # set semantics: the same factor twice is one term
'''


def spacing_variants(code, rng):
    """Re-spell `code` without changing its AST: token-level respacing via the tokenize module,
    quote style, redundant parentheses, trailing commas. Every variant is verified to have the
    same AST before use."""
    import io
    import tokenize as pytok

    toks = [t for t in pytok.generate_tokens(io.StringIO(code).readline) if t.type not in (pytok.NEWLINE, pytok.ENDMARKER, pytok.NL)]
    texts = [t.string for t in toks]

    def join(sep_fn):
        out = []
        for i, t in enumerate(texts):
            if i:
                prev = texts[i - 1]
                need = (prev[-1].isalnum() or prev[-1] in "_'\"") and (t[0].isalnum() or t[0] in "_'\"")
                out.append(sep_fn(i, need))
            out.append(t)
        return "".join(out)

    cands = [
        join(lambda i, need: " " if need else ""),
        join(lambda i, need: " "),
        join(lambda i, need: "  " if need or i % 2 else " "),
        join(lambda i, need: ("\t" if i % 3 == 0 else " ") if need else ("" if i % 2 else " ")),
    ]
    # quotes
    swapped = []
    for t in toks:
        s = t.string
        if t.type == pytok.STRING and len(s) >= 2 and s[0] in "'\"" and s[0] == s[-1] and not s.startswith(("'''", '"""')):
            body = s[1:-1]
            if "'" not in body and '"' not in body and "\\" not in body:
                s = ('"' if s[0] == "'" else "'") + body + ('"' if s[0] == "'" else "'")
        swapped.append(s)
    if swapped != texts:
        save = texts
        texts = swapped
        cands.append(join(lambda i, need: " " if need else ""))
        texts = save
    # trailing comma in the outermost call, redundant parentheses around arguments
    if code.endswith(")") and "(" in code:
        inner = code[code.index("(") + 1 : -1]
        if inner.strip() and not inner.rstrip().endswith(",") and " for " not in inner:
            cands.append(code[:-1] + ",)")
            cands.append(code[:-1] + " , )")
    if code.endswith(")") and code.count("(") == 1:
        name, inner = code[:-1].split("(", 1)
        args = [a.strip() for a in inner.split(",")]
        if all(a and "=" not in a and "*" not in a and " for " not in a and " if " not in a for a in args):
            cands.append(name + "(" + ", ".join(f"({a})" for a in args) + ")")
    # a newline inside the brackets
    if "(" in code:
        j = code.index("(") + 1
        cands.append(code[:j] + "\n    " + code[j:])
    ref = ast.dump(ast.parse(code, mode="eval"))
    out = []
    for c in cands:
        if c == code or c in out:
            continue
        try:
            if ast.dump(ast.parse(c.strip(), mode="eval")) == ref:
                out.append(c)
        except SyntaxError:
            continue
    return out


def factors_of(parser, s):
    from formulaic.errors import FormulaParsingError

    try:
        st = parser.get_terms(s)
    except FormulaParsingError as e:
        return ("reject", type(e).__name__)
    except Exception as e:
        return ("error", type(e).__name__)
    try:
        return ("ok", [[(f.eval_method.value, f.expr) for f in t.factors] for t in st.root])
    except Exception as e:  # structured result for a single fragment
        return ("ok-structured", repr(st))


def w_reformat(args):
    (seed,) = args
    from formulaic import Formula

    acc = Acc()
    rng = random.Random(seed)
    parser = C1.get_parser(False)
    cases = [(f, f) for f in BASE_FRAGMENTS] + [("{" + f + "}", f) for f in BRACE_FRAGMENTS] + [("{" + f + "}", f) for f in BASE_FRAGMENTS[:12]]
    for formula, code in cases:
        brace = formula.startswith("{")
        variants = spacing_variants(code, rng)
        if brace:
            variants += [f"({code})", f" {code} ", f"(({code}))"]
            variants = [v for v in variants if _same_ast(v, code)]
        ref = factors_of(parser, formula)
        if not brace:
            # call-style: only the text between the outermost brackets is Python formatting; the
            # function name stays glued to its bracket and nothing follows the closing bracket
            variants = [re.sub(r"^([\w.\s]+?)\s*\(", lambda m: re.sub(r"\s", "", m.group(1)) + "(", v.strip()) for v in variants]
            variants = [v for v in dict.fromkeys(variants) if v != code and _same_ast(v, code) and v.endswith(")")]
        labelled = [(v, None) for v in variants]
        if brace or (isinstance(ast.parse(code, mode="eval").body, ast.Call) and code.endswith(")")):
            labelled += [(v, lab) for v, lab in edge_whitespace_variants(code, brace) if _same_ast(v, code)]
        for v, edge in labelled:
            fv = "{" + v + "}" if brace else v
            if ref[0] != "ok":
                acc.case((formula, fv), False)
                continue  # the reference spelling itself is not accepted: judged by the verbatim family
            acc.case((formula, fv), True, sample={"fragment": formula, "respelled": fv})
            got = factors_of(parser, fv)
            both = factors_of(parser, formula + " + " + fv)
            ok = got == ref and both == ref
            if ok:
                ok = C1._lib_equal(lambda: Formula(formula, _parser=parser) == Formula(fv, _parser=parser))
            if not ok:
                kind = "factors-differ" if ref[0] == "ok" and got[0] == "ok" else f"{ref[0]}-vs-{got[0]}:{got[1] if got[0] != 'ok' else ref[1]}"
                cause = f"edge-whitespace:{edge}" if edge else ("newline" if "\n" in fv else ("string-literal" if any(q in fv for q in "\"'") else "other"))
                w = {"fragment": formula, "respelled": fv, "observed": [ref, got, both], "code": REFORMAT_REPRO.format(a=formula, b=fv)}
                acc.fail("C15.python.formatting-insensitive", f"{cause}/{kind}", w, f"{formula!r} and {fv!r} have the same Python AST but give {ref} vs {got} (sum: {both})")
    # a back-ticked name directly abutting Python keywords / identifiers (zero blanks) vs the spaced spelling
    templates = ["{N}if True else 0", "0 if{N}else 1", "x if{N}else{N}", "x in{N}", "{N}in x", "{N}not in x", "{N}and x", "x and{N}", "x or{N}", "{N}or x",
                 "not{N}", "{N}is None", "x is{N}", "x is not{N}", "[v for v in{N}]", "[{N}for v in x]", "lambda v:{N}", "f({N}if x else{N})", "f(x,{N})", "{N}+{N}"]
    for name in ("`a b`", "`a+b`", "`1a`", "`é ü`"):
        for tmpl in templates:
            tight, spaced = tmpl.replace("{N}", name), tmpl.replace("{N}", " " + name + " ").strip()
            call = tmpl.startswith("f(")
            fa, fb = (spaced, tight) if call else ("{" + spaced + "}", "{" + tight + "}")
            ref = factors_of(parser, fa)
            if ref[0] != "ok":
                acc.case((fa, fb), False)
                continue
            acc.case((fa, fb), True, sample={"fragment": fa, "respelled": fb})
            got = factors_of(parser, fb)
            both = factors_of(parser, fa + " + " + fb)
            if not (got == ref and both == ref and C1._lib_equal(lambda: Formula(fa, _parser=parser) == Formula(fb, _parser=parser))):
                kind = "factors-differ" if got[0] == "ok" else f"ok-vs-{got[0]}:{got[1]}"
                w = {"fragment": fa, "respelled": fb, "observed": [ref, got, both], "code": REFORMAT_REPRO.format(a=fa, b=fb)}
                acc.fail("C15.python.formatting-insensitive", f"backticked-name-abutting-keyword/{kind}", w, f"{fa!r} and {fb!r} differ only in blanks around a back-ticked name but give {ref} vs {got} (sum: {both})")
    return ("python-reformatting", acc.result())


EDGE_LEADS = ("", " ", "\t", "\n", "\r\n", "\n    ", "\n\t", " \t ")
EDGE_TRAILS = ("", " ", "\t", "\n", "\r\n", "\n  ", " \t ")


def edge_whitespace_variants(code, brace):
    """Whitespace other than a single blank immediately inside the quoting brackets of a
    fragment: `{<ws>code<ws>}` and `name(<ws>args<ws>)`. -> (variant text, label)"""

    def label(ws):
        return "blank" if ws.strip(" ") == "" else ("crlf" if "\r" in ws else ("newline+indent" if ws.startswith("\n") and len(ws) > 1 else ("newline" if "\n" in ws else "tab")))

    combos = [(l, "") for l in EDGE_LEADS[1:]] + [("", t) for t in EDGE_TRAILS[1:]] + [("\n    ", "\n"), ("\t", "\t"), ("\r\n", "\r\n"), (" ", " ")]
    for lead, trail in combos:
        if brace:
            yield lead + code + trail, "+".join(sorted({label(w) for w in (lead, trail) if w}))
        else:
            i, j = code.index("("), len(code) - 1
            if code[j] != ")" or not code[i + 1 : j].strip():
                return
            yield code[: i + 1] + lead + code[i + 1 : j] + trail + ")", "+".join(sorted({label(w) for w in (lead, trail) if w}))


def _same_ast(a, b):
    try:
        return ast.dump(ast.parse(a.strip(), mode="eval")) == ast.dump(ast.parse(b.strip(), mode="eval"))
    except SyntaxError:
        return False


VERBATIM_REPRO = '''import ast
from formulaic.parser import DefaultFormulaParser
formula, code = {formula!r}, {code!r}
parser = DefaultFormulaParser(include_intercept=False)
try:
    terms = list(parser.get_terms(formula).root)
except Exception as e:
    raise AssertionError((formula, type(e).__name__, str(e)[:200]))
assert len(terms) == 1 and len(terms[0].factors) == 1, (formula, terms)
f = terms[0].factors[0]
assert f.eval_method.value == "python" and ast.dump(ast.parse(f.expr, mode="eval")) == ast.dump(ast.parse(code, mode="eval")), (formula, f.expr)
'''


def verbatim_fragments():
    """Valid Python fragments holding operator characters, quotes and brackets, mostly inside
    string literals (where they cannot be confused with Python syntax)."""
    payloads = ["+", "-", "*", "/", ":", "~", "|", "^", "%", " ", "(", ")", "[", "]", "{", "}", "a+b", "(a)", "x y", "%in%", "a ~ b | c", "}{", ")(", "#", "\\\\", "é", ","]
    for p in payloads:
        for q in ('"', "'"):
            lit = q + p + q
            yield f"f({lit})", f"f({lit})", "string-literal"
            yield "{" + f"a == {lit}" + "}", f"a == {lit}", "string-literal"
            yield f"f(a, k={lit})[0]", f"f(a, k={lit})[0]", "string-literal"
    # quotes inside the other kind of quotes
    for lit in ('"\'"', "'\"'", '"it\'s"', '"\\""', "'\\''"):
        yield f"f({lit})", f"f({lit})", "quote-in-string-literal"
        yield "{" + f"a == {lit}" + "}", f"a == {lit}", "quote-in-string-literal"
    # backslash-escaped brackets, quotes and backticks inside string literals (regular expressions...)
    escaped = ["\\" + c for c in "()[]{}`"] + ["\\(\\d\\)", "a\\)b", "\\[x\\]", "\\(\\[", "x\\}y\\{"]
    for p in escaped:
        for lit in ('r"' + p + '"', "r'" + p + "'", '"' + p + '"', "'" + p + "'"):
            for call in (f"f({lit})", f"s.str.contains({lit})", f"f(a, k={lit})[0]", f"f(s, {lit}, b)"):
                yield call, call, "escaped-in-string-literal"
            yield "{" + f"a == {lit}" + "}", f"a == {lit}", "escaped-in-string-literal"
            yield "{" + f"s.str.contains({lit})" + "}", f"s.str.contains({lit})", "escaped-in-string-literal"
    for lit in ('r"\\""', "r'\\''", '"a\\"b"', "'\\''", '"\\"\\)"'):
        yield f"f({lit})", f"f({lit})", "escaped-quote-in-string-literal"
        yield "{" + f"a == {lit}" + "}", f"a == {lit}", "escaped-quote-in-string-literal"
    # brackets and operators as Python syntax
    for code in ["a[0]", "a[1:2]", "a[(1, 2)]", "f(a)[g(b)]", "f(a)(b)", "a.g(b)[c]", "f((a, (b, c)))", "f([a, [b]])", "{1: a}[1]", "f({1, 2})", "a in {1, 2}", "{'k': a}['k']", "f(a)[{1: 0}[1]]", "a | b", "a ^ b", "~a", "a % b", "-a", "a - -b", "a ** -1", "a @ b", "a if b else c", "a[::2]", "a < b", "a // b", "a >> 2"]:
        if re.match(r"[\w]+\(", code) and code.endswith((")", "]")) and "{" not in code:
            yield code, code, "python-syntax"
        yield "{" + code + "}", code, "python-syntax" if "{" not in code else "nested-brace"


TOKEN_REPRO = '''from formulaic.parser.algos.tokenize import tokenize
formula, text = {formula!r}, {text!r}
try:
    toks = [(t.token, t.kind.value) for t in tokenize(formula)]
except Exception as e:
    toks = (type(e).__name__, str(e)[:120])
assert toks == [(text, "python")], (formula, toks)     # one token holding exactly the fragment text
'''


def w_verbatim(args):
    acc = Acc()
    parser = C1.get_parser(False)
    # fragments that quote a name holding an escaped backtick: only the tokenizer's contract (one
    # token with exactly the fragment text) is judged here
    for name in ("b\\`c", "\\`", "a\\`"):
        for formula, text in (("{`%s` + 1}" % name, "`%s` + 1" % name), ("f(`%s`)" % name, "f(`%s`)" % name), ("f(`%s`, x)[0]" % name, "f(`%s`, x)[0]" % name), ("{`%s` - `b`}" % name, "`%s` - `b`" % name)):
            toks, err, _ = lib_tokens(formula)
            acc.case(("token", formula), True, sample={"fragment": formula})
            if err is not None or [(t[0], t[1]) for t in toks] != [(text, "python")]:
                w = {"fragment": formula, "observed": [list(t[:2]) for t in toks] if err is None else repr(err)[:200], "code": TOKEN_REPRO.format(formula=formula, text=text)}
                acc.fail("C15.python.verbatim", "escaped-backtick-name-in-fragment/token-text", w, f"tokenize({formula!r}) should give the single python token {text!r}: {toks} {err!r}")
    for formula, code, kind in verbatim_fragments():
        if not _same_ast(code, code):
            raise AssertionError(f"driver bug: {code!r} is not valid Python")
        acc.case((formula,), True, sample={"fragment": formula})
        got = factors_of(parser, formula)
        ok = False
        if got[0] == "ok" and len(got[1]) == 1 and len(got[1][0]) == 1 and got[1][0][0][0] == "python":
            ok = _same_ast(got[1][0][0][1], code)
        if ok:
            # the tokenizer itself: one token with exactly the fragment text
            toks, err, _ = lib_tokens(formula)
            if err is not None or [(t[0], t[1]) for t in toks] != [(code, "python")]:
                w = {"fragment": formula, "python": code, "observed": [list(t[:2]) for t in toks], "code": TOKEN_REPRO.format(formula=formula, text=code)}
                acc.fail("C15.python.verbatim", kind + "/token-text", w, f"tokenize({formula!r}) should give the single python token {code!r}: {toks}")
            continue
        if not ok:
            # also tolerate: the same, embedded in a formula with an intercept-free sum
            cause = kind
            inner = code
            if kind in ("string-literal", "quote-in-string-literal"):
                m = re.search(r"[\"'](.*)[\"']", inner)
                payload = m.group(1) if m else ""
                if any(c in payload for c in "()[]{}"):
                    cause += "/bracket-in-literal"
                elif any(c in payload for c in "\"'"):
                    cause += "/quote-in-literal"
                elif "`" in payload:
                    cause += "/backtick-in-literal"
                else:
                    cause += "/other"
            w = {"fragment": formula, "python": code, "observed": list(got), "code": VERBATIM_REPRO.format(formula=formula, code=code)}
            acc.fail("C15.python.verbatim", cause + ("" if got[0] in ("ok", "ok-structured") else f"/{got[0]}:{got[1]}"), w, f"{formula!r} is one valid Python fragment but parses to {got}")
    return ("python-verbatim", acc.result())


# --------------------------------------------------------------------------------------
# E. token source spans
# --------------------------------------------------------------------------------------
SPAN_REPRO = '''from formulaic.parser.algos.tokenize import tokenize
s = {s!r}
toks, objs = [], []
try:
    for t in tokenize(s):
        toks.append((t.token, t.kind.value, t.source_start, t.source_end))
        objs.append((t, t.get_source_context(), t.get_source_context(colorize=True)))
except Exception:
    pass
def subseq(a, b):
    it = iter(b)
    return all(c in it for c in a)
prev_end = -1
for text, kind, start, end in toks:
    assert start is not None and end is not None and 0 <= start <= end < len(s), (s, text, start, end)
    assert start > prev_end, (s, text, start, prev_end)        # ordered, non-overlapping
    assert subseq(text, s[start:end + 1]), (s, text, s[start:end + 1])   # the span holds the token's text
    prev_end = end
import re
for t, plain, coloured in objs:
    want = s[:t.source_start] + "\\u29db" + s[t.source_start:t.source_end + 1] + "\\u29da" + s[t.source_end + 1:]
    assert plain == want, (s, t.token, plain, want)       # rendered span == recorded span
    assert re.sub(r"\\x1b\\[[0-9;]*m", "", coloured) == want, (s, t.token, coloured)
expected = {expected!r}
if expected is not None:
    got = [(text, start, end) for text, kind, start, end in toks if kind != "operator"]
    assert len(got) == len(expected) and all(g[0] == e[0] and g[1] in e[1] and g[2] in e[2] for g, e in zip(got, expected)), (s, got, expected)
'''


def _subseq(a, b):
    it = iter(b)
    return all(c in it for c in a)


def lib_tokens(s):
    from formulaic.parser.algos.tokenize import tokenize

    toks = []
    ctxs = []
    err = None
    try:
        for t in tokenize(s):
            toks.append((t.token, t.kind.value if t.kind else None, t.source_start, t.source_end))
            try:
                ctxs.append((t.get_source_context(), t.get_source_context(colorize=True)))
            except Exception as e:  # outcome: judged as a wrong rendering
                ctxs.append((f"<raised {type(e).__name__}>", None))
    except Exception as e:  # outcome; spans of the tokens produced so far are still judged
        err = e
    return toks, err, ctxs


OPEN_MARK, CLOSE_MARK = "\u29db", "\u29da"


def expected_context(s, start, end):
    return s[:start] + OPEN_MARK + s[start : end + 1] + CLOSE_MARK + s[end + 1 :]


def highlighted_span(message, s):
    """(start, end) of the source characters between the markers of the source context that
    ends a syntax-error message, or None when the message carries no (well-formed) context."""
    clean = ANSI.sub("", message)
    if OPEN_MARK in s or CLOSE_MARK in s or "\x1b" in s or len(clean) < len(s) + 2:
        return None
    ctx = clean[-(len(s) + 2) :]
    a, b = ctx.find(OPEN_MARK), ctx.find(CLOSE_MARK)
    if not (0 <= a < b) or ctx.replace(OPEN_MARK, "", 1).replace(CLOSE_MARK, "", 1) != s:
        return None
    return a, b - 2


def check_spans(acc, s, expected=None, family="arbitrary"):
    """Guarded: an exception while judging is a violation of the span clause; returns ([], error)."""
    try:
        return _check_spans(acc, s, expected, family)
    except Exception as e:
        w = {"string": s, "exception": f"{type(e).__name__}: {e}"[:300],
             "code": "from vf.bounded import c15\nacc = c15.Acc()\nc15._check_spans(acc, %r, %r, %r)\nassert not acc.failures, acc.failures[:1]\n" % (s, expected, family)}
        acc.fail("C15.spans.oracle", f"oracle-not-applicable:{type(e).__name__}", w, f"judging tokenize({s!r}) raised {type(e).__name__}: {e}"[:400])
        return [], e


def _check_spans(acc, s, expected=None, family="arbitrary"):
    toks, err, ctxs = lib_tokens(s)
    acc.case((family, s), bool(toks), sample={"string": s, "tokens": toks[:6]} if toks else None)
    prev_end = -1
    problem = None
    for text, kind, start, end in toks:
        if start is None or end is None or not (0 <= start <= end < len(s)):
            problem = ("out-of-range", (text, start, end))
            break
        if start <= prev_end:
            problem = ("overlap-or-disorder", (text, start, prev_end))
            break
        if not _subseq(text, s[start : end + 1]):
            problem = ("text-not-in-span", (text, s[start : end + 1]))
            break
        prev_end = end
    if problem is None and "\x1b" not in s:
        # the rendering of the recorded span (what every syntax error shows): the text between the
        # markers is exactly source[start:end+1], the rest of the source surrounds it
        for (text, kind, start, end), (plain_ctx, colour_ctx) in zip(toks, ctxs):
            want = expected_context(s, start, end)
            if plain_ctx != want:
                problem = ("rendered-context", (text, (start, end), plain_ctx, want))
                break
            if colour_ctx is None or ANSI.sub("", colour_ctx) != want or colour_ctx.count("\x1b[") != 2:
                problem = ("rendered-context-colorized", (text, (start, end), colour_ctx, want))
                break
    if problem is None and expected is not None and err is None:
        got = [(text, start, end) for text, kind, start, end in toks if kind != "operator"]
        ok = len(got) == len(expected) and all(g[0] == e[0] and g[1] in e[1] and g[2] in e[2] for g, e in zip(got, expected))
        if ok:
            # operator tokens: every non-whitespace character between two operand tokens belongs to exactly one operator span
            covered = [False] * len(s)
            for text, kind, start, end in toks:
                for j in range(start, end + 1):
                    covered[j] = True
            stray = [j for j, c in enumerate(s) if not covered[j] and not c.isspace() and c not in "`}%"]
            if stray:
                problem = ("character-outside-every-span", (stray[:3], s))
        else:
            problem = ("operand-span-mismatch", (got, expected))
    if problem:
        w = {"string": s, "tokens": toks, "problem": list(problem), "code": SPAN_REPRO.format(s=s, expected=expected)}
        cls = family
        if family == "arbitrary" and re.search(r"\{\}|``|%%", s):
            cls = "after-empty-quoted-token"
        acc.fail("C15.spans." + problem[0], cls, w, f"tokenize({s!r}): {problem}")
    return toks, err


def expected_operand_spans(tokens, gaps):
    """Independent expectation for a string rendered from our own token list: for every
    operand / bracket token (text, allowed starts, allowed ends)."""
    out = []
    pos = 0
    for tok, gap in zip(tokens, gaps):
        pos += len(gap)
        start, end = pos, pos + len(tok) - 1
        if tok in ("(", ")"):
            out.append((tok, (start,), (end,)))
        elif tok[0] == "`" or tok[0] == "{":
            out.append((tok[1:-1], (start, start + 1), (end - 1, end)))
        elif tok in E.LEVEL or tok in ("~", "|", "+", "-"):
            pass  # operator tokens: judged by the coverage rule
        else:
            out.append((tok, (start,), (end,)))
        pos = end + 1
    return out


def w_string_tokens(args):
    """grammar.md lists "..." / '...' string literals as one token: the tokenizer must keep them
    verbatim whatever they contain (other than their own quote character and backslashes)."""
    acc = Acc()
    payloads = ["", "a", "a b", "'", '"', "`", "(", ")", "[", "]", "{", "}", "+", "~", "|", "%", "a'b", 'a"b', "it's", "({[", "}])", "#", "é", "a`b", "%in%", "x ~ y"]
    for p in payloads:
        for q in "\"'":
            if q in p:
                continue
            lit = q + p + q
            for s, idx in ((lit, 0), ("a + " + lit, 2), (lit + " + a", 0), ("(" + lit + ")", 1)):
                toks, err, _ = lib_tokens(s)
                acc.case(("string-token", s), True, sample={"string": s})
                ok = err is None and idx < len(toks) and toks[idx][0] == lit and toks[idx][1] == "value"
                if not ok:
                    w = {"string": s, "literal": lit, "tokens": toks, "error": repr(err), "code": STRTOK_REPRO.format(s=s, lit=lit, idx=idx)}
                    acc.fail("C15.tokens.string-literal-verbatim", "other-quote-inside" if ("'" in p or '"' in p) else "other", w, f"tokenize({s!r}) should hold the value token {lit!r} at position {idx}: {toks} {err!r}")
    return ("string-tokens", acc.result())


STRTOK_REPRO = '''from formulaic.parser.algos.tokenize import tokenize
s, lit, idx = {s!r}, {lit!r}, {idx}
toks = [(t.token, t.kind.value) for t in tokenize(s)]
assert toks[idx] == (lit, "value"), (s, toks)
'''


def w_spans_grammar(args):
    nmax, thorough, seed, shard, nshards = args
    acc = Acc()
    rng = random.Random(seed * 131 + shard)
    ws = ["", "", " ", "  ", "\t", "\n", " \t"]
    for i, (tree, _) in enumerate(ws_trees(nmax, thorough)):
        if i % nshards != shard:
            continue
        tokens = E.to_tokens(tree)
        for style in ("tight", "spaced", "random"):
            if style == "tight":
                gaps = [""] * len(tokens)
            elif style == "spaced":
                gaps = [""] + [" "] * (len(tokens) - 1)
            else:
                gaps = [rng.choice(ws) for _ in tokens]
            s = "".join(g + t for g, t in zip(gaps, tokens))
            check_spans(acc, s, expected_operand_spans(tokens, gaps), family="grammar")
            check_error_highlights(acc, tokens, gaps)
    return ("token-spans", acc.result())


_OPERATOR_TOKENS = set(E.LEVEL) | {"~", "|", "+", "-"}

HIGHLIGHT_REPRO = '''import re
from formulaic.parser import DefaultFormulaParser
from formulaic.errors import FormulaSyntaxError
s, expected, prefix = {s!r}, {expected!r}, {prefix!r}
try:
    DefaultFormulaParser().get_terms(s)
    msg = None
except FormulaSyntaxError as e:
    msg = re.sub(r"\\x1b\\[[0-9;]*m", "", str(e))
except Exception:
    msg = None
if msg is not None and msg.startswith(prefix):
    ctx = msg[-(len(s) + 2):]
    a, b = ctx.find("\\u29db"), ctx.find("\\u29da")
    assert (a, b - 2) == tuple(expected), (s, "highlighted", (a, b - 2), repr(s[a:b - 1]), "offending token span", expected, repr(s[expected[0]:expected[1] + 1]))
'''


def injected_errors(tokens, gaps):
    """One defect with a known offending token put into a well-formed formula:
    -> (kind, source, (start, end) of the offending text, expected message prefix)"""

    def build(toks, gps):
        pos, out, p = [], [], 0
        for t, g in zip(toks, gps):
            p += len(g)
            pos.append(p)
            out.append(g + t)
            p += len(t)
        return "".join(out), pos

    n = len(tokens)
    names = [t for t in tokens if t.isidentifier()]
    for i, tok in enumerate(tokens):
        prev_is_op = i > 0 and tokens[i - 1] in _OPERATOR_TOKENS
        next_is_op = i + 1 < n and tokens[i + 1] in _OPERATOR_TOKENS
        if tok in ("*", "/", ":", "**", "^", "%in%") and not prev_is_op and not next_is_op:
            toks = tokens[:i] + ["@"] + tokens[i + 1 :]
            src, pos = build(toks, gaps)
            yield "unknown-operator", src, (pos[i], pos[i]), "Unknown operator '@'"
        if tok.isidentifier() and names.count(tok) == 1 and i < 6:
            toks = tokens[:i] + ['"s"'] + tokens[i + 1 :]
            src, pos = build(toks, gaps)
            yield "string-literal", src, (pos[i], pos[i] + 2), "String literals are not valid in formulae."
            toks = tokens[: i + 1] + ["zz"] + tokens[i + 1 :]
            gps = gaps[: i + 1] + [" "] + gaps[i + 1 :]
            src, pos = build(toks, gps)
            yield "missing-operator", src, (pos[i], pos[i + 1] + 1), f"Missing operator between `{tok}` and `zz`."
    src, pos = build(["("] + tokens, [""] + gaps)
    yield "unmatched-opener", src, (0, 0), "Could not find matching context marker."


def check_error_highlights(acc, tokens, gaps):
    C1.guard_case(acc, "C15.spans.error-highlight", "c15", "_check_error_highlights", (tokens, gaps), {"string": "".join(g + t for g, t in zip(gaps, tokens))})


def _check_error_highlights(acc, tokens, gaps):
    from formulaic.errors import FormulaSyntaxError

    parser = C1.get_parser(True)
    for kind, src, want, prefix in injected_errors(tokens, gaps):
        try:
            parser.get_terms(src)
            msg = None
        except FormulaSyntaxError as e:
            msg = ANSI.sub("", str(e))
        except Exception:
            msg = None
        judged = msg is not None and msg.startswith(prefix)
        acc.case(("error-highlight", src), judged, sample={"string": src, "offending_span": list(want)} if judged else None)
        if not judged:
            continue  # another error came first / the defect is not an error in this position
        got = highlighted_span(msg, src)
        if got != want:
            w = {"string": src, "message": msg[:300], "highlighted": got, "offending_span": list(want), "code": HIGHLIGHT_REPRO.format(s=src, expected=list(want), prefix=prefix)}
            acc.fail("C15.spans.error-highlight", kind, w, f"{src!r}: {prefix!r} should highlight {want} = {src[want[0]:want[1] + 1]!r}, the message highlights {got}" + (f" = {src[got[0]:got[1] + 1]!r}" if got else ""))


ANSI = re.compile(r"\x1b\[[0-9;]*m")


def w_spans_arbitrary(args):
    length, shard, nshards, seed, nrandom = args
    from formulaic.errors import FormulaSyntaxError

    acc = Acc()
    parser = C1.get_parser(True)

    def one(s):
        toks, err = check_spans(acc, s)
        # the source context printed in syntax errors must be the source with one marked span
        try:
            parser.get_terms(s)
        except FormulaSyntaxError as e:
            msg = str(e)
            clean = ANSI.sub("", msg)
            if "⧛" in clean and "⧛" not in s and "⧚" not in s and "\x1b" not in s and len(clean) > len(s) + 4:
                # message + blank line + the source with one marked span (two marker characters)
                ctx = clean[-(len(s) + 2) :]
                acc.case(("error-context", s), True)
                a, b = ctx.find("⧛"), ctx.find("⧚")
                if not (clean[-(len(s) + 4) : -(len(s) + 2)] == "\n\n" and 0 <= a < b and ctx.replace("⧛", "", 1).replace("⧚", "", 1) == s):
                    w = {"string": s, "message": msg[:300], "code": ERRCTX_REPRO.format(s=s)}
                    acc.fail("C15.spans.error-context", "context-is-not-the-source", w, f"error context of {s!r} is {ctx!r}")
                elif err is None and toks:
                    # the marked span starts where some token's recorded span starts and ends where
                    # some token's recorded span ends (one token, or a run of tokens for a sub-expression)
                    hs, he = a, b - 2
                    if not (hs in {t[2] for t in toks} and he in {t[3] for t in toks}) and not clean.startswith(("Formula ended before", "Unexpected character")):
                        w = {"string": s, "message": msg[:300], "highlighted": [hs, he], "token_spans": [[t[2], t[3]] for t in toks], "code": ERRCTX_BOUNDARY_REPRO.format(s=s)}
                        first = clean.split("\n", 1)[0]
                        sub = "missing-operator-rhs-without-source-position" if first.startswith("Missing operator between") and hs == he and hs in {t[2] for t in toks} else "other"
                        acc.fail("C15.spans.error-context", f"highlight-not-on-token-boundaries/{sub}", w, f"error context of {s!r} highlights {(hs, he)} = {s[hs:he + 1]!r}, token spans are {[(t[2], t[3]) for t in toks]}")
        except Exception:
            pass

    if length is not None:
        for s in E.token_strings_shard(E.TOKEN_ALPHABET, length, shard, nshards):
            one(s)
    for s in E.random_char_strings(seed * 977 + shard, nrandom, 14):
        one(s)
    return ("token-spans", acc.result())


ERRCTX_BOUNDARY_REPRO = '''import re
from formulaic.parser import DefaultFormulaParser
from formulaic.parser.algos.tokenize import tokenize
from formulaic.errors import FormulaSyntaxError
s = {s!r}
toks = list(tokenize(s))
try:
    DefaultFormulaParser().get_terms(s)
    msg = None
except FormulaSyntaxError as e:
    msg = re.sub(r"\\x1b\\[[0-9;]*m", "", str(e))
if msg is not None and "\\u29db" in msg:
    ctx = msg[-(len(s) + 2):]
    a, b = ctx.find("\\u29db"), ctx.find("\\u29da")
    assert a in [t.source_start for t in toks] and b - 2 in [t.source_end for t in toks], (s, (a, b - 2), [(t.source_start, t.source_end) for t in toks])
'''


ERRCTX_REPRO = '''import re
from formulaic.parser import DefaultFormulaParser
from formulaic.errors import FormulaSyntaxError
s = {s!r}
try:
    DefaultFormulaParser().get_terms(s)
    msg = None
except FormulaSyntaxError as e:
    msg = re.sub(r"\\x1b\\[[0-9;]*m", "", str(e))
except Exception:
    msg = None
if msg is not None and "\\u29db" in msg:
    ctx = msg[-(len(s) + 2):]
    a, b = ctx.find("\\u29db"), ctx.find("\\u29da")
    assert msg[-(len(s) + 4):-(len(s) + 2)] == "\\n\\n" and 0 <= a < b and ctx.replace("\\u29db", "", 1).replace("\\u29da", "", 1) == s, (s, msg)
'''


# --------------------------------------------------------------------------------------
WORKER_DRIVER = {"w_whitespace": "whitespace", "w_names": "quoted-names", "w_reformat": "python-reformatting", "w_verbatim": "python-verbatim",
                 "w_string_tokens": "string-tokens", "w_spans_grammar": "token-spans", "w_spans_arbitrary": "token-spans"}


def _run(task):
    import warnings

    warnings.filterwarnings("ignore", category=SyntaxWarning)
    return C1.run_task_safely(task, "c15", WORKER_DRIVER, "C15.driver.worker")


def run_bounded(ctx):
    th = ctx.thorough
    seed = ctx.seed
    tasks = []
    nws = 48
    for sh in range(nws):
        tasks.append((w_whitespace, (2, th, sh, nws)))
    for sh in range(16):
        tasks.append((w_names, (th, seed, sh, 16)))
    tasks.append((w_reformat, (seed,)))
    tasks.append((w_verbatim, ()))
    tasks.append((w_string_tokens, ()))
    for sh in range(8):
        tasks.append((w_spans_grammar, (2, th, seed, sh, 8)))
    for sh in range(16):
        tasks.append((w_spans_arbitrary, (4 if th else 3, sh, 16, seed, (200000 if th else 20000) // 16)))

    bs = {
        "whitespace": ctx.bounded(
            "whitespace",
            rule="for every base tree <= 2 nodes and every once-decorated tree <= 1 node: the tight rendering vs (a) spaces around every token, "
            "(b) every placement of one whitespace character (space, tab, newline) at a token boundary (each sign of a run is a token), "
            "(c) every placement of two for the smaller trees; get_terms must give the same outcome (equal structure or both rejected)",
            exhaustive=True,
            bound="base trees <= 2 binary nodes (" + ("all" if th else "key") + " labellings), decorated trees <= 1 node; pairs for <= " + ("2" if th else "1") + " node(s)",
        ),
        "quoted-names": ctx.bounded(
            "quoted-names",
            rule="column names: every ASCII punctuation/whitespace character alone and embedded, operator words, quotes, brackets, backslashes, "
            "keywords, digits, non-ASCII (+ seeded random unicode in the thorough tier) x 4 contexts (top level, brace, call, "
            "interaction) materialised with model_matrix against a frame holding that column; all ordered pairs of 21 confusable names in one fragment",
            exhaustive=False,
            bound=f"{len(name_pool(th, seed))} names",
        ),
        "python-reformatting": ctx.bounded("python-reformatting", rule="57 call/brace fragments x respellings with identical AST (token spacing, tabs, quote style, redundant parentheses, trailing comma, newline inside brackets; blank / tab / LF / CRLF / LF+indent immediately inside the quoting brace or call bracket, leading and trailing); 20 templates x 4 back-ticked names directly abutting keywords/identifiers vs the spaced spelling: equal factors, equal formulas, one term when summed", exhaustive=False, bound="see rule"),
        "python-verbatim": ctx.bounded("python-verbatim", rule="valid Python fragments containing operator characters, brackets and quotes (inside string literals, also backslash-escaped in raw and plain literals, and as Python syntax): one python token with exactly the fragment text, one term, one python factor with the fragment's AST; fragments quoting a name with an escaped backtick: one token", exhaustive=False, bound="~560 fragments"),
        "string-tokens": ctx.bounded("string-tokens", rule="string literals in both quote styles holding brackets, operators, the other quote, backticks: one verbatim value token, in 4 positions", exhaustive=False, bound="26 payloads"),
        "token-spans": ctx.bounded(
            "token-spans",
            rule="tokenize(): spans in range, strictly ordered, non-overlapping, holding the token text; for strings rendered from grammar trees the "
            "operand/bracket spans equal the independently known offsets and no non-blank character lies outside every span; for rejected strings the "
            "printed source context is the source with one marked span lying on token boundaries; every token's get_source_context() (plain and colorized) "
            "renders exactly its recorded span; for grammar strings with one injected defect (unknown operator, string literal operand, missing operator, "
            "unmatched opener) the error message highlights exactly the offending token(s)",
            exhaustive=False,
            bound=f"grammar trees as in 'whitespace' x 3 renderings; all strings of <= {4 if th else 3} alphabet tokens; {200000 if th else 20000} random strings",
        ),
    }
    found, totals = {}, {}
    t0 = time.time()
    with ProcessPoolExecutor(NPROC) as pool:
        for name, (n, keys, samples, failures, counts) in pool.map(_run, tasks, chunksize=1):
            b = bs[name]
            b.add_counts(n, keys, samples)
            for k, c in counts.items():
                totals[k] = totals.get(k, 0) + c
            for clause, w, detail in failures:
                size = len(str(w.get("formula") or w.get("string") or w.get("fragment") or w.get("name") or ""))
                found.setdefault((clause, w["cls"]), []).append((size, name, w, detail))
    for (clause, cls), lst in sorted(found.items()):
        lst.sort(key=lambda x: x[0])
        for _, name, w, detail in lst[:5]:
            bs[name].fail(clause, w, detail)
    for b in bs.values():
        b.wall = time.time() - t0
    if totals:
        ctx.notes.append({"C15 bounded failure counts": {f"{k[0]} [{k[1]}]": v for k, v in sorted(totals.items())}})
    if not ctx.explanation:
        # only when no deductive module has described the run (vf/proofs is written separately)
        ctx.explanation = "bounded stand-in only in this run: lexing invariances are relational (two runs) and are observed over enumerated formulas, names and fragments (bounded), not proved"
    ctx.assume(
        "A-C15-tokens: 'token boundary' = boundary between the tokens of the generating grammar tree (names, literals, quoted names, call and brace "
        "fragments, brackets, each operator, each sign of a sign run); whitespace = space, tab, newline (+ carriage return in the thorough tier)",
        "A-C15-ast: two Python fragments 'differ only in formatting' iff ast.dump of their parse is equal",
        "A-C15-span: a span 'delimits' a token if the token text is a subsequence of source[start:end+1]; for quoted tokens the span may or may not include the quote characters",
    )
