"""C06 bounded stand-in: missing-data policy removes exactly the right rows, by position.

Oracle (from the property statement + docsite/docs/guides/missing_data.ipynb, nothing from the
implementation):
  N  = positions at which some *evaluated factor* of the formula (any part) is null, where the
       factor values are recomputed here by evaluating the factor expression stand-alone;
  S0 = the caller's drop set before the call.
  drop  : result rows == input positions not in N | S0, in original order (checked through the
          row count, through every row-local column whose name says what it holds, and through
          the index labels on pandas output); the caller's set afterwards == N | S0; no error.
  raise : error iff N != {} (see `ambiguous` below for N <= S0).
  ignore: every row kept.
Two combinations are documented differently from the literal statement and are therefore only
checked where both readings agree (recorded in ctx.assume):
  * raise with N non-empty but N <= S0: the guide says caller-listed rows can be "safely
    ignored", the statement says "iff some evaluated factor has a null" -> either outcome accepted;
  * ignore with a non-empty caller set: the guide says the caller's rows are filtered, the
    statement says every row is kept -> result must be one of the two, nothing else.
"""
from __future__ import annotations

import itertools
import random
import re
import warnings

import numpy as np
import pandas as pd

from . import _nullrows_common as K

# --------------------------------------------------------------------------- formulas
# name -> (spec source, factor expressions of all parts, flat counterpart or None, tags)
FORMULAS = {
    "1": ("'1'", [], None, ()),
    "x": ("'x'", ["x"], None, ()),
    "x+A": ("'x + A'", ["x", "A"], None, ()),
    "x+A+y": ("'x + A + y'", ["x", "A", "y"], None, ()),
    "0+x+y": ("'0 + x + y'", ["x", "y"], None, ()),
    "x:A+y": ("'x:A + y'", ["x", "A", "y"], None, ()),
    "x*y": ("'x * y'", ["x", "y"], None, ()),
    "C(A)+x": ("'C(A) + x'", ["C(A)", "x"], None, ("C",)),
    "hashed+x": ("'hashed(A, levels=3) + x'", ["hashed(A, levels=3)", "x"], None, ("hashed",)),
    "center(x)+y": ("'center(x) + y'", ["center(x)", "y"], None, ("stateful",)),
    "scale(x)+A": ("'scale(x) + A'", ["scale(x)", "A"], None, ("stateful",)),
    "lag(x)+y": ("'lag(x) + y'", ["lag(x)", "y"], None, ("lag",)),
    "log(x)+y": ("'np.log(x) + y'", ["np.log(x)", "y"], None, ()),
    "y~0": ("'y ~ 0'", ["y"], "y", ("structured",)),
    "y~x": ("'y ~ x'", ["y", "x"], "x+y", ("structured",)),
    "y~x+A": ("'y ~ x + A'", ["y", "x", "A"], "x+A+y", ("structured",)),
    "y~x|A": ("'y ~ x | A'", ["y", "x", "A"], "x+A+y", ("structured",)),
    "A~x": ("'A ~ x'", ["A", "x"], "x+A", ("structured",)),
    "y~C(A)+center(x)": ("'y ~ C(A) + center(x)'", ["y", "C(A)", "center(x)"], "y+C(A)+center(x)", ("structured", "stateful", "C")),
    "kw(y;x+A)": ("Formula(lhs='y', rhs='x + A')", ["y", "x", "A"], "x+A+y", ("structured",)),
    "tuple(x;A+y)": ("('x', 'A + y')", ["x", "A", "y"], "x+A+y", ("structured",)),
    # c: a numeric vector supplied through the evaluation context (as list / tuple / ndarray / Series)
    "x+c": ("'x + c'", ["x", "c"], None, ("ctx",)),
    "c+A+y": ("'c + A + y'", ["c", "A", "y"], None, ("ctx",)),
    "c:x+y": ("'c:x + y'", ["c", "x", "y"], None, ("ctx",)),
    "y~x+c": ("'y ~ x + c'", ["y", "x", "c"], "x+c+y", ("structured", "ctx")),
    "x+c+y": ("'x + c + y'", ["x", "c", "y"], None, ("ctx",)),
    "x+y": ("'x + y'", ["x", "y"], None, ()),
    "y": ("'y'", ["y"], None, ()),
    "y+C(A)+center(x)": ("'y + C(A) + center(x)'", ["y", "C(A)", "center(x)"], None, ("stateful", "C")),
}
# formulas enumerated by the cross driver (the last three only serve as flat counterparts)
CROSS_FORMULAS = [f for f in FORMULAS if f not in ("x+y", "y", "y+C(A)+center(x)", "x+c+y")]
CTX_KINDS = ("list", "tuple", "ndarray", "series")

# entry points: source of an expression over SPEC, df, clean, NA, OUT, S
ENTRIES = {
    "model_matrix": "model_matrix(SPEC, df, context=CTX, na_action=NA, output=OUT, drop_rows=S)",
    "Formula.get_model_matrix": "Formula(SPEC).get_model_matrix(df, context=CTX, na_action=NA, output=OUT, drop_rows=S)",
    "spec.get_model_matrix": "ModelSpec.from_spec(SPEC, na_action=NA, output=OUT).get_model_matrix(df, context=CTX, drop_rows=S)",
    "spec.get_model_matrix(**overrides)": "ModelSpec.from_spec(SPEC).get_model_matrix(df, context=CTX, drop_rows=S, na_action=NA, output=OUT)",
    "spec.get_model_matrix(ensure_full_rank=False)": "ModelSpec.from_spec(SPEC, na_action=NA, output=OUT).get_model_matrix(df, context=CTX, drop_rows=S, ensure_full_rank=False)",
    "reused-spec": "model_matrix(SPEC, clean, context=CC, na_action=NA, output=OUT).model_spec.get_model_matrix(df, context=CTX, drop_rows=S)",
    "reused-spec(**overrides)": "model_matrix(SPEC, clean, context=CC).model_spec.get_model_matrix(df, context=CTX, drop_rows=S, na_action=NA, output=OUT)",
    "PandasMaterializer": "formulaic.materializers.PandasMaterializer(df, context=CTX).get_model_matrix(SPEC, drop_rows=S, na_action=NA, output=OUT)",
    "NarwhalsMaterializer": "formulaic.materializers.NarwhalsMaterializer(df, context=CTX).get_model_matrix(SPEC, drop_rows=S, na_action=NA, output=OUT)",
}
OVERRIDE_NEUTRAL = {
    "spec.get_model_matrix(**overrides)": "spec.get_model_matrix",
    "spec.get_model_matrix(ensure_full_rank=False)": "spec.get_model_matrix",
    "reused-spec(**overrides)": "reused-spec",
}
REUSE = {"reused-spec", "reused-spec(**overrides)"}
NA_ACTIONS = ("drop", "raise", "ignore")
OUTPUTS = ("pandas", "numpy", "sparse")
S_KINDS = ("none", "empty", "first", "last", "all")

_CALLS = {}


def _call(entry):
    fn = _CALLS.get(entry)
    if fn is None:
        env = {}
        exec(K.PRELUDE + f"def call(SPEC, df, clean, NA, OUT, S, CTX, CC):\n    return {ENTRIES[entry]}\n", env)
        fn = _CALLS[entry] = env["call"]
    return fn


def _spec(fname):
    env = {}
    exec(K.PRELUDE + f"SPEC = {FORMULAS[fname][0]}\n", env)
    return env["SPEC"]


def make_S(kind, n, extra=None):
    if kind == "none":
        return None
    if kind == "empty":
        return set()
    if kind == "first":
        return {0}
    if kind == "last":
        return {n - 1}
    if kind == "all":
        return set(range(n))
    if kind == "rand":
        return set(extra)
    raise ValueError(kind)


# --------------------------------------------------------------------------- oracle


def factor_nulls(fname, df, reuse, clean=None):
    """N: union of the null positions of every evaluated factor (stand-alone evaluation)."""
    from formulaic.transforms import TRANSFORMS

    N = set()
    for expr in FORMULAS[fname][1]:
        if reuse and expr in ("center(x)", "scale(x)"):
            # re-used spec: the transform's state was learnt on the null-free frame `clean`; evaluate the
            # public transform function with that state (documented `_state` protocol of stateful transforms)
            fn, state = TRANSFORMS[expr.split("(")[0]], {}
            with warnings.catch_warnings():
                warnings.simplefilter("ignore")
                fn(clean["x"], _state=state)
                N |= K.null_positions(fn(df["x"], _state=state))
        else:
            try:
                value = K.eval_factor(expr, df)
            except Exception:
                return None  # the factor cannot be evaluated at all on this frame: no oracle, case skipped
            N |= K.null_positions(value)
    return N


def split_masks(masks):
    """(mx, mA, my, cx): cx = None or (container kind, null mask) of the context-supplied column c"""
    return (masks[0], masks[1], masks[2], masks[3] if len(masks) > 3 else None)


def ctx_values(n, mask):
    """values of the context column c: pairwise distinct, so they pin down the row they belong to"""
    return [None if (mask >> i) & 1 else 1000.5 + 7.0 * i for i in range(n)]


def ctx_code(n, cx, name="CTX", frame="df"):
    """source of the context dict: the vector c in the requested container type"""
    if cx is None:
        return f"{name} = {{}}\n"
    kind, mask = cx
    vals = ctx_values(n, mask)
    lit = "[" + ", ".join("None" if v is None else repr(v) for v in vals) + "]"
    flt = "[" + ", ".join("float('nan')" if v is None else repr(v) for v in vals) + "]"
    expr = {"list": lit, "tuple": f"tuple({lit})", "ndarray": f"np.array({flt}, dtype=float)",
            "series": f"pd.Series({flt}, index={frame}.index, dtype=float)"}[kind]
    return f"{name} = {{'c': {expr}}}\n"


def _symptom_exc(e):
    return f"exception {type(e).__name__}"


def run_one(case):
    """Execute one case on the real code and judge it.  Returns (nontrivial, [(clause, symptom, detail)]).
    case = (n, (mx, mA, my), index_kind, text_dtype, formula, na, (skind, extra), entry, output)"""
    n, masks, ik, td, fname, na, (skind, extra), entry, out = case
    mx, mA, my, cx = split_masks(masks)
    df = K.build(K.frame_code(n, {"x": mx, "A": mA, "y": my}, ik, td))
    reuse = entry in REUSE
    clean = K.build(K.frame_code(n, {"x": 0, "A": 0, "y": 0}, ik, td), "df") if reuse else None
    env = {"np": np, "pd": pd, "df": df, "clean": clean}
    exec(ctx_code(n, cx, "CTX", "df") + (ctx_code(n, (cx[0], 0) if cx else None, "CC", "clean") if reuse else "CC = None\n"), env)
    ctx_obj, ctx_clean = env["CTX"], env["CC"]
    if cx is not None:
        # oracle side: the raw context vector as one more column of the frame the oracle looks at
        df = df.copy()
        df["c"] = np.array([np.nan if v is None else v for v in ctx_values(n, cx[1])], dtype=float)
        if clean is not None:
            clean = clean.copy()
            clean["c"] = np.array(ctx_values(n, 0), dtype=float)
    N = factor_nulls(fname, df, reuse, clean)
    if N is None:
        return False, [], "no-oracle"
    if cx is not None:
        df_call = df.drop(columns=["c"])
        clean_call = clean.drop(columns=["c"]) if clean is not None else None
    else:
        df_call, clean_call = df, clean
    S = make_S(skind, n, extra)
    S0 = set(S) if S is not None else set()
    R = N | S0
    kept = [i for i in range(n) if i not in R]
    nontrivial = bool(R)
    spec = _spec(fname)
    exc = res = None
    with warnings.catch_warnings():
        warnings.simplefilter("ignore")
        try:
            res = _call(entry)(spec, df_call, clean_call, na, out, S, ctx_obj, ctx_clean)
        except Exception as e:  # outcome of the code under test, judged below
            exc = e
    fails = []
    if exc is not None:
        # Is this configuration supported at all?  The same call on the null-free frame, default
        # policy, no caller set must work, otherwise the failure is not a missing-data matter (e.g.
        # lag() on a narwhals series, str columns into a sparse matrix): the case is skipped and counted.
        base = (n, (0, 0, 0) + (((cx[0], 0),) if cx else ()), ik, td, fname, "drop", ("none", None), entry, out)
        # (List-valued context columns: sparse output works since fix commits M8/M9 and is judged by this same rule;
        # a list inside an interaction - `c:x` - raises for EVERY output also on the null-free frame: a uniform limitation
        # of the library, not a row-removal matter, so it is skipped like tuples, for which find_nulls has no implementation.)
        if True:
            if case == base:
                return False, [], "baseline-fails:" + type(exc).__name__
            sk = run_one(base)[2]
            if sk:
                return False, [], sk
    check_index = out == "pandas" and entry != "NarwhalsMaterializer"

    def rows(expected_kept, area):
        cache = {}
        for path, m in K.leaves(res):
            ms = getattr(m, "model_spec", None)
            try:
                names = list(ms.column_names) if ms is not None else None
            except Exception:
                names = None
            for what, sym, detail in K.check_leaf_rows(m, names, df, expected_kept, cache, check_index):
                fails.append((f"C06.{area}.{what}", sym, f"part {path}: {detail}"))
                return

    if na == "drop":
        if exc is not None:
            fails.append(("C06.drop.completes", _symptom_exc(exc), f"{type(exc).__name__}: {exc}"))
        else:
            rows(kept, "drop")
            if S is not None:
                got = {int(i) for i in S}
                if got != R:
                    if got == S0 and R != S0:
                        sym = "caller-set-not-updated"
                    elif not S0 <= got:
                        sym = "caller-set-lost-entries"
                    else:
                        sym = "caller-set-wrong"
                    fails.append(("C06.drop.caller-set", sym, f"caller set after call {sorted(got)} expected {sorted(R)} (before: {sorted(S0)})"))
    elif na == "raise":
        if N and not (S0 and N <= S0):
            if exc is None:
                fails.append(("C06.raise.iff", "no-error-despite-null", f"null positions {sorted(N)}, caller set {sorted(S0)}: no error"))
        elif not N:
            if exc is not None:
                fails.append(("C06.raise.iff", "error-without-null: " + _symptom_exc(exc), f"{type(exc).__name__}: {exc}"))
        # else ambiguous (N <= S0, see module docstring): either outcome accepted.
        # Which rows a successful 'raise' build holds is not part of the statement: not checked.
    else:  # ignore
        if exc is not None:
            fails.append(("C06.ignore.all-rows", _symptom_exc(exc), f"{type(exc).__name__}: {exc}"))
        elif not S0:
            rows(list(range(n)), "ignore")
        else:
            n_out = {K.nrows(m) for _, m in K.leaves(res)}
            if n_out == {n}:
                rows(list(range(n)), "ignore")
            else:
                rows([i for i in range(n) if i not in S0], "ignore")
    return nontrivial, fails, False


def _features(case):
    n, masks, ik, td, fname, na, (skind, extra), entry, out = case
    feats = []
    if not K.index_is_unique(ik, n):
        feats.append("non-unique-index")
    if "hashed" in FORMULAS[fname][3]:
        feats.append("hashed")
    if entry in OVERRIDE_NEUTRAL:
        feats.append("spec-overrides")
    if "structured" in FORMULAS[fname][3] and FORMULAS[fname][2]:
        feats.append("structured-formula")
    if entry == "NarwhalsMaterializer":
        feats.append("narwhals")
    if td.startswith("str"):
        feats.append("str-dtype")
    if "/" in td:
        feats.append("nullable-numeric-dtype")
    cx = split_masks(masks)[3]
    if cx is not None and cx[0] != "ndarray":
        feats.append(f"context-{cx[0]}")
    return feats


def _neutralize(case, feats):
    n, masks, ik, td, fname, na, s, entry, out = case
    for feat in feats:
        if feat == "non-unique-index":
            ik = "str"
        elif feat == "hashed":
            fname = "C(A)+x"
        elif feat == "spec-overrides":
            entry = OVERRIDE_NEUTRAL[entry]
        elif feat == "structured-formula":
            fname = FORMULAS[fname][2]
        elif feat == "narwhals":
            entry = "PandasMaterializer"
        elif feat == "str-dtype":
            td = "object" + td[3:]
        elif feat == "nullable-numeric-dtype":
            td = td.partition("/")[0]
        elif feat.startswith("context-"):
            masks = tuple(masks[:3]) + (("ndarray", masks[3][1]),)
    return (n, masks, ik, td, fname, na, s, entry, out)


def classify(case, clause, symptom):
    """Attribute a failure to case features, purely observationally: re-run the real code with
    one feature neutralised at a time (non-unique index -> unique string labels, hashed(A) ->
    C(A), attribute overrides -> same attributes given at spec construction, structured formula
    -> one-sided formula over the same factors, narwhals -> pandas materializer, str dtype ->
    object dtype, nullable Int64/Float64 numeric columns -> float64, context-supplied list / tuple /
    Series -> numpy array).  'a&b': removing any one of them makes the clause hold (all needed);
    'either(a,b)': only removing all of them together does (each alone suffices to break it)."""
    feats = _features(case)

    def still_fails(sub):
        _, fails2, skipped2 = run_one(_neutralize(case, sub))
        # (skipped2: the neutralised configuration is unsupported as such)
        # a neutralised case that is unsupported or dies with an exception tells nothing
        return skipped2 or any(c == clause or c.endswith((".completes", ".all-rows")) for c, _, _ in fails2)

    singles = [f for f in feats if not still_fails([f])]
    if singles:
        return "&".join(singles) + " | " + symptom
    for size in range(2, len(feats) + 1):
        for sub in itertools.combinations(feats, size):
            if not still_fails(list(sub)):
                return "either(" + ",".join(sub) + ") | " + symptom
    n, masks, ik, td, fname, na, (skind, extra), entry, out = case
    tags = ["unattributed"]
    if skind == "all":
        tags.append("all-rows-listed")
    return " ".join(tags) + " | " + symptom


# --------------------------------------------------------------------------- repro


def repro(case, clause):
    n, masks, ik, td, fname, na, (skind, extra), entry, out = case
    mx, mA, my, cx = split_masks(masks)
    reuse = entry in REUSE
    df = K.build(K.frame_code(n, {"x": mx, "A": mA, "y": my}, ik, td))
    clean = K.build(K.frame_code(n, {"x": 0, "A": 0, "y": 0}, ik, td)) if reuse else None
    if cx is not None:
        df["c"] = np.array([np.nan if v is None else v for v in ctx_values(n, cx[1])], dtype=float)
        if clean is not None:
            clean["c"] = np.array(ctx_values(n, 0), dtype=float)
    N = sorted(factor_nulls(fname, df, reuse, clean) or ())
    S = make_S(skind, n, extra)
    src = K.PRELUDE
    src += K.frame_code(n, {"x": mx, "A": mA, "y": my}, ik, td)
    src += K.frame_code(n, {"x": 0, "A": 0, "y": 0}, ik, td, name="clean") if reuse else "clean = None\n"
    src += ctx_code(n, cx, "CTX", "df") + (ctx_code(n, (cx[0], 0) if cx else None, "CC", "clean") if reuse else "CC = None\n")
    src += f"CVALS = {([np.nan if v is None else v for v in ctx_values(n, cx[1])] if cx else None)!r}".replace("nan", "float('nan')") + "\n"
    src += f"SPEC = {FORMULAS[fname][0]}\nNA, OUT = {na!r}, {out!r}\n"
    src += f"S = {('set()' if S is not None and not S else repr(S))}\nS0 = set(S) if S is not None else set()\n"
    src += f"N = set({N!r})   # positions where an evaluated factor is null (oracle: stand-alone evaluation)\n"
    src += f"n = {n}\nexc = res = None\ntry:\n    res = {ENTRIES[entry]}\nexcept Exception as e:\n    exc = e\n"
    src += (
        "def leaves(o):\n"
        "    from formulaic.utils.structured import Structured\n"
        "    if isinstance(o, Structured):\n"
        "        for v in o._structure.values(): yield from leaves(v)\n"
        "    elif isinstance(o, tuple):\n"
        "        for v in o: yield from leaves(v)\n"
        "    else: yield o\n"
        "def rows_ok(kept):\n"
        "    for m in leaves(res):\n"
        "        assert m.shape[0] == len(kept), ('row count', m.shape[0], 'expected', len(kept))\n"
        "        w = m.__wrapped__\n"
        "        if isinstance(w, pd.DataFrame):\n"
        + ("            assert list(w.index) == [df.index[i] for i in kept], ('index', list(w.index), 'expected', [df.index[i] for i in kept])\n"
           if entry != "NarwhalsMaterializer" else "            pass\n")
        + "        names = list(m.model_spec.column_names)\n"
        "        a = np.asarray(w.todense()) if scipy.sparse.issparse(w) else np.asarray(w)\n"
        "        for j, name in enumerate(names):\n"
        "            if name in ('x', 'y', 'c') and a.shape[1] == len(names):\n"
        "                raw = np.array(CVALS, dtype=float) if name == 'c' else df[name].to_numpy(dtype=float, na_value=np.nan)\n"
        "                exp = raw[kept] if kept else np.zeros(0)\n"
        "                assert np.allclose(a[:, j].astype(float), exp, equal_nan=True), (name, a[:, j].tolist(), 'expected', exp.tolist())\n"
    )
    if na == "drop":
        src += (
            "assert exc is None, repr(exc)\n"
            "R = N | S0\n"
            "rows_ok([i for i in range(n) if i not in R])\n"
            "if S is not None:\n"
            "    assert {int(i) for i in S} == R, ('caller set', S, 'expected', R)\n"
        )
    elif na == "raise":
        src += (
            "if N and not (S0 and N <= S0):\n"
            "    assert exc is not None, 'no error although an evaluated factor has a null'\n"
            "elif not N:\n"
            "    assert exc is None, repr(exc)\n"
            "    rows_ok([i for i in range(n) if i not in S0])\n"
            "elif exc is None:\n"
            "    rows_ok([i for i in range(n) if i not in S0])\n"
        )
    else:
        src += (
            "assert exc is None, repr(exc)\n"
            "if not S0 or {m.shape[0] for m in leaves(res)} == {n}:\n"
            "    rows_ok(list(range(n)))\n"
            "else:\n"
            "    rows_ok([i for i in range(n) if i not in S0])\n"
        )
    return src


# --------------------------------------------------------------------------- workers


def _describe(case):
    n, masks, ik, td, fname, na, (skind, extra), entry, out = case
    return {
        "rows": n, "null_masks(x,A,y)": [bin(m) for m in masks[:3]], "index": ik, "text_dtype": td,
        "context_column_c": None if len(masks) < 4 else {"container": masks[3][0], "null_mask": bin(masks[3][1])},
        "formula": FORMULAS[fname][0], "na_action": na, "caller_drop_set": skind if skind != "rand" else sorted(extra),
        "entry": entry, "output": out,
    }


def _fallback_clause(case):
    na = case[5] if len(case) > 5 else "drop"
    return {"drop": "C06.drop.rows-by-position", "raise": "C06.raise.iff", "ignore": "C06.ignore.all-rows"}.get(na, "C06.drop.rows-by-position")


def _worker(cases):
    """Every case is guarded: whatever the (possibly changed) library returns or raises inside set-up helpers,
    the oracle, the attribution re-runs or the witness construction becomes a failure record of that case."""
    n_eval, keys, samples, failures = 0, set(), [], []
    skips = {}
    seen_cls = {}
    for case in cases:
        n_eval += 1
        try:
            nontrivial, fails, skipped = run_one(case)
        except Exception as e:
            failures.append(K.oracle_failure(e, _fallback_clause(case), repr(case)[:600]))
            continue
        if skipped:
            skips.setdefault(skipped, [0, repr(case)[:600]])[0] += 1
            continue
        if nontrivial:
            keys.add(K.khash(case))
        try:
            if len(samples) < 2 and nontrivial:
                samples.append(_describe(case))
            for clause, symptom, detail in fails:
                try:
                    cls = classify(case, clause, symptom)
                except Exception as e:
                    cls = f"unclassified({type(e).__name__} during attribution) | " + symptom
                seen_cls[(clause, cls)] = seen_cls.get((clause, cls), 0) + 1
                w = {"case": _describe(case)}
                if seen_cls[(clause, cls)] <= K.MAX_REPORTED_PER_CLASS:
                    try:
                        w["code"] = repro(case, clause)
                    except Exception as e:
                        w["code_unavailable"] = f"{type(e).__name__}: {e}"
                failures.append({"clause": clause, "cls": cls, "witness": w, "detail": detail})
        except Exception as e:
            failures.append(K.oracle_failure(e, _fallback_clause(case), repr(case)[:600]))
    if skips:
        failures.append({"skipped": sum(v[0] for v in skips.values()), "reasons": skips})
    return n_eval, keys, samples, failures


def _merge(ctx, b, rep, results):
    skipped, reasons, total = 0, {}, 0
    for n_eval, keys, samples, failures in results:
        b.add_counts(n_eval, keys, samples)
        total += n_eval
        for f in failures:
            if "skipped" in f:
                skipped += f["skipped"]
                for why, (cnt, first) in f.get("reasons", {}).items():
                    r = reasons.setdefault(why, [0, first])
                    r[0] += cnt
        rep.absorb([f for f in failures if "skipped" not in f])
    base_fail = {k: v for k, v in reasons.items() if k.startswith("baseline-fails")}
    n_base = sum(v[0] for v in base_fail.values())
    if total and n_base > 0.25 * total:
        # The skip rule is meant for the odd unsupported configuration.  When a large share of the null-free,
        # default-policy, no-caller-set builds fail, the builds themselves are broken: report, do not skip.
        why, (cnt, first) = max(base_fail.items(), key=lambda kv: kv[1][0])
        rep.fail("C06.drop.completes", "null-free-baseline-" + why.replace("baseline-fails:", "raises:"),
                 {"case": first, "skipped_evaluations": n_base, "of": total},
                 f"{n_base} of {total} evaluations had to be skipped because the same call fails even on the null-free frame "
                 f"with the default policy and no caller set (most frequent: {why}, first case {first})")
    rep.note()
    if skipped:
        ctx.notes.append(f"bounded:{b.name}: {skipped} evaluations skipped because the same call fails on the null-free "
                         "frame without a caller set (configuration unsupported for reasons outside C06) or has no oracle: "
                         + ", ".join(f"{k} x{v[0]}" for k, v in sorted(reasons.items())))


# --------------------------------------------------------------------------- enumeration


def exhaustive_cases(max_rows, formulas):
    for n in range(1, max_rows + 1):
        for mx, mA, my in itertools.product(range(1 << n), repeat=3):
            for ik in K.INDEX_KINDS:
                for fname in formulas:
                    for na in NA_ACTIONS:
                        yield (n, (mx, mA, my), ik, "object", fname, na, ("empty", None), "model_matrix", "pandas")


def cross_cases(rng, reps, s_kinds):
    combos = list(itertools.product(CROSS_FORMULAS, ENTRIES, s_kinds, NA_ACTIONS))
    side = list(itertools.product(K.INDEX_KINDS, OUTPUTS, K.FRAME_DTYPES))
    for ci, (fname, entry, skind, na) in enumerate(combos):
        order = list(range(len(side)))
        rng.shuffle(order)
        for r in range(reps):
            ik, out, td = side[order[r % len(order)]]
            if na == "ignore":
                td = td.partition("/")[0]  # what pd.NA cells do to a matrix under 'ignore' is not specified
            n = 1 + (ci + r) % 6 if r >= 2 else rng.choice([3, 4])
            # null density: sparse nulls are the interesting regime (some rows survive)
            p = rng.choice([0.0, 0.15, 0.3, 0.5])
            masks = tuple(sum((rng.random() < p) << i for i in range(n)) for _ in range(3))
            if "ctx" in FORMULAS[fname][3]:
                # the context-supplied vector: container type rotates; frames of 4-6 rows so that several rows go
                n = 4 + (ci + r) % 3
                p = rng.choice([0.15, 0.3, 0.5])
                masks = tuple(sum((rng.random() < p) << i for i in range(n)) for _ in range(3))
                masks += ((CTX_KINDS[(ci + r) % len(CTX_KINDS)], sum((rng.random() < p) << i for i in range(n))),)
            extra = None
            if skind == "rand":
                extra = sorted(i for i in range(n) if rng.random() < 0.4)
            yield (n, masks, ik, td, fname, na, (skind, extra), entry, out)


def _run_bounded(ctx):
    rng = random.Random(ctx.seed * 7919 + 6)
    ctx.assume(
        "A-C06-evaluated-factor: 'evaluated factor is null at row i' is decided by evaluating the factor "
        "expression stand-alone on the whole frame (public transform functions, pandas.isna); for a re-used "
        "spec, center/scale are evaluated with the public transform function and the state it learns on the null-free frame",
        "A-C06-raise-caller-set: with na_action='raise' and all nulls inside the caller's drop set the guide and "
        "the statement disagree; either outcome is accepted",
        "A-C06-ignore-caller-set: with na_action='ignore' and a non-empty caller set the result must hold all "
        "rows (statement) or all rows outside the caller set (guide); the caller set is not examined",
        "A-C06-narwhals-index: index labels are only compared for the pandas materializer entry points "
        "(narwhals has no index concept)",
        "A-C06-nullable: pandas nullable extension dtypes (Int64 / Float64 with pd.NA) are enumerated for drop and raise only; what "
        "pd.NA cells do to a matrix under 'ignore' is not specified.  Cases whose factor expression cannot be evaluated stand-alone "
        "(e.g. center() of an Int64 column holding pd.NA) have no oracle and are skipped and counted",
        "A-C06-row-identity: numeric columns hold pairwise distinct values, so value equality of row-local "
        "columns (tolerance rtol=1e-9; values are copied or multiplied by 0/1 only) identifies input rows",
    )
    max_rows = 4 if ctx.thorough else 3
    ex_formulas = ["x+A+y", "y~x|A"] if ctx.thorough else ["x+A+y"]
    with ctx.bounded(
        "null-patterns",
        rule="every null pattern of the three columns x (float), A (text), y (float) for every row count "
        f"1..{max_rows} x 7 index kinds (default, string, non-unique string, non-unique int colliding with "
        "positions, permuted int, MultiIndex, non-unique MultiIndex) x na_action x formulas "
        f"{ex_formulas}; entry model_matrix with an (initially empty) caller set, pandas output; a case is "
        "distinct by its full description and non-trivial when at least one row has to go",
        exhaustive=True,
        bound=f"rows<={max_rows}, 3 columns, all 2^(3*rows) null patterns",
    ) as b:
        rep = K.Reporter(ctx, b, fallback_clause="C06.drop.rows-by-position")
        with K.guard(ctx, "C06.drop.rows-by-position", "null-patterns"):
            tasks = list(exhaustive_cases(max_rows, ex_formulas))
            _merge(ctx, b, rep, K.run_pool(_worker, tasks, chunk=400))

    reps = 40 if ctx.thorough else 3
    s_kinds = S_KINDS + (("rand",) if ctx.thorough else ())
    with ctx.bounded(
        "config-cross",
        rule=f"full product formula({len(CROSS_FORMULAS)}: one-/two-sided, with a context-supplied vector, multi-part, keyword, tuple, C(), hashed(), center/scale, "
        "lag, log) x entry point(9: model_matrix, Formula.get_model_matrix, ModelSpec(s).get_model_matrix with "
        "and without attribute overrides, re-used materialized spec with/without overrides, Pandas- and "
        "NarwhalsMaterializer) x caller set(None, empty, {0}, {last}, all"
        + (", random" if ctx.thorough else "")
        + f") x na_action(3), each with {reps} seeded draws of (rows 1..6, null pattern, index kind, output, text dtype object/category/str, container (list / tuple / ndarray / Series) and null pattern of a context-supplied vector, numeric dtype float64 or nullable "
        "Int64/Float64 holding pd.NA -- the latter not under 'ignore'); "
        "non-trivial when at least one row has to go",
        exhaustive=False,
        bound="rows<=6, 3 columns",
    ) as b:
        rep = K.Reporter(ctx, b, fallback_clause="C06.drop.rows-by-position")
        with K.guard(ctx, "C06.drop.rows-by-position", "config-cross"):
            tasks = list(cross_cases(rng, reps, s_kinds))
            _merge(ctx, b, rep, K.run_pool(_worker, tasks, chunk=300))
    if not ctx.explanation:
        ctx.explanation = (
            "bounded stand-in only (no deductive obligations registered in this run): runtime contracts taken from "
            "the C06 statement, evaluated on the real entry points over exhaustively enumerated null patterns and "
            "a seeded cross of formulas, entry points, caller sets, policies, indexes and outputs"
        )


def run_bounded(ctx):
    """Never raises because of what the library under test returns or raises: anything that slips past the
    per-case guards is recorded as a violation (class oracle-not-applicable:<Type>) and the run ends normally."""
    with K.guard(ctx, "C06.drop.rows-by-position", "c06.run_bounded"):
        _run_bounded(ctx)
