"""C04 bounded stand-in: a model spec replays the recorded encoding row by row on any data.

For formulas over the built-in stateful / stateless transforms (no `lag`) a matrix is built on
generated training data; its spec is then applied to follow-up frames made of training rows
(the original frame, sub-sets, duplications, permutations, frames lacking category levels,
single rows), singly and in sequences of 1-4 on the same spec object, through
`spec.get_model_matrix(new)`, `model_matrix(spec, new)` and a pickled-and-restored spec.

Oracle (statement only): same column names in the same order, and follow-up row i equals the
training-matrix row it was taken from.  Tolerance: |a-b| <= 1e-12*max(|a|,|b|) + 1e-12*max(1,
max|column|): element-wise transforms reproduce bit for bit, but contrasts and cubic splines go
through a matrix product (dummies @ coding matrix, basis @ null-space), for which BLAS may pick a
different summation order depending on the number of rows (ASSUME A-float)."""
from __future__ import annotations

import pickle
import random
import warnings
from collections import Counter

import numpy as np
import pandas as pd

from ._stateful_util import Reporter, WorkResult, chunked, code, guard, merge, pmap


import types
import formulaic.transforms as _ft
from formulaic.transforms.patsy_compat import standardize as _standardize
_tf = types.SimpleNamespace(center=_ft.center, scale=_ft.scale, poly=_ft.poly, bs=_ft.basis_spline,
                            basis_spline=_ft.basis_spline, cr=_ft.natural_cubic_spline, cs=_ft.natural_cubic_spline,
                            cc=_ft.cyclic_cubic_spline, standardize=_standardize)
# the library's transforms reachable through attribute paths: a plain namespace, a nested one, the module itself
CTX = {"tf": _tf, "ns": types.SimpleNamespace(inner=_tf), "ft": _ft}


def respell(template, prefix):
    """the same template with every stateful transform reached through an attribute path of the context"""
    import re

    names = {"center": "center", "scale": "scale", "poly": "poly", "bs": "bs", "cr": "cr", "cs": "cs", "cc": "cc",
             "standardize": "standardize"}
    if prefix == "ft.":  # the module has no short aliases
        names = {"center": "center", "scale": "scale", "poly": "poly", "bs": "basis_spline", "cr": "natural_cubic_spline",
                 "cs": "natural_cubic_spline", "cc": "cyclic_cubic_spline"}
    return re.sub(r"(?<![A-Za-z0-9_.])(" + "|".join(names) + r")\(", lambda m: prefix + names[m.group(1)] + "(", template)


# ------------------------------------------------------------------------------------------
# formula templates (columns: x, w real; z positive; a object{p,q,r}; g category{u,v}; k category{1,2,3})
# ------------------------------------------------------------------------------------------
STATELESS = ["x", "log(z)", "exp(x)", "I(x**2)", "{x**2}", "np.sqrt(z)", "log10(z) + log2(z)", "exp2(w)", "Q('x')"]
SCALING = ["scale(x)", "center(x)", "scale(x, ddof=0)", "scale(x, center=False)", "scale(center(x))",
           "center(scale(x))", "standardize(z)"]
POLY = ["poly(x, 2)", "poly(x, degree=3)", "poly(x, 2, raw=True)", "scale(poly(x, 2))"]
BS = ["bs(x, df=4)", "bs(x, df=5, degree=2, include_intercept=True)", "bs(x, knots=[-1.0, 0.5], degree=3)",
      "bs(x, df=4, extrapolation='clip')", "bs(scale(x), df=4)", "bs(x, df=3, degree=1, lower_bound=-4, upper_bound=4)",
      "bs(x, df=2, degree=0, include_intercept=True)"]
CUBIC = ["cr(x, df=4)", "cs(x, df=3)", "cc(x, df=4)", "cr(x, df=4, constraints='center')",
         "cc(x, df=3, constraints='center')", "cr(x, knots=[-1.0, 0.0, 1.0])", "cr(center(x), df=4)"]
CATEG = ["a", "g", "k", "C(a)", "C(a, contr.sum)", "C(a, contr.helmert)", "C(a, contr.poly)",
         "C(a, contr.treatment('q'))", "C(a, contr.treatment(base='q'))", "C(a, contr.diff)", "C(a, contr.SAS)", "C(k)",
         "C(a, levels=['r', 'q', 'p'])", "C(x > 0)", "C(a, contr.custom({'c1': [1, -1, 0]}))", "hashed(a, levels=5)",
         "C(a, Treatment('r'))", "C(a, Sum)", "C(a, contr.sum, spans_intercept=False)", "C(a, contr.helmert(scale=True))",
         "C(g, contr.sum)"]
INTERACT = ["a:x", "a:scale(x)", "a:bs(x, df=3)", "a:g", "C(a, contr.sum):poly(x, 2)", "a*x", "(a + g):x",
            "scale(x):center(z)", "bs(x, df=3):a - 1", "a:g:x", "g:cr(x, df=3)", "k:scale(z)", "a + g + a:g",
            "a*g*scale(x)", "C(a, contr.helmert):C(g, contr.sum)", "poly(x, 2):poly(w, 2)", "a:cc(x, df=3) - 1",
            "scale(x):scale(x, ddof=0)"]
QUOTED_AND_SHARED = ['bs(x, df=4, extrapolation="clip")', 'C(a, contr.treatment("q"))', 'cr(x, df=4, constraints="center")',
                     "scale(x) + scale(x):a", "scale(x) + scale(x, ddof=0) + center(x)", "center(bs(x, df=3))",
                     "scale(cr(x, df=3))", "bs(x, df=3) + bs(w, df=3) + bs(x, df=4)", "C(a) + C(a, contr.sum):x",
                     "poly(x, 2) + poly(x, 3)", "a + C(a, contr.helmert):g",
                     # stateful transforms over multi-column (2-D / dict-valued) inner results
                     "scale(poly(x, 2, raw=True))", "standardize(bs(x, df=4))", "center(cc(x, df=3)):a",
                     "scale(poly(x, 3), ddof=0) + center(cr(w, df=3))"]
# numeric-literal multipliers: the scale of a term is part of the recorded structure
LITERAL_SCALE = ["3:x", "a:2", "0.5:scale(x):a", "2:bs(x, df=3) - 1", "x + 2:z", "2.5:a - 1", "x:3:z", "0.5:a:x + a",
                 "10:center(x)", "3:a:C(g, contr.sum)", "2:poly(x, 2) + 0.25:C(a, contr.helmert)", "4:cr(x, df=3):g",
                 "2:x + 3:x:w", "1.5:k:scale(z) - 1"]
# splines with explicit bounds NARROWER than the training data and every extrapolation mode: the training rows
# themselves are clipped / masked / extended, and the replay must treat them the same way ('na' rows are dropped)
BOUNDED_EXTRAPOLATION = [
    "bs(x, df=4, lower_bound=-1.5, upper_bound=1.5, extrapolation='clip')",
    "bs(x, df=4, lower_bound=-1.5, upper_bound=1.5, extrapolation='na')",
    "bs(x, df=4, lower_bound=-1.5, upper_bound=1.5, extrapolation='zero')",
    "bs(x, df=4, lower_bound=-1.5, upper_bound=1.5, extrapolation='extend')",
    "bs(x, knots=[-0.5, 0.5], degree=2, lower_bound=-1, upper_bound=2, extrapolation='na'):a",
    "bs(x, df=3, degree=1, lower_bound=-1, upper_bound=1, extrapolation='clip'):g - 1",
    "cr(x, df=3, lower_bound=-1.5, upper_bound=1.5, extrapolation='clip')",
    "cr(x, df=3, lower_bound=-1.5, upper_bound=1.5, extrapolation='na')",
    "cr(x, df=4, lower_bound=-1.5, upper_bound=1.5, extrapolation='zero', constraints='center')",
    "cs(x, df=3, lower_bound=-1.5, upper_bound=1.5, extrapolation='extend')",
    "cc(x, df=3, lower_bound=-1.5, upper_bound=1.5, extrapolation='clip')",
    "cc(x, df=4, lower_bound=-2, upper_bound=1, extrapolation='na') + a",
    "cc(x, df=3, lower_bound=-1.5, upper_bound=1.5, extrapolation='zero')",
    "bs(x, df=3, lower_bound=-1.5, upper_bound=1.5, extrapolation='clip') + cr(w, df=3, lower_bound=-0.5, upper_bound=0.5, extrapolation='na')",
]
# the spelling of the callable as a dimension: a sample of the templates above with the transforms reached through
# `tf.<name>`, `ns.inner.<name>` and the module `ft.<name>` (all supplied through the context)
_SAMPLE = (SCALING[:6] + POLY + BS[:5] + CUBIC[:5] + ["a:scale(x)", "a:bs(x, df=3)", "scale(x):center(z)", "g:cr(x, df=3)",
                                                   "scale(x) + scale(x):a", "center(bs(x, df=3))", "scale(cr(x, df=3))",
                                                   "poly(x, 2) + poly(x, 3)"] + BOUNDED_EXTRAPOLATION[:2] + BOUNDED_EXTRAPOLATION[6:8])
NAMESPACED = [respell(t, ("tf.", "ns.inner.", "ft.")[i % 3]) for i, t in enumerate(_SAMPLE)] + \
             ["tf.scale(x) + scale(x) + ns.inner.scale(x)", "ft.center(tf.bs(x, df=3)) + center(z)"]
TWO_SIDED = ["z ~ a + scale(x)", "center(z) ~ bs(x, df=3) + g", "scale(w) + center(z) ~ C(a, contr.sum):x"]
FAMILIES = {"stateless": STATELESS, "scaling": SCALING, "poly": POLY, "bs": BS, "cubic": CUBIC, "categorical": CATEG,
            "interaction": INTERACT, "quoted-or-shared-state": QUOTED_AND_SHARED, "literal-scale": LITERAL_SCALE, "bounded-extrapolation": BOUNDED_EXTRAPOLATION, "namespaced-callable": NAMESPACED, "two-sided": TWO_SIDED}
SINGLE_TERMS = STATELESS + SCALING + POLY + BS + CUBIC + CATEG + BOUNDED_EXTRAPOLATION[:4] + BOUNDED_EXTRAPOLATION[6:10]  # building blocks of the random sums


def family_of(formula):
    for name, lst in FAMILIES.items():
        if formula in lst:
            return name
    return "sum"


# ------------------------------------------------------------------------------------------
def make_train(rng, n, storage_variant=0):
    """columns as (values, dtype) pairs, so that witnesses can rebuild the frame literally"""
    def lv(levels):
        v = (levels * (n // len(levels) + 1))[:n]
        rng.shuffle(v)
        return v

    def shuffled(v):
        rng.shuffle(v)
        return v

    a_dtype, g_dtype = [("object", "category"), ("category", "object"), ("object", "category")][storage_variant % 3]
    return {
        # at least six x in [-1, 1], one below -1.6 and one above 1.6, five w in [-0.4, 0.4]: every template with explicit
        # knots or bounds has the data it needs
        "x": (shuffled([rng.uniform(-1, 1) for _ in range(6)] + [rng.uniform(-3, -1.6), rng.uniform(1.6, 3)]
                       + [rng.uniform(-3, 3) for _ in range(n - 8)]), "float64"),
        "w": (shuffled([rng.uniform(-0.4, 0.4) for _ in range(5)] + [rng.gauss(0, 1) for _ in range(n - 5)]), "float64"),
        "z": ([10 ** rng.uniform(-2, 2) for _ in range(n)], "float64"),
        "a": (lv(["p", "q", "r"]), a_dtype),
        "g": (lv(["u", "v"]), g_dtype),
        "k": (lv([1, 2, 3]), "category"),
    }


def frame(cols, idx=None, keep_index=False, prune=False):
    out = {}
    for name, (values, dtype) in cols.items():
        out[name] = pd.Categorical(values) if dtype == "category" else pd.Series(values, dtype=dtype)
    df = pd.DataFrame(out)
    if idx is not None:
        df = df.iloc[list(idx)]
        if not keep_index:
            df = df.reset_index(drop=True)
        if prune:  # categorical columns really lack the levels that are absent (not merely unused categories)
            for name, (values, dtype) in cols.items():
                if dtype == "category":
                    df[name] = df[name].cat.remove_unused_categories()
    return df


def followups(rng, cols):
    """list of (kind, idx, keep_index, prune)"""
    n = len(cols["x"][0])
    a, g = cols["a"][0], cols["g"][0]
    out = [("original", list(range(n)), False, False)]
    k = rng.randint(2, n - 1)
    out.append(("subset", sorted(rng.sample(range(n), k)), False, False))
    out.append(("duplication", sorted(rng.choice(range(n)) for _ in range(n + 3)), False, False))
    perm = list(range(n))
    rng.shuffle(perm)
    out.append(("permutation", perm, False, False))
    out.append(("subset-shuffled-dup", [rng.randrange(n) for _ in range(rng.randint(1, n))], False, False))
    out.append(("single-row", [rng.randrange(n)], False, False))
    lost = rng.choice(["p", "q", "r"])
    out.append((f"lacking-a={lost}", [i for i in range(n) if a[i] != lost], False, True))
    one = rng.choice(["p", "q", "r"])
    keep_g = rng.choice(["u", "v"])
    idx = [i for i in range(n) if a[i] == one and g[i] == keep_g] or [i for i in range(n) if a[i] == one]
    out.append((f"only-a={one},g={keep_g}", idx, False, True))
    out.append(("subset-unpruned-categories", [i for i in range(n) if g[i] != "u"], False, False))
    out.append(("subset-kept-index", sorted(rng.sample(range(n), max(2, n // 2))), True, False))
    return out


WITNESS = """
import pickle, warnings
import numpy as np, pandas as pd
from formulaic import model_matrix

import types
import formulaic.transforms as _ft
from formulaic.transforms.patsy_compat import standardize as _standardize
_tf = types.SimpleNamespace(center=_ft.center, scale=_ft.scale, poly=_ft.poly, bs=_ft.basis_spline,
                            basis_spline=_ft.basis_spline, cr=_ft.natural_cubic_spline, cs=_ft.natural_cubic_spline,
                            cc=_ft.cyclic_cubic_spline, standardize=_standardize)
# the library's transforms reachable through attribute paths: a plain namespace, a nested one, the module itself
CTX = {{"tf": _tf, "ns": types.SimpleNamespace(inner=_tf), "ft": _ft}}

def frame(cols, idx=None, keep_index=False, prune=False):
    out = {{}}
    for name, (values, dtype) in cols.items():
        out[name] = pd.Categorical(values) if dtype == "category" else pd.Series(values, dtype=dtype)
    df = pd.DataFrame(out)
    if idx is not None:
        df = df.iloc[list(idx)]
        if not keep_index:
            df = df.reset_index(drop=True)
        if prune:
            for name, (values, dtype) in cols.items():
                if dtype == "category":
                    df[name] = df[name].cat.remove_unused_categories()
    return df

def parts(m):
    return [m] if hasattr(m, "shape") else [p for p in (getattr(m, "lhs", None), getattr(m, "rhs", None)) if p is not None]

def dense(m):
    return np.asarray(m.todense() if hasattr(m, "todense") else m, dtype=float)

def same_rows(T, N):
    scale = np.maximum(1.0, np.abs(T).max(axis=0)) if T.size else 1.0
    return T.shape == N.shape and bool((np.abs(T - N) <= 1e-12 * np.maximum(np.abs(T), np.abs(N)) + 1e-12 * scale).all())

warnings.simplefilter("ignore")
cols = {cols!r}
train = frame(cols)
mm = model_matrix({formula!r}, train, output={output!r}, context=CTX)
spec = mm.model_spec
names = [list(p.model_spec.column_names) for p in parts(mm)]
T = [dense(p) for p in parts(mm)]
# training rows that the missing-data policy kept (e.g. extrapolation='na' turns out-of-bounds rows into nulls)
pos = {{p: i for i, p in enumerate(parts(model_matrix({formula!r}, train, output="pandas", context=CTX))[0].index)}}
if {pickled!r}:
    spec = pickle.loads(pickle.dumps(spec))
history = {history!r}          # follow-ups applied one after the other on the same spec object
for step, (kind, idx, keep_index, prune) in enumerate(history):
    new = frame(cols, idx, keep_index, prune)
    m2 = (model_matrix(spec, new, context=CTX) if {via!r} == "model_matrix" else
          model_matrix(mm, new, context=CTX) if {via!r} == "model_matrix(mm)" else spec.get_model_matrix(new, context=CTX))
    if step != len(history) - 1:
        continue               # only the last follow-up of the history is asserted here
    got_names = [list(p.model_spec.column_names) for p in parts(m2)]
    if {clause!r} == "C04.replay.columns":
        assert got_names == names, (got_names, names)
        if {output!r} == "pandas":
            assert [list(p.columns) for p in parts(m2)] == names
    else:
        assert got_names == names, "columns differ"
        sel = [pos[p] for p in idx if p in pos]      # a training row that was dropped must be dropped again
        for t, p in zip(T, parts(m2)):
            assert same_rows(t[sel], dense(p)), (kind, np.abs(t[sel] - dense(p)).max() if t[sel].shape == dense(p).shape else ("shape", t[sel].shape, dense(p).shape))
"""


WITNESS_FRESH = """
import pickle, warnings
import numpy as np, pandas as pd
from formulaic import model_matrix

import types
import formulaic.transforms as _ft
from formulaic.transforms.patsy_compat import standardize as _standardize
_tf = types.SimpleNamespace(center=_ft.center, scale=_ft.scale, poly=_ft.poly, bs=_ft.basis_spline,
                            basis_spline=_ft.basis_spline, cr=_ft.natural_cubic_spline, cs=_ft.natural_cubic_spline,
                            cc=_ft.cyclic_cubic_spline, standardize=_standardize)
# the library's transforms reachable through attribute paths: a plain namespace, a nested one, the module itself
CTX = {{"tf": _tf, "ns": types.SimpleNamespace(inner=_tf), "ft": _ft}}

def frame(cols, idx=None):
    out = {{}}
    for name, (values, dtype) in cols.items():
        out[name] = pd.Categorical(values) if dtype == "category" else pd.Series(values, dtype=dtype)
    df = pd.DataFrame(out)
    return df if idx is None else df.iloc[list(idx)].reset_index(drop=True)

def parts(m):
    return [m] if hasattr(m, "shape") else [p for p in (getattr(m, "lhs", None), getattr(m, "rhs", None)) if p is not None]

def dense(m):
    return np.asarray(m.todense() if hasattr(m, "todense") else m, dtype=float)

def same_rows(T, N):
    scale = np.maximum(1.0, np.abs(T).max(axis=0)) if T.size else 1.0
    return T.shape == N.shape and bool((np.abs(T - N) <= 1e-12 * np.maximum(np.abs(T), np.abs(N)) + 1e-12 * scale).all())

warnings.simplefilter("ignore")
cols, fresh = {cols!r}, {fresh!r}
mm = model_matrix({formula!r}, frame(cols), output={output!r}, context=CTX)
spec = pickle.loads(pickle.dumps(mm.model_spec)) if {pickled!r} else mm.model_spec
names = [list(p.model_spec.column_names) for p in parts(mm)]
full = spec.get_model_matrix(frame(fresh), context=CTX)       # new rows from the training domain, all at once
assert [list(p.model_spec.column_names) for p in parts(full)] == names, "columns differ on new data"
posf = {{p: i for i, p in enumerate(parts(spec.get_model_matrix(frame(fresh), context=CTX, output="pandas"))[0].index)}}  # rows kept
idx = {idx!r}
part = spec.get_model_matrix(frame(fresh, idx), context=CTX)  # a selection of those rows: each row must come out the same
sel = [posf[p] for p in idx if p in posf]
for f, p in zip(parts(full), parts(part)):
    assert same_rows(dense(f)[sel], dense(p)), ("rows of the selection differ from the rows of the whole frame", dense(f)[sel].shape, dense(p).shape)
"""


def make_fresh(rng, cols, m):
    """m new rows from the training domain: numeric values inside the training range, levels seen at fit"""
    out = {}
    for name, (values, dtype) in cols.items():
        if dtype == "float64":
            lo, hi = min(values), max(values)
            out[name] = ([rng.uniform(lo, hi) for _ in range(m)], dtype)
        else:
            lv = sorted(set(values))
            out[name] = ([rng.choice(lv) for _ in range(m)], dtype)
    return out


def _parts(m):
    return [m] if hasattr(m, "shape") else [p for p in (getattr(m, "lhs", None), getattr(m, "rhs", None)) if p is not None]


def _dense(m):
    return np.asarray(m.todense() if hasattr(m, "todense") else m, dtype=float)


def _same_rows(T, N):
    if T.shape != N.shape:
        return False
    if not T.size:
        return True
    scale = np.maximum(1.0, np.abs(T).max(axis=0))
    return bool((np.abs(T - N) <= 1e-12 * np.maximum(np.abs(T), np.abs(N)) + 1e-12 * scale).all())


def _worker(jobs):
    from formulaic import model_matrix

    res = WorkResult()
    for job in jobs:
        formula, cols, output, seed = job["formula"], job["cols"], job["output"], job["seed"]
        rng = random.Random(seed)
        fam = job["family"]
        train = frame(cols)
        with warnings.catch_warnings():
            warnings.simplefilter("ignore")
            try:
                mm = model_matrix(formula, train, output=output, context=CTX)
            except Exception as e:  # noqa: BLE001
                if fam != "sum":
                    # every fixed template fits on the training frames of this driver: a failure to build the original
                    # matrix is a failure of the original/replay clause for that template, not a crash and not a skip
                    res.case(("fit", formula, output, seed), True)
                    res.fail("C04.replay.original", f"fit-raises-{type(e).__name__}:{fam}",
                             {"formula": formula, "output": output, "cols": cols,
                              "code": code(WITNESS.format(cols=cols, formula=formula, output=output, pickled=False,
                                                          history=[("original", list(range(len(cols["x"][0]))), False, False)],
                                                          via="spec.get_model_matrix", clause="C04.replay.original"))},
                             f"building the matrix for {formula!r} raised {type(e).__name__}: {e}"[:800])
                    continue
                # random sums may be legitimately refused (duplicate term with another scaling, knots outside the data)
                res.case(("train-failed", formula, output), nontrivial=False)
                res.stats[("train-failed", f"{formula} [{type(e).__name__}]")] += 1
                continue
            names = [list(p.model_spec.column_names) for p in _parts(mm)]
            T = [_dense(p) for p in _parts(mm)]
            if any(not np.isfinite(t).all() for t in T):
                res.stats[("train-nonfinite", formula)] += 1
            n_train = len(cols["x"][0])
            pos = {p: p for p in range(n_train)}
            if any(t.shape[0] != n_train for t in T):
                # the missing-data policy dropped training rows (e.g. extrapolation='na'): a follow-up row taken from a
                # dropped training row must be dropped again, all others must equal their training row
                try:
                    kept = list(_parts(model_matrix(formula, train, output="pandas", context=CTX))[0].index)
                    pos = {p: i for i, p in enumerate(kept)}
                except Exception:  # noqa: BLE001
                    res.stats[("train-failed", f"{formula} [kept-rows]")] += 1
                    continue
                res.stats[("train-dropped-rows", formula)] += 1
            fus = followups(rng, cols)
            # histories: every follow-up alone on a fresh route, then sequences of 2-4 on the same spec object
            histories = [[fu] for fu in fus]
            for _ in range(job["n_histories"]):
                h = [rng.choice(fus) for _ in range(rng.randint(2, 4))]
                histories.append(h)
            histories.append([rng.choice(fus), fus[0]])  # ... and the original frame again at the end
            for hi, history in enumerate(histories):
                for via, pickled in (("spec.get_model_matrix", False), ("model_matrix", False),
                                     ("spec.get_model_matrix", True), ("model_matrix(mm)", False)):
                    if via.startswith("model_matrix") and (len(history) > 1 or (hi % 3 != job["route_phase"] and not job["all_routes"])):
                        continue  # the two model_matrix(...) entry points: single follow-ups; quick tier: every third one
                    spec = mm.model_spec
                    try:
                        if pickled:
                            spec = pickle.loads(pickle.dumps(spec))
                    except Exception as e:  # noqa: BLE001
                        key = ("pickle", formula, output)
                        res.case(key, True)
                        res.fail("C04.pickle.roundtrip", f"raises-{type(e).__name__}:{fam}",
                                 {"formula": formula, "output": output, "cols": cols,
                                  "code": code(WITNESS.format(cols=cols, formula=formula, output=output, pickled=True,
                                                              history=[history[0]], via=via, clause="C04.replay.rows"))},
                                 f"{type(e).__name__}: {e}")
                        continue
                    route = ("pickled:" if pickled else "") + via
                    for step, (kind, idx, keep_index, prune) in enumerate(history):
                        new = frame(cols, idx, keep_index, prune)
                        kind_cls = ("lacking-levels" if kind.startswith(("lacking", "only-a")) else
                                    "kept-index" if keep_index else "original" if kind == "original" else "rows")
                        rows_clause = "C04.replay.original" if kind == "original" else "C04.replay.rows"
                        route_cls = "pickled" if pickled else "direct"
                        key = (formula, output, seed, route, tuple((h[0], tuple(h[1])) for h in history[: step + 1]))
                        res.case(key, True, {"formula": formula, "output": output, "route": route,
                                             "history": [h[0] for h in history[: step + 1]], "rows": len(idx)})

                        def wit(clause):
                            return {"formula": formula, "output": output, "route": route,
                                    "history": [h[0] for h in history[: step + 1]], "cols": cols,
                                    "code": code(WITNESS.format(cols=cols, formula=formula, output=output, pickled=pickled,
                                                                history=history[: step + 1], via=via, clause=clause))}

                        try:
                            m2 = (model_matrix(spec, new, context=CTX) if via == "model_matrix"
                                  else model_matrix(mm, new, context=CTX) if via == "model_matrix(mm)"
                                  else spec.get_model_matrix(new, context=CTX))
                        except Exception as e:  # noqa: BLE001 - outcome to be judged: replay on training rows may not fail
                            res.fail(rows_clause, f"raises-{type(e).__name__}:{kind_cls}:{fam}:{route_cls}", wit(rows_clause),
                                     f"{kind} via {route}: {type(e).__name__}: {e}"[:800])
                            break
                        got = [list(p.model_spec.column_names) for p in _parts(m2)]
                        ok_cols = got == names
                        if ok_cols and output == "pandas":
                            ok_cols = [list(p.columns) for p in _parts(m2)] == names
                        if not ok_cols:
                            res.fail("C04.replay.columns", f"{kind_cls}:{fam}:{route_cls}", wit("C04.replay.columns"),
                                     f"{kind} via {route}: columns {got}, training columns {names}"[:800])
                            continue
                        bad = None
                        src = [p for p in idx if p in pos]
                        sel = [pos[p] for p in src]
                        for t, p in zip(T, _parts(m2)):
                            d = _dense(p)
                            if not _same_rows(t[sel], d):
                                bad = (t[sel], d)
                                break
                        if bad is not None:
                            t, d = bad
                            if t.shape == d.shape:
                                r, c_ = np.unravel_index(np.nanargmax(np.abs(t - d)), t.shape)
                                detail = (f"{kind} via {route}: follow-up row {r} (training row {src[r]}), column "
                                          f"{names[0][c_] if len(names) == 1 else c_}: {d[r, c_]!r} != {t[r, c_]!r}")
                            else:
                                detail = f"{kind} via {route}: shape {d.shape}, expected {t.shape}"
                            res.fail(rows_clause, f"{kind_cls}:{fam}:{route_cls}", wit(rows_clause),
                                     detail + ("" if step == 0 else f" [after follow-ups {[h[0] for h in history[:step]]}]"))
            # ---- new rows from the training domain: each output row depends only on its own input row
            fresh = make_fresh(rng, cols, rng.randint(5, 15))
            m = len(fresh["x"][0])
            for pickled in (False, True):
                spec = pickle.loads(pickle.dumps(mm.model_spec)) if pickled else mm.model_spec
                selections = [sorted(rng.sample(range(m), rng.randint(1, m - 1))), [rng.randrange(m) for _ in range(m + 2)],
                              [rng.randrange(m)]]
                try:
                    full = spec.get_model_matrix(frame(fresh), context=CTX)
                except Exception as e:  # noqa: BLE001
                    res.case(("fresh", formula, output, seed, pickled), True)
                    res.fail("C04.replay.row-local", f"raises-{type(e).__name__}:{fam}",
                             {"formula": formula, "output": output, "cols": cols, "fresh": fresh,
                              "code": code(WITNESS_FRESH.format(cols=cols, fresh=fresh, formula=formula, output=output,
                                                                pickled=pickled, idx=selections[0]))},
                             f"new rows from the training domain: {type(e).__name__}: {e}"[:800])
                    continue
                F = [_dense(p) for p in _parts(full)]
                posf = {p: p for p in range(m)}
                if any(f.shape[0] != m for f in F):
                    try:
                        posf = {p: i for i, p in enumerate(_parts(spec.get_model_matrix(frame(fresh), context=CTX, output="pandas"))[0].index)}
                    except Exception:  # noqa: BLE001
                        res.stats[("fresh-kept-rows-unavailable", formula)] += 1
                        continue
                for sel in selections:
                    res.case(("fresh", formula, output, seed, pickled, tuple(sel)), True,
                             {"formula": formula, "output": output, "new_rows": m, "selection": sel[:6]})
                    w = {"formula": formula, "output": output, "cols": cols, "fresh": fresh, "selection": sel,
                         "code": code(WITNESS_FRESH.format(cols=cols, fresh=fresh, formula=formula, output=output,
                                                           pickled=pickled, idx=sel))}
                    try:
                        part = spec.get_model_matrix(frame(fresh, sel), context=CTX)
                    except Exception as e:  # noqa: BLE001
                        res.fail("C04.replay.row-local", f"raises-{type(e).__name__}:{fam}", w,
                                 f"selection {sel} of new rows: {type(e).__name__}: {e}"[:800])
                        continue
                    got = [list(p.model_spec.column_names) for p in _parts(part)]
                    if got != names or [list(p.model_spec.column_names) for p in _parts(full)] != names:
                        res.fail("C04.replay.columns", f"new-rows:{fam}:{'pickled' if pickled else 'direct'}", w,
                                 f"columns on new rows {got}, training columns {names}"[:800])
                    elif not all(_same_rows(f[[posf[p] for p in sel if p in posf]], _dense(p)) for f, p in zip(F, _parts(part))):
                        res.fail("C04.replay.row-local", f"{fam}:{'pickled' if pickled else 'direct'}", w,
                                 f"rows {sel} of the new frame come out differently when materialized on their own")
    return res.pack()


def _jobs(rng, thorough):
    jobs = []
    outputs = ["pandas", "numpy", "sparse"]
    n_trains = 3 if thorough else 1
    # every template on its own (exhaustive over the template list x outputs)
    for fam, lst in FAMILIES.items():
        for formula in lst:
            for t in range(n_trains):
                cols = make_train(random.Random(rng.random()), rng.choice([9, 12, 20, 33]), storage_variant=t)
                # quick tier: the families whose sparse / numpy encoders differ get all outputs, the others pandas + one more
                outs = outputs if (thorough or fam in ("categorical", "interaction", "literal-scale", "two-sided")) \
                    else ["pandas", outputs[1 + len(jobs) % 2]]
                for output in outs:
                    jobs.append({"formula": formula, "cols": cols, "output": output, "seed": rng.randrange(10**9),
                                 "family": fam, "n_histories": 4 if thorough else 1, "all_routes": thorough,
                                 "route_phase": len(jobs) % 3})
    # random sums of 2-3 templates, with / without intercept
    for i in range(600 if thorough else 40):
        terms = rng.sample(SINGLE_TERMS + INTERACT, rng.randint(2, 3))
        terms = [t.replace(" - 1", "") for t in terms]
        # any term may carry a numeric-literal multiplier
        terms = [respell(t, rng.choice(["tf.", "ns.inner.", "ft."])) if rng.random() < 0.2 and "standardize" not in t else t
                 for t in terms]
        terms = [(rng.choice(["2", "3", "0.5", "2.5", "10"]) + ":" + t) if rng.random() < 0.3 and not t.startswith("(") else t
                 for t in terms]
        formula = " + ".join(terms) + rng.choice(["", "", " - 1", " + 0"])
        cols = make_train(random.Random(rng.random()), rng.choice([10, 16, 25, 40]), storage_variant=i)
        jobs.append({"formula": formula, "cols": cols, "output": rng.choice(outputs), "seed": rng.randrange(10**9),
                     "family": "sum", "n_histories": 3 if thorough else 2, "all_routes": thorough,
                     "route_phase": i % 3})
    return jobs


def run_bounded(ctx):
    rng = random.Random(ctx.seed * 1000003 + 4)
    if not ctx.explanation:
        ctx.explanation = ("bounded stand-in: specs of formulas over the built-in transforms are replayed on sub-sets, "
                           "duplications, permutations and level-lacking frames of the training rows (also pickled, "
                           "also in sequences); every follow-up row must equal its training row")
    ctx.assume(
        "A-float(C04): rows compared with |a-b| <= 1e-12*max(|a|,|b|) + 1e-12*max(1, max|column|) (BLAS may reorder "
        "the dot products behind contrasts and cubic splines when the number of rows changes)",
        "A-domain(C04): follow-up frames consist of training rows (the 'training domain'), without nulls; categorical "
        "columns are stored as object or category",
        "A-lag(C04): `lag` is excluded by the statement",
    )
    n_templates = sum(len(v) for v in FAMILIES.values())
    with ctx.bounded(
        "spec-replay",
        rule="formula x training frame x output x history: follow-ups {original, subset, duplication, permutation, "
             "shuffled sample with repeats, single row, frame lacking one level of a (categories pruned), frame with one "
             "level of a and g, subset with unused categories, subset keeping the original index}, each alone via "
             "spec.get_model_matrix / model_matrix(spec, .) / model_matrix(matrix, .) / pickled spec, plus sequences of 2-4 follow-ups on one spec "
             "object and the original frame again afterwards; plus 5..15 new rows drawn from the training domain, "
             "materialized at once and as 3 selections (row-locality on unseen rows); distinct = (formula, output, training seed, route, history "
             "prefix with row indices); non-trivial iff the training materialization succeeded",
        bound=f"{n_templates} single templates x {3 if ctx.thorough else 1} training frame(s) x 3 outputs (quick: 2 for the "
              f"purely numeric families) + "
              f"{600 if ctx.thorough else 40} random sums of 2-3 templates; 9..40 rows",
    ) as b:
        rep = Reporter(ctx, b)
        jobs = _jobs(rng, ctx.thorough)
        stats = Counter()
        merge(b, rep, pmap(guard("vf.bounded.c04", "_worker", "C04.replay.rows"), chunked(jobs, 64)), stats)
        failed = sorted(k[1] for k in stats if k[0] == "train-failed")
        if failed:
            ctx.notes.append(f"bounded:spec-replay: formulas whose training materialization failed (not judged): {failed[:20]}"
                             + (f" ... {len(failed)} in total" if len(failed) > 20 else ""))
        dropped = sum(v for k, v in stats.items() if k[0] == "train-dropped-rows")
        if dropped:
            ctx.notes.append(f"bounded:spec-replay: {dropped} training matrices had rows dropped by the missing-data policy "
                             "(extrapolation='na'); follow-up rows taken from dropped training rows must be dropped again")
        nonfinite = sorted(k[1] for k in stats if k[0] == "train-nonfinite")
        if nonfinite:
            ctx.notes.append(f"bounded:spec-replay: training matrices with non-finite entries: {nonfinite[:10]}")
        rep.close()
