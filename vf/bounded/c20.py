"""C20 bounded stand-in: Formula.differentiate is the term-wise partial derivative.

Driver 1 (symbolic, independent spec on factor sets): for a term with factor-name set S and a tuple of
variables (v1..vk): walk the tuple; if v_i is not in the current set the derivative is the literal 0,
otherwise remove it; if nothing remains the derivative is the literal 1, else the product of the rest.
The result must have the same number of terms in the same order.

Driver 2 (numeric): formulas multilinear in numeric columns with exactly representable data; each
non-zero derivative term must own exactly one column of the derivative's model matrix and that column
must equal the exact (iterated) finite difference of the ORIGINAL term's column, obtained by
materializing the original formula on shifted data.
"""
from __future__ import annotations

from vf.bounded import _meta_guard as _g  # noqa: E402

import itertools
import random

MAX_REPORT = 5
NAMES = ["a", "b", "c", "d"]
QUOTED = {"my col": "`my col`"}
TNAMES = ["I", "C", "Q", "log", "center"]  # data columns named like built-in transforms, used as plain lookup factors
# whole Python-expression factors: differentiating by the factor expression removes that factor. Their inner
# columns (u, v) are never used as differentiation variables themselves (without sympy a variable "occurs" in a
# term only as a factor of its own).
PYFACTORS = ["log(u)", "I(v * 2)"]
LITS = ["2", "3", "0.5", "1.5"]  # numeric scaling literals (`3:a`); they are factors that no variable ever removes


def variables_of(t):
    return [f for f in t if f not in LITS]


def scale_conflict(terms):
    """The parser rejects the same product written with two different numeric scalings (`3:a + a`)."""
    seen = [frozenset(variables_of(t)) for t in terms]
    return len(set(seen)) != len(seen)


# ------------------------------------------------------------------ spec
def d_spec(factors, wrt):
    """factors: tuple of names and scaling literals (() = intercept). Returns '0', '1' or the tuple of remaining
    factors -- a scaling literal is never removed, so `3:a` by a leaves the constant term `3`."""
    cur = list(factors)
    for v in wrt:
        if v not in cur:
            return "0"
        cur.remove(v)
    return tuple(cur) if cur else "1"


def term_sig(term):
    """Observable description of a Term: '0' / '1' for the literal terms, else sorted factor expressions."""
    exprs = sorted(f.expr for f in term.factors)
    if exprs in (["0"], ["1"]):
        return exprs[0]
    return tuple(exprs)


def spec_sig(res):
    return res if isinstance(res, str) else tuple(sorted(res))


def term_text(fs):
    return ":".join(QUOTED.get(f, f) for f in fs) if fs else "1"


def formula_text(terms):
    """Formula string that yields exactly `terms` (tuples of names; () = intercept)."""
    parts = [term_text(t) for t in terms if t]
    body = " + ".join(parts) if parts else ""
    if () in terms:
        return body if body else "1"
    return (body + " - 1") if body else "0"


REPRO_SYM = """from formulaic import Formula
f = Formula({text!r}{kw})
d = f.differentiate(*{wrt!r})
def sig(t):
    e = sorted(x.expr for x in t.factors)
    return e[0] if e in (['0'], ['1']) else tuple(e)
orig = [sig(t) for t in f]
got = [sig(t) for t in d]
def dspec(fs, wrt):
    cur = [] if fs == '1' else list(fs)
    for v in wrt:
        if v not in cur: return '0'
        cur.remove(v)
    return tuple(sorted(cur)) if cur else '1'
want = [dspec(t, {wrt!r}) for t in orig]
assert len(got) == len(orig), (orig, got)
assert got == want, (orig, got, want)
"""


def check_symbolic(b, counts, terms, wrt, ordering):
    from formulaic import Formula

    text = formula_text(terms)
    kw = {} if ordering is None else {"_ordering": ordering}
    f = Formula(text, **kw)
    orig = [term_sig(t) for t in f]
    # the formula must contain exactly the intended terms (driver self-check of the generator)
    assert sorted(orig, key=repr) == sorted((("1" if not t else tuple(sorted(t))) for t in terms), key=repr), (text, orig, terms)
    nontrivial = any(set(wrt) & set(t) for t in terms)
    b.case(("sym", text, wrt, ordering), nontrivial, sample={"formula": text, "wrt": list(wrt), "ordering": ordering})
    kwsrc = "" if ordering is None else f", _ordering={ordering!r}"
    w = {"formula": text, "wrt": list(wrt), "ordering": ordering, "code": REPRO_SYM.format(text=text, kw=kwsrc, wrt=tuple(wrt))}
    try:
        d = f.differentiate(*wrt)
    except Exception as e:  # outcome of the code under test
        _fail(b, counts, "C20.terms.derivative", f"raises-{type(e).__name__}", w, f"{type(e).__name__}: {e}")
        return
    got = [term_sig(t) for t in d]
    want = [spec_sig(d_spec(() if t == "1" else t, wrt)) for t in orig]
    if len(got) != len(orig):
        _fail(b, counts, "C20.terms.count", "length", w, f"{len(orig)} terms -> {len(got)}: {orig} -> {got}")
    elif got != want:
        cls = "order" if sorted(got, key=repr) == sorted(want, key=repr) else "value"
        _fail(b, counts, "C20.terms.order" if cls == "order" else "C20.terms.derivative", cls, w, f"terms {orig}\n got {got}\nwant {want}")


WALK_SRC = """from formulaic.utils.structured import Structured
def walk(obj, path=()):
    # leaves of a structured object (keyed nodes and tuple nodes), with their paths
    if isinstance(obj, Structured):
        for k, v in obj._structure.items():
            yield from walk(v, path + (k,))
    elif isinstance(obj, tuple):
        for i, v in enumerate(obj):
            yield from walk(v, path + (i,))
    else:
        yield path, obj
"""

REPRO_STRUCT = """from formulaic import Formula
""" + WALK_SRC + """f = {builder}
d = f.differentiate(*{wrt!r})
def sig(t):
    e = sorted(x.expr for x in t.factors)
    return e[0] if e in (['0'], ['1']) else tuple(e)
def dspec(fs, wrt):
    cur = [] if fs == '1' else list(fs)
    for v in wrt:
        if v not in cur: return '0'
        cur.remove(v)
    return tuple(sorted(cur)) if cur else '1'
orig, got = dict(walk(f)), dict(walk(d))
assert list(orig) == list(got), ('shape changed', list(orig), list(got))
for path in orig:
    o = [sig(t) for t in orig[path]]
    g = [sig(t) for t in got[path]]
    assert g == [dspec(t, {wrt!r}) for t in o], (path, o, g)
"""

SHAPES = ("two-sided", "multipart-rhs", "multipart-only", "multipart-both", "named-nested")


def walk(obj, path=()):
    from formulaic.utils.structured import Structured

    if isinstance(obj, Structured):
        for k, v in obj._structure.items():
            yield from walk(v, path + (k,))
    elif isinstance(obj, tuple):
        for i, v in enumerate(obj):
            yield from walk(v, path + (i,))
    else:
        yield path, obj


def structured_builder(shape, parts):
    """Python source of a structured formula of the given shape; `parts` = 5 term lists (each with a non-intercept term)."""
    P = [formula_text(p) for p in parts]
    L = [" + ".join(term_text(t) for t in p if t) for p in parts]
    if shape == "simple":
        return f"Formula({P[0]!r})"
    if shape == "two-sided":
        return f"Formula({L[0] + ' ~ ' + P[1]!r})"
    if shape == "multipart-rhs":
        return f"Formula({L[0] + ' ~ ' + P[1] + ' | ' + P[2]!r})"
    if shape == "multipart-only":
        return f"Formula({P[0] + ' | ' + P[1] + ' | ' + P[2]!r})"
    if shape == "multipart-both":
        return f"Formula({L[0] + ' | ' + L[1] + ' ~ ' + P[2] + ' | ' + P[3] + ' | ' + P[4]!r})"
    if shape == "named-nested":
        lst = [term_text(t) for t in parts[1] if t]
        return (f"Formula({P[0]!r}, x={lst!r}, n={{'u': {P[2]!r}, 'v': {L[3] + ' ~ ' + P[4]!r}}}, "
                f"p={P[1] + ' | ' + P[2]!r})")
    raise AssertionError(shape)


def build(builder):
    from formulaic import Formula

    return eval(builder, {"Formula": Formula})


def check_structured(b, counts, shape, parts, wrt):
    """Every leaf of a structured formula (keyed parts, tuple parts of `|`, nested names) is differentiated term-wise."""
    from formulaic.formula import SimpleFormula

    builder = structured_builder(shape, parts)
    f = build(builder)  # parsing the original formula is not C20's business
    b.case(("struct", builder, wrt), any(set(wrt) & set(t) for p in parts for t in p), sample={"formula": builder, "wrt": list(wrt)})
    w = {"formula": builder, "shape": shape, "wrt": list(wrt), "code": REPRO_STRUCT.format(builder=builder, wrt=tuple(wrt))}
    try:
        d = f.differentiate(*wrt)
        orig, got = list(walk(f)), list(walk(d))
    except Exception as e:  # outcome of the code under test
        _fail(b, counts, "C20.terms.derivative", f"structured-raises-{type(e).__name__}", w, f"{type(e).__name__}: {e}")
        return
    if [p for p, _ in orig] != [p for p, _ in got]:
        _fail(b, counts, "C20.terms.derivative", f"structured-shape:{shape}", w, f"leaf paths {[p for p, _ in orig]} -> {[p for p, _ in got]}")
        return
    for (path, o), (_, g) in zip(orig, got):
        osig = [term_sig(t) for t in o]
        want = [spec_sig(d_spec(() if t == "1" else t, wrt)) for t in osig]
        gsig = [term_sig(t) for t in g] if isinstance(g, SimpleFormula) else None
        if gsig != want:
            _fail(b, counts, "C20.terms.derivative", f"structured-part:{shape}", w, f"leaf {path}: terms {osig}\n got {gsig}\nwant {want}")
            return


def _fail(b, counts, clause, cls, witness, detail):
    k = (clause, cls)
    counts[k] = counts.get(k, 0) + 1
    if counts[k] <= MAX_REPORT:
        b.fail(clause, dict(witness, cls=cls), detail)


# ------------------------------------------------------------------ numeric
REPRO_NUM = """import numpy as np, pandas as pd
from formulaic import Formula
data = pd.DataFrame({data!r})
f = Formula({text!r})
wrt, h = {wrt!r}, {h!r}
d = f.differentiate(*wrt)
def cols(formula, df, output={output!r}):
    mm = formula.get_model_matrix(df, output=output)
    vals = mm.toarray() if hasattr(mm, 'toarray') else np.asarray(mm, dtype=float)
    return mm.model_spec, vals
spec0, base = cols(f, data)
def shift(df, w, step):
    # move the evaluated factor `w` by `step`: a column directly, a Python factor through its inner column
    if w == 'I(v * 2)': df['v'] = df['v'] + step / 2
    elif w == 'log(u)': df['u'] = np.exp(np.log(df['u']) + step)
    else: df[w] = df[w] + step
# iterated finite difference of every ORIGINAL column
fd = np.zeros_like(base)
import itertools
for r in range(len(wrt) + 1):
    for U in itertools.combinations(range(len(wrt)), r):
        shifted = data.copy()
        for i in U:
            shift(shifted, wrt[i], h[i])
        fd += (-1) ** (len(wrt) - r) * cols(f, shifted)[1]
fd = fd / np.prod(h) if wrt else base
dspec, dvals = cols(d, data)
assert len(list(d)) == len(list(f))
for i, (t0, t1) in enumerate(zip(f, d)):
    if [x.expr for x in t1.factors] == ['0']:
        continue
    c0 = [c for s in spec0.structure if s.term == t0 for c in s.columns]
    c1 = [c for s in dspec.structure if s.term == t1 for c in s.columns]
    assert len(c0) == 1, (str(t0), c0)
    assert len(c1) == 1, ('derivative term owns no single column', str(t0), str(t1), c1, dspec.column_names)
    want = fd[:, list(spec0.column_names).index(c0[0])]
    got = dvals[:, list(dspec.column_names).index(c1[0])]
    assert np.allclose(got, want, rtol=0, atol={atol!r}), (str(t0), str(t1), got, want)
"""


def shift_frame(df, w, step):
    """Move the evaluated factor `w` by `step` (exactly for columns and I(v * 2); log(u) through exp, hence a tolerance)."""
    import numpy as np

    if w == "I(v * 2)":
        df["v"] = df["v"] + step / 2
    elif w == "log(u)":
        df["u"] = np.exp(np.log(df["u"]) + step)
    else:
        df[w] = df[w] + step


def check_numeric(b, counts, terms, wrt, data, h, output):
    import numpy as np
    import pandas as pd
    from formulaic import Formula

    text = formula_text(terms)
    f = Formula(text)
    df = pd.DataFrame(data)
    # exact unless log(u) takes part (its shift goes through exp/log, and its column is irrational)
    atol = 1e-9 if "log(u)" in text else 0.0
    nonzero = [t for t in terms if d_spec(t, wrt) != "0"]
    b.case(("num", text, wrt, tuple(h), output, tuple(sorted((k, tuple(v)) for k, v in data.items()))), bool(nonzero) and bool(wrt),
           sample={"formula": text, "wrt": list(wrt), "h": list(h), "output": output, "rows": len(df)})
    w = {"formula": text, "wrt": list(wrt), "h": list(h), "output": output, "data": data,
         "code": REPRO_NUM.format(data=data, text=text, wrt=tuple(wrt), h=tuple(h), output=output, atol=atol)}

    def cols(formula, frame):
        mm = formula.get_model_matrix(frame, output=output)
        vals = mm.toarray() if hasattr(mm, "toarray") else np.asarray(mm, dtype=float)
        return mm.model_spec, vals

    spec0, base = cols(f, df)  # original formula: plain numeric columns; failures here are not C20's business
    fd = np.zeros_like(base)
    for r in range(len(wrt) + 1):
        for U in itertools.combinations(range(len(wrt)), r):
            shifted = df.copy()
            for i in U:
                shift_frame(shifted, wrt[i], h[i])
            fd += (-1) ** (len(wrt) - r) * cols(f, shifted)[1]
    fd = fd / np.prod(h) if wrt else base
    try:
        d = f.differentiate(*wrt)
        dspec, dvals = cols(d, df)
    except Exception as e:  # outcome of the code under test
        _fail(b, counts, "C20.numeric.materializes", f"raises-{type(e).__name__}", w, f"{type(e).__name__}: {e}")
        return
    if len(list(d)) != len(list(f)):
        return  # reported by the symbolic driver
    names0, names1 = list(spec0.column_names), list(dspec.column_names)
    for t0, t1 in zip(f, d):
        if term_sig(t1) == "0":
            continue
        c0 = [c for s in spec0.structure if s.term == t0 for c in s.columns]
        assert len(c0) == 1, ("driver: original numeric term without a single column", text, str(t0), c0)
        c1 = [c for s in dspec.structure if s.term == t1 for c in s.columns]
        one = all(f.eval_method.value == "literal" for f in t1.factors)  # constant derivative term (`1`, or a bare scale `3`)
        if len(c1) != 1:
            cls = ("one-term-no-column" if one else "term-no-column") if not c1 else "term-many-columns"
            if one and not c1:
                cls += "-after-zero-term" if any(term_sig(t) == "0" for t in d) else "-no-zero-term"
            _fail(b, counts, "C20.numeric.column", cls, w,
                  f"derivative term `{t1}` of `{t0}` owns columns {c1}; derivative formula `{d}` has columns {names1}")
            continue
        want = fd[:, names0.index(c0[0])]
        got = dvals[:, names1.index(c1[0])]
        if not np.allclose(got, want, rtol=0, atol=atol):
            _fail(b, counts, "C20.numeric.finite-difference", "one-term" if one else "product-term", w,
                  f"term `{t0}` -> `{t1}`: column {got.tolist()} but finite difference {want.tolist()}")


REPRO_ROUTE = """import numpy as np, pandas as pd, itertools
from formulaic import Formula, ModelSpec, model_matrix
""" + WALK_SRC + """data = pd.DataFrame({data!r})
f = {builder}
wrt, h = {wrt!r}, {h!r}
def leaves(mm):
    return [(p, m.model_spec, np.asarray(m, dtype=float)) for p, m in walk(mm)]
base = leaves(f.get_model_matrix(data))
fd = [np.zeros_like(v) for _, _, v in base]
for r in range(len(wrt) + 1):
    for U in itertools.combinations(range(len(wrt)), r):
        shifted = data.copy()
        for i in U:
            shifted[wrt[i]] = shifted[wrt[i]] + h[i]
        for k, (_, _, v) in enumerate(leaves(f.get_model_matrix(shifted))):
            fd[k] += (-1) ** (len(wrt) - r) * v
fd = [v / np.prod(h) for v in fd]
route = {route!r}
if route == 'formula':
    dm = model_matrix(f.differentiate(*wrt), data, context={{}})
elif route == 'spec-unmaterialized':
    dm = ModelSpec.from_spec(f).differentiate(*wrt).get_model_matrix(data)
else:  # the spec(s) attached to the materialized matrices
    dm = f.get_model_matrix(data).model_spec.differentiate(*wrt).get_model_matrix(data)
der = leaves(dm)
assert [p for p, _, _ in der] == [p for p, _, _ in base], 'shape changed'
for (path, spec0, _), want, (_, dspec, dvals) in zip(base, fd, der):
    for t0, t1 in zip(spec0.formula, dspec.formula):
        if [x.expr for x in t1.factors] == ['0']:
            continue
        c0 = [c for s in spec0.structure if s.term == t0 for c in s.columns]
        c1 = [c for s in dspec.structure if s.term == t1 for c in s.columns]
        assert len(c0) == 1 and len(c1) == 1, ('derivative term owns no single column', path, str(t0), str(t1), c1)
        a = dvals[:, list(dspec.column_names).index(c1[0])]
        w_ = want[:, list(spec0.column_names).index(c0[0])]
        assert np.array_equal(a, w_), (path, str(t0), str(t1), a, w_)
"""

ROUTES = ("formula", "spec-unmaterialized", "spec-materialized")


def check_routes(b, counts, shape, parts, wrt, data, h, route):
    """Materialized derivative of every leaf vs the exact finite difference of the original leaf, reached through
    Formula.differentiate, ModelSpec(s).differentiate before materialization, and ModelSpec(s).differentiate of the
    spec attached to the materialized matrices."""
    import numpy as np
    import pandas as pd
    from formulaic import ModelSpec, model_matrix

    builder = structured_builder(shape, parts)
    f = build(builder)
    df = pd.DataFrame(data)
    b.case(("route", builder, wrt, tuple(h), route, tuple(sorted((k, tuple(v)) for k, v in data.items()))), bool(wrt),
           sample={"formula": builder, "wrt": list(wrt), "route": route})
    w = {"formula": builder, "shape": shape, "wrt": list(wrt), "h": list(h), "route": route, "data": data,
         "code": REPRO_ROUTE.format(data=data, builder=builder, wrt=tuple(wrt), h=tuple(h), route=route)}

    def leaves(mm):
        return [(p, m.model_spec, np.asarray(m, dtype=float)) for p, m in walk(mm)]

    base = leaves(f.get_model_matrix(df))  # the original formula: not C20's business
    fd = [np.zeros_like(v) for _, _, v in base]
    for r in range(len(wrt) + 1):
        for U in itertools.combinations(range(len(wrt)), r):
            shifted = df.copy()
            for i in U:
                shift_frame(shifted, wrt[i], h[i])
            for k, (_, _, v) in enumerate(leaves(f.get_model_matrix(shifted))):
                fd[k] += (-1) ** (len(wrt) - r) * v
    fd = [v / np.prod(h) for v in fd] if wrt else [v for _, _, v in base]
    clause = "C20.numeric" if route == "formula" else "C20.modelspec.differentiate"
    try:
        if route == "formula":
            # (the derivative of a structured formula is a plain `Structured` of formulas, so it is materialized
            # through the generic entry point rather than through a method of its own)
            dm = model_matrix(f.differentiate(*wrt), df, context={})
        elif route == "spec-unmaterialized":
            dm = ModelSpec.from_spec(f).differentiate(*wrt).get_model_matrix(df)
        else:
            dm = f.get_model_matrix(df).model_spec.differentiate(*wrt).get_model_matrix(df)
        der = leaves(dm)
    except Exception as e:  # outcome of the code under test
        _fail(b, counts, clause + ".materializes", f"{route}:raises-{type(e).__name__}", w, f"{type(e).__name__}: {e}")
        return
    if [p for p, _, _ in der] != [p for p, _, _ in base]:
        _fail(b, counts, clause + ".shape", f"{route}:{shape}", w, f"leaves {[p for p, _, _ in base]} -> {[p for p, _, _ in der]}")
        return
    for (path, spec0, _), want, (_, dspec, dvals) in zip(base, fd, der):
        names0, names1 = list(spec0.column_names), list(dspec.column_names)
        if len(list(dspec.formula)) != len(list(spec0.formula)):
            _fail(b, counts, clause + ".shape", f"{route}:term-count", w, f"leaf {path}: {spec0.formula} -> {dspec.formula}")
            continue
        for t0, t1 in zip(spec0.formula, dspec.formula):
            if term_sig(t1) == "0":
                continue
            c0 = [c for st in spec0.structure if st.term == t0 for c in st.columns]
            assert len(c0) == 1, ("driver: original numeric term without a single column", builder, str(t0), c0)
            c1 = [c for st in dspec.structure if st.term == t1 for c in st.columns]
            one = all(x.eval_method.value == "literal" for x in t1.factors)
            if len(c1) != 1:
                cls = ("one-term-no-column" if one else "term-no-column") if not c1 else "term-many-columns"
                if one and not c1:
                    cls += "-after-zero-term" if any(term_sig(t) == "0" for t in dspec.formula) else "-no-zero-term"
                _fail(b, counts, "C20.numeric.column", cls, w, f"[{route}] leaf {path}: derivative term `{t1}` of `{t0}` owns columns {c1}; columns {names1}")
                continue
            got = dvals[:, names1.index(c1[0])]
            exp = want[:, names0.index(c0[0])]
            if not np.array_equal(got, exp):
                _fail(b, counts, clause + ".finite-difference", f"{route}:{'one-term' if one else 'product-term'}", w,
                      f"leaf {path}: term `{t0}` -> `{t1}`: column {got.tolist()} but finite difference {exp.tolist()}")


# ------------------------------------------------------------------ enumeration
def all_terms(names):
    out = [()]
    for r in range(1, len(names) + 1):
        out += list(itertools.combinations(names, r))
    return out


def run_bounded(ctx):
    _g.begin("C20", ctx)
    rng = random.Random(ctx.seed)
    counts = {}

    def rec(b):
        return lambda clause, cls, witness, detail: _fail(b, counts, clause, cls, witness, detail)

    # 16 products incl. the intercept + 5 numerically scaled products (literal first, in the middle, last)
    universe = all_terms(NAMES) + [("3", "a"), ("b", "0.5", "c"), ("a", "b", "2"), ("1.5", "d", "c", "a"), ("2", "a", "b", "c", "d")]
    # + columns named like built-in transforms as lookup factors, and whole Python-expression factors
    universe_x = universe + [("I", "a"), ("C",), ("b", "log", "Q"), ("a", "log(u)"), ("I(v * 2)", "b", "c")]
    wrts = [()] + [w for k in (1, 2) for w in itertools.product(NAMES + ["e"], repeat=k)]
    wrts_x = [("I",), ("C",), ("log",), ("log(u)",), ("I(v * 2)",), ("I", "a"), ("a", "I"), ("Q", "b"), ("log(u)", "a"), ("a", "log(u)"),
              ("I(v * 2)", "c"), ("I", "I"), ("log(u)", "log(u)"), ("center",)]
    kmax = 4 if ctx.thorough else 2
    with ctx.bounded(
        "differentiate-factor-sets",
        rule="every formula made of <= 2 (quick) / 4 (thorough) distinct terms out of the 16 products over {a,b,c,d} (incl. the "
             "intercept) and 5 numerically scaled products (3:a, b:0.5:c, a:b:2, 1.5:d:c:a, 2:a:b:c:d) x every tuple of <= 2 variables over {a,b,c,d,e}; plus every such formula that also uses one of 5 extra terms "
             "(lookup columns named like built-in transforms: I:a, C, b:log:Q; whole Python-expression factors: a:log(u), "
             "I(v * 2):b:c) x the single-variable tuples (1-term formulas: all tuples) and 14 tuples naming I/C/Q/log/center or a factor expression (`log(u)`); "
             "non-trivial = some variable occurs in some term",
        exhaustive=True,
        bound=f"terms <= {kmax} of 21, wrt length <= 2 over 5 names",
    ) as b:
        for k in range(0, kmax + 1):
            for terms in itertools.combinations(universe, k):
                if scale_conflict(terms):
                    continue  # not a formula
                for wrt in wrts:
                    _g.guard(rec(b), check_symbolic, b, counts, list(terms), wrt, None)
        # the extended vocabulary: every formula that uses at least one of the 5 extra terms, x all tuples
        for k in range(1, min(kmax, 3) + 1):
            for terms in itertools.combinations(universe_x, k):
                if scale_conflict(terms) or not any(t in universe_x[len(universe):] for t in terms):
                    continue
                for wrt in wrts + wrts_x if k == 1 else wrts_x + [w for w in wrts if len(w) == 1]:
                    _g.guard(rec(b), check_symbolic, b, counts, list(terms), wrt, None)
    with ctx.bounded(
        "differentiate-factor-sets-random",
        rule="seeded random formulas with <= 8 terms over {a,b,c,d,`my col`, I,C,Q,log,center as columns, log(u), I(v * 2)} (unsorted factor order, 25% of the terms carry a "
             "scaling literal 2/3/0.5/1.5 at a random position; 30% are also built as a structured formula of a random shape -- lhs ~ rhs, "
             "multi-part `a | b` (tuple nodes) on one or both sides, named and nested structure -- every leaf judged on its own, orderings default/none/sort/"
             "degree) x tuples of <= 4 variables (repeats allowed, absent name e); plus 3-term formulas x 4 sampled tuples; "
             "non-trivial = some variable occurs in some term",
        exhaustive=False,
        bound="terms <= 8, factors per term <= 4, wrt length <= 4",
    ) as b:
        if not ctx.thorough:
            for terms in itertools.combinations(universe, 3):
                if scale_conflict(terms):
                    continue
                for wrt in rng.sample(wrts, 4):
                    _g.guard(rec(b), check_symbolic, b, counts, list(terms), wrt, None)
        pool = NAMES + ["my col"] + TNAMES + PYFACTORS
        for _ in range(4000 if ctx.thorough else 600):
            n = rng.randint(1, 8)
            terms = set()
            while len(terms) < n:
                fs = rng.sample(pool, rng.randint(0, 4))
                if fs and rng.random() < 0.25:
                    fs.insert(rng.randrange(len(fs) + 1), rng.choice(LITS))
                terms.add(tuple(fs))
            terms = list({frozenset(variables_of(t)): t for t in terms}.values())  # distinct products, random factor order
            rng.shuffle(terms)
            wrt = tuple(rng.choice(pool + ["e"]) for _ in range(rng.randint(0, 4)))
            _g.guard(rec(b), check_symbolic, b, counts, terms, wrt, rng.choice([None, "none", "sort", "degree"]))
            if rng.random() < 0.3:
                parts = []
                for _p in range(5):  # 5 parts, each with at least one product term, distinct products per part
                    part = [tuple(rng.sample(pool, rng.randint(0, 3))) for _ in range(rng.randint(1, 4))]
                    part = list({frozenset(t): t for t in part}.values())
                    if not any(part):
                        part.append((rng.choice(NAMES),))
                    if rng.random() < 0.3:
                        k = rng.randrange(len(part))
                        if part[k]:
                            part[k] = (rng.choice(LITS),) + part[k]
                    parts.append(part)
                _g.guard(rec(b), check_structured, b, counts, rng.choice(SHAPES), parts, wrt)
    with ctx.bounded(
        "differentiate-finite-differences",
        rule="multilinear formulas (<= 5 product terms over numeric columns a..d, 30% with a scaling literal, a third using columns "
             "named I/C/Q/log/center and a third using the Python factors log(u) / I(v * 2), with/without intercept) x tuples of <= 3 "
             "distinct-or-repeated variables x integer/dyadic data (4-6 rows) x steps h in {1, 2, 0.5}; exact comparison of each "
             "non-zero derivative term's column with the iterated finite difference of the original term's column; non-trivial = "
             "at least one non-zero derivative term",
        exhaustive=False,
        bound="terms <= 5, factors <= 4, wrt length <= 3, |values| <= 8 so every product is exact in float64",
    ) as b:
        outputs = ["pandas", "numpy", "sparse"]
        fixed = [
            ([(), ("a",), ("a", "b")], ("a",)),
            ([("a",), ("a", "b")], ("a",)),
            ([(), ("a",), ("b",), ("a", "b"), ("a", "b", "c")], ("a", "b")),
            ([("a", "b"), ("a", "c")], ("a",)),
            ([("a",)], ("a",)),
            ([(), ("a",)], ("a",)),
            ([(), ("a", "b")], ("a", "b")),
            ([("a", "b")], ("a", "b")),
            ([(), ("a",), ("a", "b")], ("b",)),
            ([(), ("a",), ("a", "b")], ("a", "a")),
            ([(), ("a", "b", "c", "d")], ("d", "b", "a")),
            ([("3", "a"), ("a", "b")], ("a",)),
            ([(), ("3", "a"), ("2", "a", "b")], ("a",)),
            ([("b", "0.5", "c")], ("b", "c")),
            ([(), ("a", "2", "b"), ("1.5", "c")], ("a", "b")),
            ([("3", "a"), ("b",)], ("b",)),
            ([("2", "a", "b", "c")], ("c", "a")),
            # data columns named like built-in transforms, as plain lookup factors
            ([("I", "a"), ("a", "b")], ("I",)),
            ([(), ("I",), ("C", "a"), ("log", "Q", "b")], ("Q", "log")),
            ([("center", "a"), ("3", "I", "center")], ("center",)),
            ([("I", "a")], ("a", "I")),
            # differentiation by a whole Python-expression factor
            ([("a", "log(u)"), ("b",)], ("log(u)",)),
            ([(), ("I(v * 2)", "b", "c"), ("a", "I(v * 2)")], ("I(v * 2)", "b")),
            ([("2", "a", "log(u)"), ("log(u)",)], ("log(u)", "a")),
            ([("a", "I(v * 2)")], ("I(v * 2)", "I(v * 2)")),
        ]
        cases = list(fixed)
        for _ in range(900 if ctx.thorough else 130):
            n = rng.randint(1, 5)
            terms = {frozenset(rng.sample(NAMES, rng.randint(0, 4))) for _ in range(n)}
            terms = [tuple(sorted(t, key=lambda _x: rng.random())) for t in terms]
            terms = [t[:j] + (rng.choice(LITS),) + t[j:] if t and rng.random() < 0.3 else t
                     for t in terms for j in [rng.randrange(len(t) + 1)]]
            # a third of the cases swap some names for the extended vocabulary: either transform-named columns or
            # Python-expression factors (never both: a column called `I`/`log` would shadow the function of that name)
            fam = rng.choice(["plain", "transform-names", "python-factors"])
            if fam != "plain":
                ren = dict(zip(rng.sample(NAMES, 2), rng.sample(TNAMES, 2) if fam == "transform-names" else PYFACTORS))
                terms = [tuple(ren.get(x, x) for x in t) for t in terms]
            present = sorted(set().union(*map(set, map(variables_of, terms)))) or ["a"]
            wrt = tuple(rng.choice(present if rng.random() < 0.85 else NAMES) for _ in range(rng.randint(1, 3)))
            cases.append((terms, wrt))
        for i, (terms, wrt) in enumerate(cases):
            rows = rng.randint(4, 6)
            used = set().union(*map(set, map(variables_of, terms))) if terms else set()
            data = {n: [float(rng.choice([-3, -2, -1, 0, 1, 2, 3, 4, 0.5, 1.5])) for _ in range(rows)]
                    for n in NAMES + [t for t in TNAMES if t in used] + (["v"] if "I(v * 2)" in used else [])}
            if "log(u)" in used:
                data["u"] = [float(rng.choice([0.5, 1, 2, 4, 8])) for _ in range(rows)]
            h = [rng.choice([1.0, 2.0, 0.5]) for _ in wrt]
            _g.guard(rec(b), check_numeric, b, counts, terms, wrt, data, h, outputs[i % 3] if ctx.thorough or i % 4 == 0 else "pandas")
    with ctx.bounded(
        "differentiate-structured-routes",
        rule="multilinear formulas over numeric columns a..d (30% with a scaling literal) in 6 shapes (plain, lhs ~ rhs, multi-part "
             "`|` on the rhs / alone / on both sides, named nested structure) x tuples of <= 2 variables x 3 routes to the derivative's "
             "matrices (Formula.differentiate, ModelSpec(s).differentiate before materialization, ModelSpec(s).differentiate of the "
             "spec attached to the materialized matrices); every leaf's non-zero derivative columns vs the exact iterated finite "
             "difference of that leaf of the original matrices; non-trivial = at least one variable",
        exhaustive=False,
        bound="5 parts of <= 3 terms, factors <= 3, wrt length <= 2",
    ) as b:
        shapes = ("simple",) + SHAPES
        for i in range(360 if ctx.thorough else 72):
            parts = []
            for _p in range(5):
                part = list({frozenset(t): t for t in (tuple(rng.sample(NAMES, rng.randint(0, 3))) for _ in range(rng.randint(1, 3)))}.values())
                if not any(part):
                    part.append((rng.choice(NAMES),))
                if rng.random() < 0.3:
                    j = rng.randrange(len(part))
                    if part[j]:
                        part[j] = (rng.choice(LITS),) + part[j]
                parts.append(part)
            present = sorted({x for p in parts for t in p for x in variables_of(t)})
            wrt = tuple(rng.choice(present) for _ in range(rng.randint(1, 2)))
            data = {n: [float(rng.choice([-3, -2, -1, 0, 1, 2, 3, 4, 0.5, 1.5])) for _ in range(5)] for n in NAMES}
            h = [rng.choice([1.0, 2.0, 0.5]) for _ in wrt]
            _g.guard(rec(b), check_routes, b, counts, shapes[i % len(shapes)], parts, wrt, data, h, ROUTES[(i // len(shapes)) % 3])
    ctx.assume(
        "C20-scope: factors are plain (optionally back-quoted) column names and use_sympy=False; a variable 'occurs' in a term "
        "iff it is one of its factors (function-call factors such as log(a) are outside 'products of distinct factors')",
        "A-float-exact: data, steps and all products are exactly representable, so finite differences are compared exactly; only formulas "
        "containing log(u) are compared at 1e-9 (the factor is shifted through exp(log(u) + h))",
        "C20-wrt-factor: differentiating by a whole factor expression (`log(u)`) removes that factor; the finite difference shifts the "
        "evaluated factor; the inner columns u, v are never used as differentiation variables (without sympy that case is not judged)",
        "C20-columns: a derivative term's column is located through model_spec.structure (term -> columns)",
        "C20-scale: a numeric literal factor (`3:a`) scales the term; it is a factor no variable removes, so the derivative keeps it "
        "(term oracle) and the column is scale x product of the remaining factors (finite-difference oracle); a derivative that is a "
        "bare constant (`1`, `3`) is classified like the `1` term when it owns no column",
    )
