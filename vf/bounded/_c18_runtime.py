"""Runtime of the C18 bounded driver.  This file is used as *text*: it is the body of the zygote
processes (one freshly started interpreter imports the libraries once and forks one child per
history, so every history starts from the state "just imported"), and it is embedded verbatim in
the stand-alone repro programs.  It must therefore be self-contained (no vf imports).

History = list of ops (JSON):
  ["mm",    spec, data, out]  model_matrix(spec, D[data], output=out, context=CTX, drop_rows=S)
  ["Fmm",   spec, data, out]  one Formula object per spec shared by the whole history: .get_model_matrix(...)
  ["uspec", spec, data, out]  one un-materialized ModelSpec per (spec, out) shared by the history: .get_model_matrix(...)
  ["reuse", k, data]          (result of call k).model_spec.get_model_matrix(D[data], context=CTX, drop_rows=S)
  ["mm_of", k, data]          model_matrix(<result of call k>, D[data], context=CTX, drop_rows=S)
  ["joint", [k1, k2], data]   ModelSpecs(p0=<spec of call k1>, p1=<spec of call k2>).get_model_matrix(D[data], ...)
spec: formula string, or list / dict of strings (mutable formula specs).
Any op may carry a trailing "shadow": that call gets a context in which the names of built-in stateful
transforms (`center`, `scale`) are bound to plain user functions (which legitimately shadow the built-ins for
that call); all other calls of the history get the ordinary context.
"""
import copy
import random as _random
import hashlib
import json
import os
import re
import sys
import traceback
import warnings

warnings.simplefilter("ignore")

import numpy as np
import pandas as pd
import scipy.sparse

import formulaic
from formulaic import Formula, ModelSpec, model_matrix


def make_frames():
    n = 8
    a = [0.5, 1.25, -2.0, 3.5, 4.0, -0.75, 2.5, 6.0]
    b = [2.0, 4.5, 1.0, 8.25, 3.0, 7.5, 5.0, 6.5]
    A = ["u", "v", "w", "u", "w", "v", "u", "w"]
    B = ["q", "p", "q", "r", "p", "r", "q", "p"]
    d0 = pd.DataFrame({"a": a, "b": b, "A": pd.Series(A, dtype=object), "B": pd.Categorical(B, categories=["r", "p", "q"])})
    a1 = [1.5, None, 0.25, -3.0, 2.0, 9.5, None, 4.25]
    A1 = ["w", "u", None, "v", "u", "w", "v", "u"]
    b1 = [5.5, 1.0, 2.25, 9.0, 4.0, 3.5, 8.0, 6.0]
    B1 = ["p", "p", "r", "q", None, "r", "q", "p"]
    d1 = pd.DataFrame({"a": a1, "b": b1, "A": pd.Series(A1, dtype=object).to_numpy(), "B": pd.Categorical(B1, categories=["r", "p", "q"])},
                      index=["i%d" % i for i in range(n)])
    d2 = pd.DataFrame({"a": [10.0, 11.5, 9.25, 12.0, 8.5, 10.75], "b": [1.5, 7.0, 3.25, 2.0, 6.5, 4.0],
                       "A": pd.Series(["v", "w", "v", "w", "w", "v"], dtype=object),
                       "B": pd.Categorical(["q", "r", "p", "q", "r", "p"], categories=["r", "p", "q"])})
    # same columns as d0, but the column that holds text elsewhere (A) holds numbers here
    d3 = pd.DataFrame({"a": [2.0, -1.5, 0.25, 5.0, 3.5, 1.0, -0.5, 4.25], "b": [6.0, 2.5, 7.0, 1.5, 4.5, 3.0, 8.0, 5.5],
                       "A": [3.0, 1.0, 2.0, 1.0, 3.0, 2.0, 1.0, 2.0],
                       "B": pd.Categorical(["p", "q", "r", "p", "q", "r", "p", "q"], categories=["r", "p", "q"])})
    # two more small categorical columns (text G, categorical-dtype H) for interactions of three and four factors
    for frame in (d0, d1, d2, d3):
        m = len(frame)
        frame["G"] = pd.Series((["g1", "g2", "g2", "g1", "g1", "g2", "g1", "g2"])[:m], dtype=object).to_numpy()
        frame["H"] = pd.Categorical((["h2", "h1", "h1", "h2", "h2", "h2", "h1", "h1"])[:m], categories=["h2", "h1"])
    # columns whose names are not Python identifiers (must be back-ticked inside Python-evaluated factors)
    for frame, shift in ((d0, 0.0), (d1, 1.5), (d2, -2.0), (d3, 0.25)):
        frame["my col"] = (frame["b"] * 0.5 + shift).to_numpy()
        frame["a-b"] = (frame["a"].fillna(0.0) - frame["b"]).to_numpy()
    # d2 additionally has a column named like the identifier a sanitised `my col` would get
    d2["my_col"] = (d2["b"] * 3.0).to_numpy()
    # plain dict-of-columns input (the pandas materializer builds its own frame from it)
    dd = {"a": np.array(a), "b": list(b), "A": list(A), "B": np.array(B, dtype=object)}
    return {"d0": d0, "d1": d1, "d2": d2, "d3": d3, "dd": dd}


def _double(x):
    return x * 2.0


def _center_plain(v):
    return v - 1.0


def _scale_plain(v):
    return v / 2.0


def make_shadow_context():
    """The ordinary context plus plain functions under the names of built-in stateful transforms."""
    ctx = make_context()
    ctx["center"] = _center_plain
    ctx["scale"] = _scale_plain
    return ctx


def make_context():
    """Mutable objects that formulas reference by name and hand to transforms as arguments."""
    return {"k": 2.5, "offset": np.array([1.0, 2.0, 3.0]), "double": _double, "lv": ["u", "v", "w"],
            "kn": [3.0, 5.0], "kn2": [2.5, 4.0, 6.0], "cm": {"uv": [1.0, -1.0, 0.0], "vw": [0.0, 1.0, -1.0]},
            "ctr": [0.5], "pw": np.array([1.0, 2.0]),
            # writable numpy vectors the caller still holds (8 entries = rows of d0 / d1 / d3), handed to transforms by name
            "vf64": np.array([0.5, 2.25, -1.0, 4.5, 3.0, 7.75, 6.0, 5.25]),
            "vf32": np.array([1.5, 0.25, 3.0, 2.5, 6.0, 4.75, 8.0, 7.5], dtype=np.float32),
            "vi64": np.array([3, 1, 2, 3, 1, 2, 3, 1], dtype=np.int64),
            "vf64n": np.array([1.0, np.nan, 2.5, 4.0, np.nan, 0.5, 3.0, 6.5])}


def _leaves(o, path=()):
    from formulaic.utils.structured import Structured

    if isinstance(o, Structured):
        for key, v in o._structure.items():
            yield from _leaves(v, path + (key,))
    elif isinstance(o, tuple):
        for i, v in enumerate(o):
            yield from _leaves(v, path + (i,))
    else:
        yield path, o


def digest(res, dropped):
    """values (bytes), dtypes, column order, index labels, dropped rows -> hex digest + readable summary"""
    h = hashlib.blake2b(digest_size=16)
    summary = []
    for path, m in _leaves(res):
        w = m.__wrapped__ if hasattr(m, "__wrapped__") else m
        names = list(m.model_spec.column_names)
        if scipy.sparse.issparse(w):
            arr, idx = np.asarray(w.todense()), None
        elif isinstance(w, pd.DataFrame):
            arr, idx = w.to_numpy(), [repr(i) for i in w.index]
            names = names + ["|"] + [str(c) for c in w.columns]
        else:
            arr, idx = np.asarray(w), None
        arr = np.ascontiguousarray(arr)
        body = arr.tobytes() if arr.dtype != object else repr(arr.tolist()).encode()
        part = [repr(path), type(w).__name__, str(arr.dtype), repr(arr.shape), repr(names), repr(idx)]
        h.update("\x1f".join(part).encode())
        h.update(body)
        summary.append({"part": repr(path), "shape": list(arr.shape), "columns": [str(c) for c in names],
                        "values": np.round(arr.astype(float), 6).tolist() if arr.dtype != object and arr.size <= 64 else None})
    d = sorted(int(i) for i in dropped) if dropped is not None else None
    h.update(repr(d).encode())
    return {"digest": h.hexdigest(), "dropped": d, "summary": summary}


def _exc_digest(e):
    msg = re.sub(r"0x[0-9a-fA-F]+", "0x", f"{type(e).__name__}: {e}")
    return {"digest": "EXC " + hashlib.blake2b(msg.encode(), digest_size=8).hexdigest(), "dropped": None, "exception": msg[:300]}


def _frames_equal(a, b):
    if isinstance(a, dict) or isinstance(b, dict):
        if not (isinstance(a, dict) and isinstance(b, dict)) or list(a) != list(b):
            return f"dict data: keys/type changed ({type(a).__name__} {list(a)})"
        for key in a:
            x, y = a[key], b[key]
            if isinstance(x, np.ndarray):
                if not (isinstance(y, np.ndarray) and x.dtype == y.dtype and x.shape == y.shape and x.flags.writeable
                        and np.ascontiguousarray(x).tobytes() == np.ascontiguousarray(y).tobytes()):
                    return f"dict data: array column {key!r} changed"
            elif type(x) is not type(y) or len(x) != len(y) or any(p != q for p, q in zip(list(x), list(y))):
                return f"dict data: column {key!r} changed"
        return None
    try:
        pd.testing.assert_frame_equal(a, b, check_exact=True, check_dtype=True, check_index_type=True,
                                      check_column_type=True, check_categorical=True, check_names=True, check_flags=True)
        return None
    except AssertionError as e:
        return str(e)[:300]


def _ctx_equal(a, b):
    if list(a) != list(b):
        return f"keys {list(a)} vs {list(b)}"
    for key in a:
        x, y = a[key], b[key]
        if isinstance(x, np.ndarray):
            # contents compared bit for bit (NaN positions included), plus dtype, shape and the writeable flag
            if not (isinstance(y, np.ndarray) and x.dtype == y.dtype and x.shape == y.shape
                    and np.ascontiguousarray(x).tobytes() == np.ascontiguousarray(y).tobytes()):
                return f"array {key!r} changed: {y.tolist()} -> {x.tolist()}"[:300]
            if not x.flags.writeable:
                return f"array {key!r} is no longer writeable"
        elif callable(x):
            if x is not y:
                return f"value of {key!r} replaced"
        elif x != y or type(x) is not type(y):
            return f"value of {key!r} changed: {y!r} -> {x!r}"
    return None


def _attrs(obj):
    """repr of every attribute an object carries (slots and/or __dict__), by name."""
    names = []
    for klass in type(obj).__mro__:
        names += [n for n in getattr(klass, "__slots__", ()) if isinstance(n, str)]
    names += list(getattr(obj, "__dict__", {}))
    out = []
    for name in dict.fromkeys(names):
        if name.startswith("__") or not hasattr(obj, name):
            continue
        v = getattr(obj, name)
        out.append((name, _attrs(v) if type(v).__name__ == "Token" else repr(v)))
    return out


def _formula_state(F):
    """Deep snapshot of a formula: per part the ordering and, per term, its printed form, origin and every
    attribute of every factor (expr, eval method, kind, metadata, token)."""
    state = []
    for p, leaf in _leaves(F):
        terms = []
        for t in leaf:
            terms.append((str(t), repr(getattr(t, "origin", None)), [_attrs(f) for f in t.factors]))
        state.append((repr(p), str(getattr(leaf, "ordering", None)), terms))
    return state


def _rng_state():
    """State of the two global random streams (numpy legacy global RandomState, stdlib random)."""
    name, keys, pos, has_gauss, cached = np.random.get_state()
    return (name, hashlib.blake2b(np.ascontiguousarray(keys).tobytes(), digest_size=8).hexdigest(), int(pos), int(has_gauss),
            float(cached), hashlib.blake2b(repr(_random.getstate()).encode(), digest_size=8).hexdigest())


def run_history(ops):
    D = make_frames()
    D_before = {k: copy.deepcopy(v) for k, v in D.items()}
    CTX = make_context()
    CTX_before = {k: (v if callable(v) else copy.deepcopy(v)) for k, v in CTX.items()}
    SHADOW = make_shadow_context()
    SHADOW_before = {k: (v if callable(v) else copy.deepcopy(v)) for k, v in SHADOW.items()}
    specs_live, specs_before = {}, {}
    shared_F, shared_F_before, shared_S = {}, {}, {}
    results, calls, mutations = [], [], []

    def live_spec(js):
        key = json.dumps(js, sort_keys=True)
        if key not in specs_live:
            specs_live[key] = copy.deepcopy(js)       # str, or a fresh mutable list / dict
            specs_before[key] = copy.deepcopy(js)
        return key, specs_live[key]

    for i, op in enumerate(ops):
        S = set()
        shadow = op[-1] == "shadow"
        if shadow:
            op = op[:-1]
        CALL_CTX = SHADOW if shadow else CTX
        rng_before = _rng_state()
        try:
            kind = op[0]
            if kind == "mm":
                _, sp = live_spec(op[1])
                res = model_matrix(sp, D[op[2]], output=op[3], context=CALL_CTX, drop_rows=S)
            elif kind == "Fmm":
                key, sp = live_spec(op[1])
                if key not in shared_F:
                    shared_F[key] = Formula(sp)
                    shared_F_before[key] = _formula_state(shared_F[key])
                res = shared_F[key].get_model_matrix(D[op[2]], output=op[3], context=CALL_CTX, drop_rows=S)
            elif kind == "uspec":
                key, sp = live_spec(op[1])
                if (key, op[3]) not in shared_S:
                    shared_S[(key, op[3])] = ModelSpec.from_spec(sp, output=op[3])
                    fkey = "ModelSpec.from_spec(" + key + ", output=" + op[3] + ").formula"
                    held = shared_S[(key, op[3])]
                    shared_F[fkey] = held.formula if hasattr(held, "formula") else held._map(lambda ms: ms.formula)
                    shared_F_before[fkey] = _formula_state(shared_F[fkey])
                res = shared_S[(key, op[3])].get_model_matrix(D[op[2]], context=CALL_CTX, drop_rows=S)
            elif kind == "reuse":
                prev = results[op[1]]
                if isinstance(prev, BaseException):
                    raise RuntimeError("SKIP: the call this one depends on raised")
                res = prev.model_spec.get_model_matrix(D[op[2]], context=CALL_CTX, drop_rows=S)
            elif kind == "joint":
                # the specs obtained from earlier calls combined in ONE ModelSpecs and built jointly
                prevs = [results[k] for k in op[1]]
                if any(isinstance(pv, BaseException) for pv in prevs):
                    raise RuntimeError("SKIP: the call this one depends on raised")
                from formulaic import ModelSpecs

                joint = ModelSpecs(**{"p%d" % j: pv.model_spec for j, pv in enumerate(prevs)})
                res = joint.get_model_matrix(D[op[2]], context=CALL_CTX, drop_rows=S)
            elif kind == "mm_of":
                prev = results[op[1]]
                if isinstance(prev, BaseException):
                    raise RuntimeError("SKIP: the call this one depends on raised")
                res = model_matrix(prev, D[op[2]], context=CALL_CTX, drop_rows=S)
            else:
                raise SystemError(f"driver bug: unknown op {op!r}")
            results.append(res)
            calls.append(digest(res, S))
        except SystemError:
            raise
        except Exception as e:
            results.append(e)
            calls.append(_exc_digest(e))
        # a build must not consume (or reseed) the process-wide random streams
        rng_after = _rng_state()
        if rng_after != rng_before:
            which = "numpy.random" if rng_after[:5] != rng_before[:5] else "random"
            mutations.append({"what": "rng", "after_call": i, "object": which, "detail": f"global {which} state changed during the call"})
        # inputs must be untouched after every call
        for name in D:
            d = _frames_equal(D[name], D_before[name])
            if d is not None:
                mutations.append({"what": "data", "after_call": i, "object": name, "detail": d})
                D[name] = copy.deepcopy(D_before[name])
        d = _ctx_equal(CTX, CTX_before)
        if d is not None:
            mutations.append({"what": "context", "after_call": i, "object": "context", "detail": d})
            CTX = make_context()
        d = _ctx_equal(SHADOW, SHADOW_before)
        if d is not None:
            mutations.append({"what": "context", "after_call": i, "object": "context (shadowing)", "detail": d})
            SHADOW = make_shadow_context()
        for key in specs_live:
            if specs_live[key] != specs_before[key] or type(specs_live[key]) is not type(specs_before[key]):
                mutations.append({"what": "formula", "after_call": i, "object": key, "detail": f"spec object now {specs_live[key]!r}"})
                specs_live[key] = copy.deepcopy(specs_before[key])
        for key in shared_F:
            now = _formula_state(shared_F[key])
            if now != shared_F_before[key]:
                changed = [(b4, nw) for b4, nw in zip(shared_F_before[key], now) if b4 != nw] or [(shared_F_before[key], now)]
                mutations.append({"what": "formula", "after_call": i, "object": key if key.startswith("ModelSpec") else "Formula(" + key + ")",
                                  "detail": f"{changed[0][0]} -> {changed[0][1]}"[:600]})
                shared_F_before[key] = now
    return {"calls": calls, "mutations": mutations}


def run_in_child(ops):
    """run_history in a forked child of the current process (state = whatever this process has
    done so far; the zygote and the repro programs have only imported the libraries)."""
    r, w = os.pipe()
    pid = os.fork()
    if pid == 0:
        os.close(r)
        try:
            out = run_history(ops)
        except BaseException:
            out = {"driver_error": traceback.format_exc()[-2000:]}
        with os.fdopen(w, "w") as fh:
            fh.write(json.dumps(out))
        os._exit(0)
    os.close(w)
    with os.fdopen(r) as fh:
        data = fh.read()
    os.waitpid(pid, 0)
    return json.loads(data) if data else {"driver_error": "child produced no output"}


def zygote_main():
    """stdin: one JSON history per line; stdout: one JSON result per line (same order).  Each history
    runs in a forked child of this process, which has done nothing but import the libraries."""
    for line in sys.stdin:
        line = line.strip()
        if not line:
            continue
        sys.stdout.write(json.dumps(run_in_child(json.loads(line))) + "\n")
        sys.stdout.flush()
