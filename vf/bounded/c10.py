"""C10 bounded stand-in: ModelSpec metadata indexes the generated columns truthfully.

Ground truth for "the columns of term k" is obtained WITHOUT the metadata under test: the formula is
re-materialized on its term prefixes (terms[:k], ordering "none"); term k owns the columns that appear
when it is added (rank reduction is greedy in term order, so prefixes are stable; if the prefix labels
are not a prefix of the full labels the oracle is declared unavailable for that case and only the
oracle-free laws are checked). Every accessor is then compared with a recomputation from `mm.columns`
/ these offsets, and `subset()` is compared column-by-column (labels and values) with the parent.
"""
from __future__ import annotations

from vf.bounded import _meta_guard as _g  # noqa: E402

import hashlib
import itertools
import random
import re
import warnings
from concurrent.futures import ProcessPoolExecutor

MAX_REPORT = 5

DATA_SRC = {
    "d8": (
        "pd.DataFrame({'x': [1., 2, 3, 4, 5, 6, 7, 8], 'z': [2., 1, 0, 1, 2, 3, 1, 0], 'w': [0.5, 1.5, 2.5, 0, 1, 2, 3, 4], "
        "'my col': [3., 1, 4, 1, 5, 9, 2, 6], 'A': pd.Categorical(list('cabcabca')), 'B': pd.Categorical(list('uvuvvuuv')), "
        "'U': pd.Categorical(['k'] * 8)})"
    ),
    "d12": (
        "pd.DataFrame({'x': [0.5, 2, 1, 7, 3, 8, 2, 9, 4, 6, 5, 1], 'z': [1., 3, 2, 5, 1, 2, 4, 3, 2, 2, 0, 1], "
        "'w': [4., 1, 3, 0, 2, 6, 5, 7, 8, 9, 1, 2], 'my col': [1., 0, 2, 0, 3, 0, 4, 0, 5, 0, 6, 1], "
        "'A': pd.Categorical(list('dbcadbcadbca'), categories=['d', 'a', 'c', 'b']), 'B': pd.Categorical(list('pqrpqrpqrqqp')), "
        "'U': pd.Categorical(['only'] * 12)}, index=range(100, 112))"
    ),
}

NUMERIC = ["x", "z", "w", "`my col`"]
CATEG = ["A", "B", "U"]
MULTI = ["poly(x, 3)", "poly(z, 2)", "bs(w, df=4)", "C(A, contr.sum)", "C(B)", "C(A, contr.helmert)"]
SCALAR_FN = ["center(x)", "scale(z)", "I(x ** 2)", "np.log(x + 1)", "I(x * z)", "fn(w)"]


def _fn(v):
    return v * 2

ATOMS = NUMERIC + CATEG + MULTI + SCALAR_FN
DATA_COLUMNS = ["x", "z", "w", "my col", "A", "B", "U"]

PRE = """import warnings; warnings.simplefilter('ignore')
import numpy as np, pandas as pd
from formulaic import Formula, model_matrix
CONTEXT = {{'np': np, 'fn': (lambda v: v * 2)}}  # `fn`: a function living in the caller's context
data = {data}
formula = Formula({spec!r}, _ordering={ordering!r})
mm = formula.get_model_matrix(data, output={output!r}, context=CONTEXT, cluster_by={cluster!r})
ms = mm.model_spec
ncols = mm.shape[1]
terms = {{str(t): t for t in ms.terms}}
"""


class Acc:
    def __init__(self):
        self.n = 0
        self.keys = set()
        self.samples = []
        self.fails = []
        self.counts = {}
        self.stats = {}

    def stat(self, k):
        self.stats[k] = self.stats.get(k, 0) + 1

    def case(self, key, nontrivial, sample=None):
        self.n += 1
        if nontrivial:
            self.keys.add(hashlib.blake2b(repr(key).encode(), digest_size=8).digest())
        if sample is not None and len(self.samples) < 3:
            self.samples.append(sample)

    def fail(self, clause, cls, witness, detail):
        k = (clause, cls)
        self.counts[k] = self.counts.get(k, 0) + 1
        if self.counts[k] <= MAX_REPORT:
            self.fails.append((clause, dict(witness, cls=cls), detail))


def sl_positions(sl, ncols):
    return list(range(*sl.indices(ncols)))


def labels_of(mm, output):
    return [str(c) for c in mm.columns] if output == "pandas" else None


def dense(mm):
    import numpy as np

    if hasattr(mm, "toarray"):
        return np.asarray(mm.toarray(), dtype=float)
    return np.asarray(mm, dtype=float)


def term_pieces(term):
    return [repr(f) for f in term.factors]


def degree(term):
    return sum(1 for f in term.factors if f.eval_method.value != "literal")


def names_in_expr(expr):
    """Identifiers referenced by a factor expression (independent of formulaic's own extraction)."""
    import ast
    import re

    if re.fullmatch(r"[A-Za-z_][A-Za-z_0-9]*", expr) or " " in expr and "(" not in expr and "+" not in expr and "*" not in expr:
        return {expr}
    try:
        tree = ast.parse(expr.replace("`my col`", "my_col_"), mode="eval")
    except SyntaxError:
        return {expr}
    return {("my col" if n.id == "my_col_" else n.id) for n in ast.walk(tree) if isinstance(n, ast.Name)}


def candidate_orders(terms, cluster):
    """Possible column-generation orders of the terms (objects of `terms`, re-ordered)."""
    if cluster == "none":
        return [list(terms)]

    def is_cat(expr):
        return expr in ("A", "B", "U") or expr.startswith("C(")

    out = []
    for keyfn in (frozenset, tuple):
        groups = {}
        for t in terms:
            nums = keyfn(f.expr for f in t.factors if f.eval_method.value != "literal" and not is_cat(f.expr))
            groups.setdefault(nums, []).append(t)
        cand = [t for g in groups.values() for t in g]
        if all([id(t) for t in cand] != [id(t) for t in c] for c in out):
            out.append(cand)
    return out


def check_case(acc, case):
    """case: dict(spec=str|list, ordering, data key, output)."""
    import numpy as np
    import pandas as pd  # noqa: F401  (used by eval of DATA_SRC)
    from formulaic import Formula
    from formulaic.formula import SimpleFormula

    spec, ordering, dkey, output = case["spec"], case["ordering"], case["data"], case["output"]
    cluster = case.get("cluster", "none")
    data = eval(DATA_SRC[dkey], {"pd": pd})
    pre = PRE.format(data=DATA_SRC[dkey], spec=spec, ordering=ordering, output=output, cluster=cluster)
    base = {"formula": spec, "ordering": ordering, "data": dkey, "output": output, "cluster_by": cluster}
    ctx = {"np": np, "fn": _fn}

    def W(assertion):
        return dict(base, code=pre + assertion + "\n")

    # ---- materialize (failures here belong to other properties; a C10 case needs a materialized spec)
    try:
        formula = Formula(spec, _ordering=ordering)
        mm = formula.get_model_matrix(data, output=output, context=ctx, cluster_by=cluster)
    except Exception as e:
        acc.stat(f"not-materializable:{type(e).__name__}")
        return
    ms = mm.model_spec
    terms = list(ms.terms)
    keys = [tuple(sorted(term_pieces(t))) for t in terms]
    dup = len(set(keys)) != len(keys)
    sfx = ":duplicate-terms" if dup else ""
    ncols = mm.shape[1]
    unsorted_any = any(term_pieces(t) != sorted(term_pieces(t)) for t in terms)
    multi_any = any(a in str(spec) for a in MULTI)
    acc.case((repr(spec), ordering, dkey, output, cluster), nontrivial=len(terms) >= 2 and ncols >= 2,
             sample={"formula": spec, "ordering": ordering, "output": output, "columns": ncols, "cluster_by": cluster})

    def attempt(clause, cls, assertion, fn):
        try:
            return True, fn()
        except Exception as e:  # outcome of the code under test
            acc.fail(clause, f"{cls}:raises-{type(e).__name__}{sfx}", W(assertion), f"{type(e).__name__}: {e}")
            return False, None

    # ---- 1. reported names vs actual labels
    ok, names = attempt("C10.names.labels", "accessor", "ms.column_names", lambda: list(ms.column_names))
    if not ok:
        return
    labels = labels_of(mm, output)
    if labels is not None and labels != names:
        acc.fail("C10.names.labels", "pandas-labels" + sfx, W("assert list(mm.columns) == list(ms.column_names), (list(mm.columns), ms.column_names)"),
                 f"labels {labels} vs column_names {names}")
    if len(names) != ncols:
        acc.fail("C10.names.labels", "count" + sfx, W("assert len(ms.column_names) == mm.shape[1], (ms.column_names, mm.shape)"),
                 f"{len(names)} names for {ncols} columns")
        return
    unique_names = len(set(names)) == len(names)

    # ---- 2. column lookups
    ok, ci = attempt("C10.columns.indices", "column_indices", "ms.column_indices", lambda: dict(ms.column_indices))
    if ok and unique_names and ci != {n: i for i, n in enumerate(names)}:
        acc.fail("C10.columns.indices", "column_indices" + sfx, W("assert ms.column_indices == {n: i for i, n in enumerate(ms.column_names)}"), f"{ci}")
    if unique_names and names:
        pick = [names[-1], names[0], names[len(names) // 2]]
        want = [names.index(p) for p in pick]
        ok, got = attempt("C10.columns.indices", "get_column_indices", f"ms.get_column_indices({pick!r})", lambda: ms.get_column_indices(pick))
        if ok and list(got) != want:
            acc.fail("C10.columns.indices", "get_column_indices" + sfx, W(f"assert ms.get_column_indices({pick!r}) == {want!r}"), f"{got} != {want}")
        ok, got = attempt("C10.columns.indices", "get_column_indices", f"ms.get_column_indices({pick[0]!r})", lambda: ms.get_column_indices(pick[0]))
        if ok and list(got) != want[:1]:
            acc.fail("C10.columns.indices", "get_column_indices-str" + sfx, W(f"assert ms.get_column_indices({pick[0]!r}) == {want[:1]!r}"), f"{got}")
        for i, n in enumerate(names):
            ok, sl = attempt("C10.lookup.column-name", "get_slice", f"ms.get_slice({n!r})", lambda: ms.get_slice(n))
            # a label may coincide with a term's printed form (e.g. `x`); then the term's positions are returned, which
            # for such a term are the same single column -- anything else is judged against the column position.
            if ok and sl_positions(sl, ncols) != [i] and not any(str(t) == n for t in terms):
                acc.fail("C10.lookup.column-name", "get_slice" + sfx, W(f"assert list(range(*ms.get_slice({n!r}).indices(ncols))) == [{i}]"), f"{sl} for column {i}")
        for i in {0, ncols - 1}:
            ok, sl = attempt("C10.lookup.int", "get_slice", f"ms.get_slice({i})", lambda: ms.get_slice(i))
            if ok and sl_positions(sl, ncols) != [i]:
                acc.fail("C10.lookup.int", "get_slice" + sfx, W(f"assert list(range(*ms.get_slice({i}).indices(ncols))) == [{i}]"), f"{sl}")

    # ---- 3. per-term ranges: contiguous, disjoint, in term order, covering
    ok, ti = attempt("C10.terms.partition", "term_indices", "ms.term_indices", lambda: ms.term_indices)
    if not ok:
        return
    ti_list = [(k, list(v)) for k, v in ti.items()]
    flat = [i for _, v in ti_list for i in v]
    part_src = ("flat = [i for v in ms.term_indices.values() for i in v]\n"
                "assert flat == list(range(ncols)), ('not a partition of the columns in order', flat, ncols)\n"
                "assert [str(t) for t in ms.term_indices] == [str(t) for t in ms.terms], 'term order'")
    if flat != list(range(ncols)):
        acc.fail("C10.terms.partition", "cover-contiguous-disjoint" + sfx, W(part_src), f"term_indices {[(str(k), v) for k, v in ti_list]} over {ncols} columns")
    # ---- ground truth from prefix materializations (pandas labels), in the order the columns are generated:
    # formula order, or -- with cluster_by="numerical_factors" -- terms grouped by their numerical factors
    # (first appearance); the candidate whose prefixes reproduce the full labels is the generation order.
    off, gen = None, None
    if not dup:
        try:
            full = [str(c) for c in formula.get_model_matrix(data, output="pandas", context=ctx, cluster_by=cluster).columns]
            for cand in candidate_orders(terms, cluster):
                off = [0]
                for k in range(1, len(cand) + 1):
                    cols = [str(c) for c in SimpleFormula(cand[:k], _ordering="none").get_model_matrix(
                        data, output="pandas", context=ctx, cluster_by=cluster).columns]
                    if cols != full[: len(cols)] or len(cols) < off[-1]:
                        off = None
                        break
                    off.append(len(cols))
                if off is not None and (off[-1] != len(full) or full != names):
                    off = None
                if off is not None:
                    gen = cand
                    break
        except Exception:
            off = None
    want_order = gen if gen is not None else (terms if cluster == "none" else None)
    # (the position of a term that owns no column is not observable from the labels, so only the relative order of
    # the column-owning terms is judged; every term must still be a key)
    nonempty = {str(k) for k, v in ti_list if v}
    got_order = [str(k) for k, v in ti_list if v]
    if not dup and want_order is not None and (
        got_order != [str(t) for t in want_order if str(t) in nonempty] or {str(k) for k, _ in ti_list} != {str(t) for t in want_order}
    ):
        acc.fail("C10.terms.partition", "term-order" + sfx, W(f"assert [str(t) for t, v in ms.term_indices.items() if v] == {[str(t) for t in (want_order or []) if str(t) in nonempty]!r}  # column-owning terms in the order their columns are generated"),
                 f"{[str(k) for k, _ in ti_list]} vs generation order {[str(t) for t in want_order]}")
    if gen is not None and [str(t) for t in gen] != [str(t) for t in terms]:
        acc.case((repr(spec), ordering, dkey, output, "clustering-permutes-terms"), True)
    truth = {}
    if off is not None:
        for k, t in enumerate(gen):
            truth[id(t)] = list(range(off[k], off[k + 1]))
            ok, got = attempt("C10.terms.indices", "term_indices[Term]", f"ms.term_indices[terms[{str(t)!r}]]", lambda: list(ti[t]))
            if ok and got != truth[id(t)]:
                acc.fail("C10.terms.indices", "vs-prefix-materialization" + sfx,
                         W(f"assert ms.term_indices[terms[{str(t)!r}]] == {truth[id(t)]!r}  # columns that appear when the term is added to the preceding terms"),
                         f"term {t}: {got} but adding it to the preceding terms creates columns {truth[id(t)]}")
    else:
        if dup:
            return  # duplicate terms: term-keyed accessors are not well defined; the partition failure is reported above
        acc.stat("prefix-oracle-unavailable")
        for t in terms:
            if t in ti:
                truth[id(t)] = list(ti[t])
    if any(len(v) == 0 for v in truth.values()):
        acc.case((repr(spec), ordering, dkey, output, "zero-column-term"), True)
    if unsorted_any:
        acc.case((repr(spec), ordering, dkey, output, "unsorted-interaction"), True)
    if multi_any:
        acc.case((repr(spec), ordering, dkey, output, "multi-column-transform"), True)

    # ---- 4/5. slices and lookups by Term / printed form
    ok, ts = attempt("C10.terms.slices", "term_slices", "ms.term_slices", lambda: ms.term_slices)
    for t in terms:
        if id(t) not in truth:
            continue
        want = truth[id(t)]
        s = str(t)
        sorted_cls = "sorted-factors" if term_pieces(t) == sorted(term_pieces(t)) else "unsorted-factors"
        if ok:
            try:
                got = sl_positions(ts[t], ncols)
                if got != want:
                    acc.fail("C10.terms.slices", "term_slices" + sfx, W(f"assert list(range(*ms.term_slices[terms[{s!r}]].indices(ncols))) == {want!r}"), f"{ts[t]} selects {got}, term owns {want}")
            except Exception as e:  # outcome of the code under test
                acc.fail("C10.terms.slices", f"raises-{type(e).__name__}" + sfx, W(f"ms.term_slices[terms[{s!r}]]"), f"{type(e).__name__}: {e}")
        ok2, sl = attempt("C10.lookup.term-object", "get_slice", f"ms.get_slice(terms[{s!r}])", lambda: ms.get_slice(t))
        if ok2 and sl_positions(sl, ncols) != want:
            acc.fail("C10.lookup.term-object", "get_slice" + sfx, W(f"assert list(range(*ms.get_slice(terms[{s!r}]).indices(ncols))) == {want!r}"), f"{sl} vs {want}")
        # printed form
        for what, fn, asrt in (
            ("get_slice", lambda: sl_positions(ms.get_slice(s), ncols), f"assert list(range(*ms.get_slice({s!r}).indices(ncols))) == {want!r}"),
            ("term_indices", lambda: list(ms.term_indices[s]), f"assert ms.term_indices[{s!r}] == {want!r}"),
            ("term_slices", lambda: sl_positions(ms.term_slices[s], ncols), f"assert list(range(*ms.term_slices[{s!r}].indices(ncols))) == {want!r}"),
        ):
            try:
                got = fn()
                if got != want:
                    acc.fail("C10.lookup.printed-form", f"{what}:{sorted_cls}:wrong-positions" + sfx, W(asrt), f"{what}({s!r}) -> {got}, term owns {want}")
            except (KeyError, ValueError) as e:  # outcome of the code under test
                acc.fail("C10.lookup.printed-form", f"{what}:{sorted_cls}:{type(e).__name__}" + sfx, W(asrt), f"{what}({s!r}) raised {type(e).__name__}: {e}")
            except Exception as e:  # outcome of the code under test
                acc.fail("C10.lookup.printed-form", f"{what}:{sorted_cls}:raises-{type(e).__name__}" + sfx, W(asrt), f"{type(e).__name__}: {e}")

    # ---- 6. get_term_indices for term selections
    rng = random.Random(repr((spec, ordering, dkey)))
    sels = [list(reversed(terms))] + [[t] for t in terms[:3]]
    if len(terms) >= 3:
        sels.append(rng.sample(terms, 2))
    for sel in sels:
        names_sel = [str(t) for t in sel]
        want_none = [i for t in sel for i in truth[id(t)]]
        srt = sorted(sel, key=degree)  # default ordering: by degree, then as written (stable)
        want_deg = [i for t in srt for i in truth[id(t)]]
        lookup = "[terms[n] for n in " + repr(names_sel) + "]"
        ok, got = attempt("C10.terms.get_term_indices", "ordering-none", f"ms.get_term_indices({lookup}, ordering='none')", lambda: ms.get_term_indices(list(sel), ordering="none"))
        if ok and list(got) != want_none:
            acc.fail("C10.terms.get_term_indices", "ordering-none", W(f"assert ms.get_term_indices({lookup}, ordering='none') == {want_none!r}"), f"{got} != {want_none}")
        ok, got = attempt("C10.terms.get_term_indices", "ordering-default", f"ms.get_term_indices({lookup})", lambda: ms.get_term_indices(list(sel)))
        if ok and list(got) != want_deg:
            acc.fail("C10.terms.get_term_indices", "ordering-default", W(f"assert ms.get_term_indices({lookup}) == {want_deg!r}"), f"{got} != {want_deg}")
    # a term that is not part of the spec must be refused
    from formulaic.parser.types import Factor, Term

    ghost = Term([Factor("not_a_column", eval_method="lookup")])
    try:
        got = ms.get_term_indices([ghost])
        acc.fail("C10.terms.get_term_indices", "foreign-term-accepted", W("from formulaic.parser.types import Factor, Term\ntry:\n    ms.get_term_indices([Term([Factor('not_a_column', eval_method='lookup')])])\nexcept (ValueError, KeyError):\n    pass\nelse:\n    raise AssertionError('foreign term accepted')"), f"returned {got}")
    except (ValueError, KeyError):
        pass

    # ---- 7. accessors keyed by variables: defined for EVERY entry of spec.variables (values and callables alike) and
    # equal to a recomputation from the matrix: the columns of exactly the terms whose factors mention the variable
    def mentions(term, var):
        for f in term.factors:
            if f.eval_method.value == "literal":
                continue
            if f.eval_method.value == "lookup":
                if f.expr == var:
                    return True
            elif re.search(r"(?<![\w.`])" + re.escape(var) + r"(?![\w`])", f.expr.replace(f"`{var}`", var)):
                return True
        return False

    ok, variables = attempt("C10.variables.indices", "variables", "ms.variables", lambda: sorted(str(v) for v in ms.variables))
    ok2, vi = attempt("C10.variables.indices", "variable_indices", "ms.variable_indices", lambda: {str(k): list(v) for k, v in ms.variable_indices.items()})
    if ok and ok2:
        for v in DATA_COLUMNS:  # every data column that some factor reads is a variable of the spec
            if any(mentions(t, v) for t in terms) and v not in variables:
                acc.fail("C10.variables.indices", "data-variable-missing", W(f"assert {v!r} in {{str(x) for x in ms.variables}}"), f"{v} is read by the formula but is no entry of variables {variables}")
            if not any(mentions(t, v) for t in terms) and vi.get(v):
                acc.fail("C10.variables.indices", "unused-variable-listed", W(f"assert not ms.variable_indices.get({v!r})"), f"{v}: {vi.get(v)}")
        ok3, vt = attempt("C10.variables.terms", "variable_terms", "ms.variable_terms", lambda: {str(k): {str(t) for t in ts} for k, ts in ms.variable_terms.items()})
        ok4, tv = attempt("C10.variables.terms", "term_variables", "ms.term_variables", lambda: {str(k): {str(x) for x in vs} for k, vs in ms.term_variables.items()})
        for v in variables:
            using = [t for t in terms if mentions(t, v)]
            want = sorted({i for t in using for i in truth[id(t)]})
            role = "data-variable" if v in DATA_COLUMNS else "callable-or-context-variable"
            if v not in vi:
                acc.fail("C10.variables.indices", f"{role}:undefined", W(f"assert ms.variable_indices[{v!r}] == {want!r}, dict(ms.variable_indices)"),
                         f"`{v}` is an entry of spec.variables but variable_indices has no entry for it ({sorted(vi)})")
            elif vi[v] != want:
                acc.fail("C10.variables.indices", role, W(f"assert ms.variable_indices[{v!r}] == {want!r}, dict(ms.variable_indices)"),
                         f"variable {v}: {vi[v]}, columns of the terms using it: {want}")
            ok5, got = attempt("C10.variables.indices", f"get_variable_indices:{role}", f"ms.get_variable_indices([{v!r}])", lambda: list(ms.get_variable_indices([v])))
            if ok5 and got != want:
                acc.fail("C10.variables.indices", f"get_variable_indices:{role}", W(f"assert ms.get_variable_indices([{v!r}]) == {want!r}"), f"{got} != {want}")
            # (a term that owns no column -- e.g. `x` after `2:x:B` -- has no scoped terms; whether it still counts as
            # "using" the variable is not observable in the matrix and is not judged)
            must = {str(t) for t in using if truth[id(t)]}
            if ok3 and not (must <= (vt.get(v) or set()) <= {str(t) for t in using}):
                acc.fail("C10.variables.terms", f"variable_terms:{role}", W(f"assert set({sorted(must)!r}) <= {{str(t) for t in ms.variable_terms[{v!r}]}} <= set({sorted(str(t) for t in using)!r})"),
                         f"variable_terms[{v!r}] = {vt.get(v)}, terms mentioning it: {sorted(str(t) for t in using)}")
        if ok4:
            for t in terms:
                want_v = {v for v in variables if mentions(t, v)}
                if not truth[id(t)]:
                    continue  # see above: terms without columns are not judged
                if tv.get(str(t)) != want_v:
                    acc.fail("C10.variables.terms", "term_variables", W(f"assert {{str(x) for x in ms.term_variables[terms[{str(t)!r}]]}} == set({sorted(want_v)!r})"),
                             f"term_variables[{t}] = {tv.get(str(t))}, variables its factors mention: {sorted(want_v)}")
        two = [v for v in variables if any(mentions(t, v) for t in terms)][:3]
        if len(two) >= 2:
            want = [i for v in two for i in sorted({i for t in terms if mentions(t, v) for i in truth[id(t)]})]
            ok6, got = attempt("C10.variables.indices", "get_variable_indices", f"ms.get_variable_indices({two!r})", lambda: list(ms.get_variable_indices(two)))
            if ok6 and got != want:
                acc.fail("C10.variables.indices", "get_variable_indices", W(f"assert ms.get_variable_indices({two!r}) == {want!r}"), f"{got} != {want}")

    # ---- 8. subset regenerates exactly the parent's columns for those terms
    parent = dense(mm)
    for sel in sels:
        for ordering_kw in ("none", None):
            order = list(sel) if ordering_kw == "none" else sorted(sel, key=degree)
            idx = [i for t in order for i in truth[id(t)]]
            names_sel = [str(t) for t in sel]
            lookup = "[terms[n] for n in " + repr(names_sel) + "]"
            kw = ", ordering='none'" if ordering_kw == "none" else ""
            asrt = (f"sub = ms.subset({lookup}{kw})\nm2 = sub.get_model_matrix(data, context=CONTEXT)\n"
                    f"idx = {idx!r}\n"
                    "d = lambda m: np.asarray(m.toarray() if hasattr(m, 'toarray') else m, dtype=float)\n"
                    "assert list(sub.column_names) == [ms.column_names[i] for i in idx], (sub.column_names, [ms.column_names[i] for i in idx])\n"
                    "assert d(m2).shape == (d(mm).shape[0], len(idx)) and np.allclose(d(m2), d(mm)[:, idx], rtol=0, atol=1e-12, equal_nan=True)")
            acc.case((repr(spec), ordering, dkey, output, "subset", tuple(names_sel), ordering_kw), len(sel) < len(terms))
            try:
                sub = ms.subset(list(sel), **({"ordering": "none"} if ordering_kw else {}))
                m2 = sub.get_model_matrix(data, context=ctx)
                sub_names = list(sub.column_names)
                vals = dense(m2)
            except Exception as e:  # outcome of the code under test
                acc.fail("C10.subset.columns", f"raises-{type(e).__name__}", W(asrt), f"{type(e).__name__}: {e}")
                continue
            want_names = [names[i] for i in idx]
            if sub_names != want_names or (labels is not None and labels_of(m2, output) != want_names):
                acc.fail("C10.subset.columns", "labels", W(asrt), f"subset columns {sub_names} vs parent's {want_names}")
            elif vals.shape != (parent.shape[0], len(idx)) or not np.allclose(vals, parent[:, idx], rtol=0, atol=1e-12, equal_nan=True):
                acc.fail("C10.subset.columns", "values", W(asrt), f"subset values differ from the parent's columns {idx}")
            else:
                # the subset's own metadata must index the subset matrix
                st = [list(v) for v in sub.term_indices.values()]
                if [i for v in st for i in v] != list(range(len(idx))) or [len(v) for v in st] != [len(truth[id(t)]) for t in order]:
                    acc.fail("C10.subset.metadata", "term_indices", W(asrt + f"\nassert [len(v) for v in sub.term_indices.values()] == {[len(truth[id(t)]) for t in order]!r}"), f"{st}")


# ------------------------------------------------------------------ enumeration
def interaction(rng, k, pool):
    fs = rng.sample(pool, k)
    if rng.random() < 0.15:  # literal numeric multiplier (scaled term)
        fs.insert(rng.randrange(len(fs) + 1), rng.choice(["2", "3", "0.5"]))
    return ":".join(fs)


def term_pool():
    """Fixed pool for the exhaustive part (includes unsorted interactions, a single-level factor, multi-column transforms)."""
    return ["x", "A", "U", "z:x", "B:A", "x:A", "A:B", "poly(x, 3)", "bs(w, df=4)", "C(A, contr.sum)", "poly(z, 2):A",
            "`my col`:x", "x:U", "C(B):x", "center(x)", "w:z:x", "C(A, contr.helmert):B", "np.log(x + 1)",
            "3:w", "2:x:B", "z:A", "fn(z)", "I(x * z):A"]


def worker(args):
    cases = args
    acc = Acc()
    with warnings.catch_warnings():
        warnings.simplefilter("ignore")
        for case in cases:
            _g.guard(acc.fail, check_case, acc, case)
    return acc.n, acc.keys, acc.samples, acc.fails, acc.stats


def _chunks(xs, n):
    return [xs[i::n] for i in range(n)]


def _collect(b, results, total, stats):
    for n_eval, keys, samples, fails, st in results:
        b.add_counts(n_eval, keys, samples)
        for k, v in st.items():
            stats[k] = stats.get(k, 0) + v
        for clause, witness, detail in fails:
            k = (clause, witness["cls"])
            total[k] = total.get(k, 0) + 1
            if total[k] <= MAX_REPORT:
                b.fail(clause, witness, detail)


def run_bounded(ctx):
    _g.begin("C10", ctx)
    rng = random.Random(ctx.seed)
    total, stats = {}, {}
    pool = term_pool()
    outputs = ["pandas", "numpy", "sparse"]
    ex_cases = []
    i = 0
    for k in (1, 2):
        for combo in itertools.permutations(pool, k) if k == 2 else [(p,) for p in pool]:
            if k == 2 and not ctx.thorough and (hash_str(combo) % 3):
                continue  # quick tier: a deterministic third of the ordered pairs
            for icpt in ("", " - 1"):
                spec = " + ".join(combo) + icpt
                for ordering in ("degree", "none"):
                    if ordering == "none" and k == 1:
                        continue
                    i += 1
                    outs = outputs if ctx.thorough else [outputs[i % 3]]
                    # term clustering re-orders the generated columns (the intercept joins the categorical-only cluster)
                    clusters = ("none", "numerical_factors") if ctx.thorough or i % 3 == 0 else ("none",)
                    for cluster in clusters:
                        for out in outs:
                            ex_cases.append({"spec": spec, "ordering": ordering, "data": ("d8", "d12")[i % 2], "output": out, "cluster": cluster})
    with ctx.bounded(
        "modelspec-metadata-small-formulas",
        rule="every formula of 1 term and every ordered pair of terms (thorough: all; quick: a fixed third) from a pool of 23 terms "
             "(unsorted interactions, single-level factor => zero-column terms, poly/bs/C(contr) multi-column transforms, quoted name, literal multipliers `3:w`) "
             "x intercept on/off x ordering degree/none x cluster_by none/numerical_factors (quick: every third) x 2 data frames x outputs pandas/numpy/sparse (quick: one output per formula, "
             "rotating); evaluations also count each subset() regeneration; extra distinct keys mark cases with a zero-column term, "
             "an unsorted interaction or a multi-column transform; non-trivial = >= 2 terms and >= 2 columns",
        exhaustive=bool(ctx.thorough),
        bound="terms <= 2 of 23 (+ intercept); rows 8/12",
    ) as b:
        with ProcessPoolExecutor(16) as ex:
            _collect(b, _g.safe_map(worker, _chunks(ex_cases, 64)), total, stats)

    rnd_cases = []
    fixed = [
        ("A + B:A + x:A", "degree"), ("A:B + A", "none"), ("(x + z + A)**2", "degree"), ("C(U) + x + A:U", "degree"),
        ("x + poly(x, 3) + bs(z, df=4)", "degree"), ("`my col`:x + x:`my col`:A + z:x + B:A + poly(x, 2):A + np.log(x + 1)", "degree"),
        ("B:A + A + B", "none"), ("x:A + A:x:B + B", "none"), ("U:A + U + A", "none"), ("0 + A + B", "degree"),
        (["x", "x", "z"], "degree"), (["A", "x", "A"], "none"), (["z:x", "x:z"], "none"),
    ]
    for spec, ordering in fixed:
        for out in outputs:
            rnd_cases.append({"spec": spec, "ordering": ordering, "data": "d8", "output": out})
    clustered = ["x + z + x:A + z:A", "x + z + A + x:A + z:B + x:z", "x + A", "poly(x, 3) + z + A + poly(x, 3):A + z:B",
                 "z:x + A:x + x:z:B + B - 1", "3:w + x + 2:x:A + A", "center(x) + B + w + center(x):B + w:A"]
    for spec in clustered:
        for cluster in ("numerical_factors", "none"):
            for out in outputs:
                rnd_cases.append({"spec": spec, "ordering": "degree", "data": "d8", "output": out, "cluster": cluster})
    for j in range(260 if ctx.thorough else 45):
        nt = rng.randint(3, 6)
        ts = []
        while len(ts) < nt:
            k = rng.choice([1, 1, 2, 2, 3])
            t = interaction(rng, k, ATOMS)
            if ("poly(x" in t and "bs(" in t) or t.count("C(A") > 1:
                continue
            ts.append(t)
        spec = " + ".join(ts) + rng.choice(["", "", " - 1"])
        ordering = rng.choice(["degree", "degree", "none", "sort"])
        cluster = rng.choice(["none", "none", "numerical_factors"])
        for out in (outputs if ctx.thorough or j % 3 == 0 else [outputs[j % 3]]):
            rnd_cases.append({"spec": spec, "ordering": ordering, "data": rng.choice(["d8", "d12"]), "output": out, "cluster": cluster})
    with ctx.bounded(
        "modelspec-metadata-random-formulas",
        rule="13 hand-written formulas (patsy-style nesting, list specs with repeated terms, `**`), 7 formulas whose terms are permuted "
             "by cluster_by=numerical_factors (each with and without clustering), and seeded random formulas of 3-6 "
             "terms (1-3 way interactions in random factor order over 17 atoms: numeric, quoted, categorical incl. single level, "
             "poly/bs/C(contr)/center/scale/I()/np.log; 15% carry a literal multiplier) x ordering degree/none/sort x cluster_by x data x outputs; same checks",
        exhaustive=False,
        bound="terms <= 6, interaction order <= 3",
    ) as b:
        with ProcessPoolExecutor(16) as ex:
            _collect(b, _g.safe_map(worker, _chunks(rnd_cases, 64)), total, stats)
    ctx.notes.append(f"C10 bounded: generator statistics {dict(sorted(stats.items()))}")
    ctx.assume(
        "C10-truth: a term's columns are those that appear when the term is appended to the preceding terms (prefix "
        "re-materialization with pandas output); cases where prefix labels are not a prefix of the full labels fall back to the "
        "oracle-free laws (partition, accessor agreement, subset == parent columns)",
        "C10-labels: numpy and sparse outputs carry no labels; only the column count is compared there",
        "C10-variables: judged for every entry of spec.variables (values, callables, dotted names); a term 'uses' a variable iff the "
        "name occurs as a token in one of its factor expressions (a lookup factor uses exactly its own name)",
        "C10-specs: get_term_indices/subset are driven with lists of Term objects (string specs re-enter the formula parser, which adds "
        "an intercept to a bare string and cannot read the printed form of a quoted name)",
        "A-float: subset values compared with atol 1e-12 (identical code path and state; stateful transforms reuse the parent's state)",
    )


def hash_str(x):
    return int.from_bytes(hashlib.blake2b(repr(x).encode(), digest_size=4).digest(), "big")
