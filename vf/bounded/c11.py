"""C11 bounded stand-in: built-in contrast codings for n = 1..12 levels x every option.

Oracles (written from the literature, not from the implementation):
  contr.treatment(n, base)   column j = e_{j + [j >= base]}                       (R stats)
  contr.SAS(n)               = contr.treatment(n, base = n)                       (R stats)
  contr.sum(n)               I_{n-1} over a row of -1                             (R stats)
  contr.helmert(n)           column j: rows 0..j = -1, row j+1 = j+1              (R stats) [reverse=True]
  forward Helmert            column j: row j = n-j-1, rows > j = -1               (UCLA "Helmert coding") [reverse=False]
  scaled variants            column divided by its positive pivot+1 so that the regression coefficient is
                             "level - mean(previous|subsequent levels)"          (UCLA scaled forms; class docstring)
  MASS::contr.sdif(n)        column k: rows < k+1 = -(n-k-1)/n, rest (k+1)/n      [backward=True]; forward = negated
  contr.poly(n, scores)      Gram-Schmidt of 1, y, y^2.. (y centred scores), unit norm, positive leading coeff.
Exact rationals (fractions.Fraction) everywhere except the final normalisation of poly.
"""
from __future__ import annotations

from vf.bounded import _meta_guard as _g  # noqa: E402

import math
import random
import warnings
from concurrent.futures import ProcessPoolExecutor
from fractions import Fraction as F

import numpy as np

TOL_RAT = 1e-12   # rational entries: the implementation may compute k/n - 1 in floating point
TOL_INV = 1e-9    # numpy.linalg.inv / sparse inv of a well-conditioned n<=12 matrix
TOL_POLY = 1e-8   # three-term recurrence vs exact Gram-Schmidt, degree <= 11
MAX_REPORT = 4

STR_LABELS = list("abcdefghijkl")


# ------------------------------------------------------------------ oracles
def cf_treatment(n, b):
    return [[F(int(i == j + (1 if j >= b else 0))) for j in range(n - 1)] for i in range(n)]


def cf_sum(n):
    return [[F(-1) if i == n - 1 else F(int(i == j)) for j in range(n - 1)] for i in range(n)]


def cf_helmert(n, reverse, scale):
    m = [[F(0)] * (n - 1) for _ in range(n)]
    for j in range(n - 1):
        if reverse:  # R: level j+1 against the mean of the levels before it
            for i in range(j + 1):
                m[i][j] = F(-1)
            m[j + 1][j] = F(j + 1)
            d = j + 2
        else:  # level j against the mean of the levels after it
            m[j][j] = F(n - j - 1)
            for i in range(j + 1, n):
                m[i][j] = F(-1)
            d = n - j
        if scale:
            for i in range(n):
                m[i][j] /= d
    return m


def cf_diff(n, backward):
    m = [[(F(-(n - k - 1), n) if i <= k else F(k + 1, n)) for k in range(n - 1)] for i in range(n)]
    if not backward:
        m = [[-v for v in row] for row in m]
    return m


def cf_poly(n, scores):
    """Exact Gram-Schmidt; returns float matrix n x (n-1) (unit columns) and exact unnormalised columns."""
    s = [F(x) for x in (scores if scores is not None else range(1, n + 1))]
    mean = sum(s) / n
    y = [x - mean for x in s]
    basis = [[F(1)] * n]
    for k in range(1, n):
        v = [yy ** k for yy in y]
        for u in basis:
            uu = sum(a * a for a in u)
            c = sum(a * b for a, b in zip(v, u)) / uu
            v = [a - c * b for a, b in zip(v, u)]
        basis.append(v)
    out = np.zeros((n, n - 1))
    for k in range(1, n):
        nrm = math.sqrt(sum(a * a for a in basis[k]))
        for i in range(n):
            out[i, k - 1] = float(basis[k][i]) / nrm
    return out


def finv(m):
    """Exact inverse (Gauss-Jordan over Fractions); None if singular."""
    n = len(m)
    a = [list(map(F, row)) + [F(int(i == j)) for j in range(n)] for i, row in enumerate(m)]
    for c in range(n):
        p = next((r for r in range(c, n) if a[r][c] != 0), None)
        if p is None:
            return None
        a[c], a[p] = a[p], a[c]
        pv = a[c][c]
        a[c] = [v / pv for v in a[c]]
        for r in range(n):
            if r != c and a[r][c] != 0:
                f = a[r][c]
                a[r] = [v - f * w for v, w in zip(a[r], a[c])]
    return [row[n:] for row in a]


def frank(m, ncols):
    a = [[F(float(v)) for v in row] for row in m]
    rank = 0
    rows = len(a)
    for c in range(ncols):
        p = next((r for r in range(rank, rows) if a[r][c] != 0), None)
        if p is None:
            continue
        a[rank], a[p] = a[p], a[rank]
        for r in range(rank + 1, rows):
            if a[r][c] != 0:
                f = a[r][c] / a[rank][c]
                a[r] = [v - f * w for v, w in zip(a[r], a[rank])]
        rank += 1
    return rank


def tofloat(m, n, k):
    return np.array([[float(v) for v in row] for row in m], dtype=float).reshape(n, k)


# ------------------------------------------------------------------ configurations
def poly_scores(n):
    """Score vectors (moderate spread so that degree n-1 stays well conditioned)."""
    gaps = [1, 2, 1, 3, 1, 1, 2, 1, 3, 2, 1, 1]
    cum, s = [], 0
    for g in gaps[:n]:
        s += g
        cum.append(s)
    frac = [(-3 + i) * 0.5 + (0.25 if i % 3 == 0 else 0.0) for i in range(n)]
    # scores are attached to the levels in LEVEL order; they need not be increasing
    perm = list(range(n))
    random.Random(1000 + n).shuffle(perm)
    decreasing = list(range(n, 0, -1))
    shuffled = [perm[i] + 1 for i in range(n)]
    shuffled_uneven = [cum[perm[n - 1 - i]] for i in range(n)]
    frac_decreasing = list(reversed(frac))
    return [None, list(range(1, n + 1)), cum, frac, tuple(10 * (i + 1) for i in range(n)),
            decreasing, shuffled, shuffled_uneven, frac_decreasing]


def configs(n, levels):
    """(kind, ctor source, constructor kwargs, closed form or None (poly -> float matrix))."""
    out = []
    out.append(("treatment", "TreatmentContrasts()", {}, ("T", 0)))
    out.append(("SAS", "SASContrasts()", {}, ("T", n - 1)))
    for b, lv in enumerate(levels):
        out.append(("treatment", f"TreatmentContrasts(base={lv!r})", {"base": lv}, ("T", b)))
        out.append(("SAS", f"SASContrasts(base={lv!r})", {"base": lv}, ("T", b)))
    out.append(("sum", "SumContrasts()", {}, ("S",)))
    for rev in (True, False):
        for sc in (False, True):
            out.append(("helmert", f"HelmertContrasts(reverse={rev}, scale={sc})", {"reverse": rev, "scale": sc}, ("H", rev, sc)))
    for bw in (True, False):
        out.append(("diff", f"DiffContrasts(backward={bw})", {"backward": bw}, ("D", bw)))
    for sc in poly_scores(n):
        out.append(("poly", f"PolyContrasts(scores={sc!r})", {"scores": sc}, ("P", sc)))
    return out


def closed(spec, n):
    if spec[0] == "T":
        return tofloat(cf_treatment(n, spec[1]), n, n - 1), cf_treatment(n, spec[1])
    if spec[0] == "S":
        return tofloat(cf_sum(n), n, n - 1), cf_sum(n)
    if spec[0] == "H":
        m = cf_helmert(n, spec[1], spec[2])
        return tofloat(m, n, n - 1), m
    if spec[0] == "D":
        m = cf_diff(n, spec[1])
        return tofloat(m, n, n - 1), m
    return cf_poly(n, spec[1]), None


def make(kind, kw):
    from formulaic.transforms import contrasts as c

    cls = {"treatment": c.TreatmentContrasts, "SAS": c.SASContrasts, "sum": c.SumContrasts,
           "helmert": c.HelmertContrasts, "diff": c.DiffContrasts, "poly": c.PolyContrasts}[kind]
    return cls(**kw)


def dense(m):
    if hasattr(m, "toarray"):
        m = m.toarray()
    if hasattr(m, "values") and not isinstance(m, np.ndarray):
        m = m.values
    if hasattr(m, "__wrapped__"):
        m = m.__wrapped__
        return dense(m)
    return np.atleast_2d(np.asarray(m, dtype=float))


HEAD = "import warnings; warnings.simplefilter('ignore')\nimport numpy as np, pandas as pd\nfrom formulaic.transforms.contrasts import *\n"
DENSE_SRC = (
    "def dense(m):\n"
    "    if hasattr(m, 'toarray'): m = m.toarray()\n"
    "    if hasattr(m, '__wrapped__'): return dense(m.__wrapped__)\n"
    "    if hasattr(m, 'values') and not isinstance(m, np.ndarray): m = m.values\n"
    "    return np.atleast_2d(np.asarray(m, dtype=float))\n"
)


def repro(ctor, levels, expr, expected, tol, extra=""):
    exp = np.asarray(expected, dtype=float)
    return (
        HEAD + DENSE_SRC + f"c = {ctor}\nlevels = {levels!r}\n" + extra
        + f"exp = np.array({exp.tolist()!r}, dtype=float).reshape({exp.shape!r})\n"
        + f"got = dense({expr})\n"
        + f"assert got.shape == exp.shape and np.allclose(got, exp, rtol=0, atol={tol!r}), (got, exp)\n"
    )


class Acc:
    def __init__(self):
        self.n = 0
        self.keys = set()
        self.samples = []
        self.fails = []
        self.counts = {}

    def case(self, key, sample=None):
        import hashlib

        self.n += 1
        self.keys.add(hashlib.blake2b(repr(key).encode(), digest_size=8).digest())
        if sample is not None and len(self.samples) < 2:
            self.samples.append(sample)

    def fail(self, clause, cls, witness, detail):
        k = (clause, cls)
        self.counts[k] = self.counts.get(k, 0) + 1
        if self.counts[k] <= MAX_REPORT:
            witness = dict(witness, cls=cls)
            self.fails.append((clause, witness, detail))


def close(a, b, tol):
    return a.shape == b.shape and (a.size == 0 or np.allclose(a, b, rtol=0, atol=tol))


def call(acc, clause, cls, witness, fn):
    """Run code under test; an exception is a violation of `clause` (nothing in C11 allows raising)."""
    try:
        return True, fn()
    except Exception as e:  # outcome of the code under test
        acc.fail(clause, cls + ":raises-" + type(e).__name__, witness, f"{type(e).__name__}: {e}")
        return False, None


# ------------------------------------------------------------------ matrix-level checks
def check_matrices(acc, n, ltype, levels):
    for kind, ctor, kw, spec in configs(n, levels):
        exp, exact = closed(spec, n)
        tol = TOL_POLY if kind == "poly" else TOL_RAT
        tag = f"{kind}:{ctor.split('(', 1)[1][:-1] if kind in ('helmert', 'diff') else ('base' if kw.get('base') is not None else ('scores' if kw.get('scores') is not None else 'default'))}"
        base_w = {"contrast": ctor, "levels": levels, "n": n}
        acc.case(("matrix", kind, ctor, n, ltype), sample={"n": n, "contrast": ctor, "levels": levels[:3]})
        c = make(kind, kw)

        # reduced coding: shape, closed form, labels
        w = dict(base_w, code=repro(ctor, levels, "c.get_coding_matrix(levels, reduced_rank=True)", exp, tol))
        ok, cm = call(acc, "C11.coding.reduced", tag, w, lambda: c.get_coding_matrix(levels, reduced_rank=True))
        got = None
        if ok:
            got = dense(cm)
            if got.shape != (n, n - 1):
                acc.fail("C11.coding.shape", tag, w, f"shape {got.shape} != {(n, n - 1)}")
            elif not close(got, exp, tol):
                acc.fail("C11.coding.closed-form", tag, w, f"max abs diff {np.abs(got - exp).max():.3g}\ngot={got}\nexpected={exp}")
            if list(cm.index) != list(levels):
                acc.fail("C11.coding.row-labels", tag, dict(base_w, code=HEAD + f"c = {ctor}\nlevels = {levels!r}\nassert list(c.get_coding_matrix(levels).index) == levels\n"), f"index {list(cm.index)}")
            # invertibility of [1|C] decided exactly on the returned floats
            if got.shape == (n, n - 1):
                aug = np.hstack([np.ones((n, 1)), got])
                if frank(aug.tolist(), n) != n:
                    acc.fail("C11.coding.invertible", tag, dict(base_w, code=HEAD + f"c = {ctor}\nlevels = {levels!r}\nm = np.hstack([np.ones(({n},1)), np.asarray(c.get_coding_matrix(levels), dtype=float).reshape({n},{n - 1})])\nassert np.linalg.matrix_rank(m) == {n}\n"), "[1|C] singular")
                if kind in ("sum", "helmert", "diff", "poly") and got.size:
                    cs = np.abs(got.sum(axis=0)).max()
                    if cs > 1e-9:
                        acc.fail("C11.colsum.zero", tag, dict(base_w, code=HEAD + f"c = {ctor}\nlevels = {levels!r}\nassert abs(np.asarray(c.get_coding_matrix(levels), dtype=float).sum(axis=0)).max() < 1e-9\n"), f"max |column sum| = {cs}")

        # drop field: none for the reduced coding; for the full coding it names one of its columns, and removing that
        # column leaves a coding that is of full rank next to an intercept. For the treatment family the drop field is
        # the reference level, so the full coding without it IS the reduced coding (values and column names).
        drop_src = (HEAD + f"c = {ctor}\nlevels = {levels!r}\n"
                    "assert c.get_drop_field(levels, reduced_rank=True) is None\n"
                    "full = c.get_coding_matrix(levels, reduced_rank=False)\nd = c.get_drop_field(levels, reduced_rank=False)\n"
                    "assert list(full.columns).count(d) == 1, (d, list(full.columns))\nrest = full.drop(columns=[d])\n"
                    f"assert np.linalg.matrix_rank(np.hstack([np.ones(({n}, 1)), rest.values.astype(float)])) == {n}\n")
        if kind in ("treatment", "SAS"):
            drop_src += ("red = c.get_coding_matrix(levels, reduced_rank=True)\n"
                         "assert list(rest.columns) == list(red.columns) and np.array_equal(rest.values.astype(float), red.values.astype(float)), (d, list(red.columns))\n")
        w = dict(base_w, code=drop_src)

        def drop_fields():
            return (c.get_drop_field(levels, reduced_rank=True), c.get_drop_field(levels, reduced_rank=False),
                    c.get_coding_matrix(levels, reduced_rank=False), c.get_coding_matrix(levels, reduced_rank=True))

        ok, res = call(acc, "C11.drop-field", tag, w, drop_fields)
        if ok:
            d_red, d_full, full_m, red_m = res
            cols = list(full_m.columns)
            if d_red is not None:
                acc.fail("C11.drop-field", tag + ":reduced-not-none", w, f"reduced coding reports drop field {d_red!r}")
            elif cols.count(d_full) != 1:
                acc.fail("C11.drop-field", tag + ":not-a-column", w, f"drop field {d_full!r} is not one of the full coding's columns {cols}")
            else:
                rest = full_m.drop(columns=[d_full])
                if frank(np.hstack([np.ones((n, 1)), dense(rest).reshape(n, n - 1)]).tolist(), n) != n:
                    acc.fail("C11.drop-field", tag + ":rank", w, f"[1 | full coding without {d_full!r}] is rank deficient")
                elif kind in ("treatment", "SAS") and got is not None and (
                    list(rest.columns) != list(red_m.columns) or not close(dense(rest).reshape(n, n - 1), dense(red_m).reshape(n, n - 1), 0.0)
                ):
                    acc.fail("C11.drop-field", tag + ":full-minus-drop-is-not-reduced", w,
                             f"drop field {d_full!r}: full coding without it has columns {list(rest.columns)}, reduced coding {list(red_m.columns)}")

        # full coding == identity
        eye = np.eye(n)
        w = dict(base_w, code=repro(ctor, levels, "c.get_coding_matrix(levels, reduced_rank=False)", eye, 0.0))
        ok, fm = call(acc, "C11.full.identity", tag, w, lambda: c.get_coding_matrix(levels, reduced_rank=False))
        if ok and not close(dense(fm), eye, 0.0):
            acc.fail("C11.full.identity", tag, w, f"got {dense(fm)}")

        # coefficient matrix == inv([1|C]) (exact inverse of the closed form; poly: [1/n ; C^T])
        if exact is not None:
            inv = finv([[F(1)] + row for row in exact])
            assert inv is not None, ("oracle closed form singular", ctor, n)  # driver self-check
            einv = tofloat(inv, n, n)
        else:
            einv = np.vstack([np.full((1, n), 1.0 / n), exp.T])
        w = dict(base_w, code=repro(ctor, levels, "c.get_coefficient_matrix(levels, reduced_rank=True)", einv, TOL_INV))
        ok, km = call(acc, "C11.coef.inverse", tag, w, lambda: c.get_coefficient_matrix(levels, reduced_rank=True))
        if ok and not close(dense(km), einv, TOL_INV if kind != "poly" else TOL_POLY):
            acc.fail("C11.coef.inverse", tag, w, f"got {dense(km)}\nexpected {einv}")
        w = dict(base_w, code=repro(ctor, levels, "c.get_coefficient_matrix(levels, reduced_rank=False)", eye, TOL_INV))
        ok, km = call(acc, "C11.coef.full", tag, w, lambda: c.get_coefficient_matrix(levels, reduced_rank=False))
        if ok and not close(dense(km), eye, TOL_INV):
            acc.fail("C11.coef.full", tag, w, f"got {dense(km)}")

        # sparse forms agree with the dense forms (and hence with the closed forms)
        for rr, e in ((True, exp), (False, eye)):
            w = dict(base_w, code=repro(ctor, levels, f"c.get_coding_matrix(levels, reduced_rank={rr}, sparse=True)", e, tol))
            ok, sm = call(acc, "C11.sparse.coding", tag, w, lambda: c.get_coding_matrix(levels, reduced_rank=rr, sparse=True))
            if ok and not close(dense(sm), e, tol):
                acc.fail("C11.sparse.coding", tag, w, f"sparse {dense(sm)}\nexpected {e}")
        for rr, e in ((True, einv), (False, eye)):
            w = dict(base_w, code=repro(ctor, levels, f"c.get_coefficient_matrix(levels, reduced_rank={rr}, sparse=True)", e, TOL_INV))
            ok, sm = call(acc, "C11.sparse.coef", tag, w, lambda: c.get_coefficient_matrix(levels, reduced_rank=rr, sparse=True))
            if ok:
                d = dense(sm)
                if d.shape == (1, n) and n == 1:
                    d = d.reshape(1, 1)
                if not close(d, e, TOL_INV if kind != "poly" else TOL_POLY):
                    acc.fail("C11.sparse.coef", tag, w, f"sparse {d}\nexpected {e}")


# ------------------------------------------------------------------ encoding checks
def indicator(data, levels):
    ind = np.zeros((len(data), len(levels)))
    for i, v in enumerate(data):
        if v is None or (isinstance(v, float) and v != v):
            continue
        if v in levels:
            ind[i, levels.index(v)] = 1.0
    return ind


def data_vectors(rng, labels, thorough):
    """(tag, data list, explicit levels or None, effective level list). Labels are all str or all int."""
    n = len(labels)
    srt = sorted(labels)
    out = []
    every = list(labels) + list(reversed(labels))
    rnd = [rng.choice(labels) for _ in range(n + 4)]
    null = float("nan") if isinstance(labels[0], (int, float)) and not isinstance(labels[0], bool) else None
    perm = list(labels)
    rng.shuffle(perm)
    out.append(("all-levels/inferred", every, None, srt))
    out.append(("random/inferred", rnd, None, sorted(set(rnd))))
    out.append(("all-levels/explicit-given-order", every, list(labels), list(labels)))
    out.append(("random/explicit-permuted(absent-levels)", rnd, perm, perm))
    withnull = list(every)
    withnull.insert(1, null)
    withnull.append(null)
    out.append(("nulls/inferred", withnull, None, srt))
    out.append(("nulls/explicit-permuted", withnull, perm, perm))
    if n >= 2:
        sub = perm[:-1]
        out.append(("out-of-levels/explicit", every, sub, sub))
    if thorough:
        rnd2 = [rng.choice(labels[: max(1, n // 2)]) for _ in range(n + 2)]
        out.append(("half-absent/explicit", rnd2, list(reversed(labels)), list(reversed(labels))))
        out.append(("half-absent/inferred", rnd2, None, sorted(set(rnd2))))
    return out


def check_encoding(acc, n, ltype, labels, rng, thorough):
    import pandas as pd
    from formulaic.transforms.contrasts import encode_contrasts

    value_type = ltype in ("int-zero", "str-empty", "float-zero", "bool")
    for dtag, data, explicit, eff in data_vectors(rng, labels, thorough):
        m = len(eff)
        ind = indicator(data, eff)
        for kind, ctor, kw, spec in configs(m, eff):
            if value_type and not thorough and kind not in ("treatment", "SAS", "sum"):
                continue  # quick tier: label VALUES only matter where labels are looked up (base) or ordered
            if kw.get("base") is not None and not thorough and kw["base"] and eff.index(kw["base"]) not in (0, m // 2, m - 1):
                continue  # quick tier: three base positions
            if kind == "poly" and kw.get("scores") is not None and not thorough and kw["scores"] not in (poly_scores(m)[3], poly_scores(m)[7]):
                continue
            exp_c, _ = closed(spec, m)
            tol = TOL_POLY if kind == "poly" else TOL_RAT
            tag = kind
            for rr in (True, False):
                expected = ind @ (exp_c if rr else np.eye(m))
                for output in ("pandas", "numpy", "sparse"):
                    for container in (("Series", "numpy") if thorough else ("Series",)):
                        acc.case(("encode", kind, ctor, dtag, ltype, m, rr, output, container),
                                 sample={"contrast": ctor, "data": data[:5], "levels": explicit, "reduced_rank": rr, "output": output})
                        dsrc = f"pd.Series({data!r})" if container == "Series" else f"np.array({data!r}, dtype=object)"
                        if container == "numpy" and isinstance(labels[0], (int, float)) and not isinstance(labels[0], bool):
                            dsrc = f"np.array({data!r}, dtype=float)"
                        dsrc = dsrc.replace("nan", "float('nan')")
                        code = repro(ctor, explicit, f"encode_contrasts(data, contrasts=c, levels=levels, reduced_rank={rr}, output={output!r})", expected, tol, extra=f"data = {dsrc}\n")
                        w = {"contrast": ctor, "data": data, "data_kind": dtag, "levels": explicit, "reduced_rank": rr, "output": output, "code": code}
                        env = {"pd": pd, "np": np}
                        dobj = eval(dsrc, env)

                        def run():
                            with warnings.catch_warnings():
                                warnings.simplefilter("ignore")
                                return encode_contrasts(dobj, contrasts=make(kind, kw), levels=explicit, reduced_rank=rr, output=output)

                        ok, res = call(acc, "C11.encode.indicator", tag, w, run)
                        if ok:
                            got = dense(res)
                            if got.shape == (1, 0) and expected.shape[1] == 0:
                                got = got.reshape(expected.shape[0], 0) if expected.shape[0] != 1 else got
                            if got.shape[1:] == (0,) or expected.shape[1] == 0:
                                good = got.size == 0 and expected.shape[1] == 0
                            else:
                                good = close(got, expected, tol)
                            if not good:
                                acc.fail("C11.encode.indicator", tag, w, f"got {got}\nexpected {expected}")


def check_e2e(acc, n, ltype, labels, rng, thorough):
    """C(x, K[, levels=L]) inside a formula, three outputs; with and without intercept."""
    import pandas as pd
    from formulaic import model_matrix

    data = list(labels) + [rng.choice(labels) for _ in range(3)]
    rng.shuffle(data)
    perm = list(labels)
    rng.shuffle(perm)
    value_type = ltype in ("int-zero", "str-empty", "float-zero", "bool")
    for explicit in (None, perm):
        eff = sorted(labels) if explicit is None else explicit
        ind = indicator(data, eff)
        for kind, ctor, kw, spec in configs(n, eff):
            if value_type and not thorough and kind not in ("treatment", "SAS", "sum"):
                continue
            if kw.get("base") is not None and kw["base"] and eff.index(kw["base"]) not in ((0, n - 1) if not thorough else range(n)):
                continue
            if kind == "poly" and kw.get("scores") is not None and kw["scores"] not in (poly_scores(n)[2], poly_scores(n)[6], poly_scores(n)[5]):
                continue
            exp_c, _ = closed(spec, n)
            tol = TOL_POLY if kind == "poly" else TOL_RAT
            for intercept in (True, False):
                expected = np.hstack([np.ones((len(data), 1)), ind @ exp_c]) if intercept else ind
                for output in ("pandas", "numpy", "sparse"):
                    formula = ("" if intercept else "0 + ") + ("C(x, K)" if explicit is None else "C(x, K, levels=L)")
                    acc.case(("e2e", kind, ctor, ltype, n, explicit is None, intercept, output),
                             sample={"formula": formula, "K": ctor, "L": explicit, "output": output})
                    code = (HEAD + DENSE_SRC + "from formulaic import model_matrix\n"
                            + f"df = pd.DataFrame({{'x': {data!r}}})\nctx = {{'K': {ctor}, 'L': {explicit!r}}}\n"
                            + f"exp = np.array({expected.tolist()!r}, dtype=float).reshape({expected.shape!r})\n"
                            + f"got = dense(model_matrix({formula!r}, df, context=ctx, output={output!r}))\n"
                            + f"assert got.shape == exp.shape and np.allclose(got, exp, rtol=0, atol={tol!r}), (got, exp)\n")
                    w = {"formula": formula, "K": ctor, "L": explicit, "x": data, "output": output, "code": code}
                    df = pd.DataFrame({"x": data})
                    ok, mm = call(acc, "C11.e2e.indicator", kind, w,
                                  lambda: model_matrix(formula, df, context={"K": make(kind, kw), "L": explicit}, output=output))
                    if ok:
                        got = dense(mm)
                        if n == 1 and intercept and got.shape == (len(data), 1):
                            good = np.allclose(got, 1.0)
                        else:
                            good = close(got, expected, tol)
                        if not good:
                            acc.fail("C11.e2e.indicator", kind, w, f"got {got}\nexpected {expected}")
                        elif intercept and n >= 2:
                            # introspection path: ContrastsState reports the same coding matrix
                            st = list(mm.model_spec.factor_contrasts.values())
                            if len(st) != 1 or not close(dense(st[0].get_coding_matrix()), exp_c, tol):
                                acc.fail("C11.state.coding", kind, w, "ContrastsState.get_coding_matrix differs from the coding used")


LABEL_TYPES = ("str", "int", "mixed-order", "int-zero", "str-empty", "float-zero", "bool")


def labels_for(n, ltype, rng):
    """Level labels by type. The last four put a FALSY label (0, "", 0.0, False) at a non-first position."""
    if ltype == "str":
        return STR_LABELS[:n]
    if ltype == "int":
        return [3 * (i + 1) for i in range(n)]
    if ltype == "int-zero":  # negatives, zero, positives (sorted; 0 sits at index n//2)
        return list(range(-(n // 2), n - n // 2))
    if ltype == "float-zero":
        return [0.5 * i for i in range(-(n // 2), n - n // 2)]
    if ltype == "str-empty":  # the empty string as an ordinary label, second in the given order
        lab = STR_LABELS[: n - 1]
        return (lab[:1] + [""] + lab[1:]) if n > 1 else [""]
    if ltype == "bool":
        return [True, False][:n]
    lab = [f"L{(7 * i + 3) % 13:02d}" for i in range(n)]  # distinct strings, not in sorted order
    return lab


def scope_for(thorough):
    out = []
    for n in range(1, 13):
        for lt in LABEL_TYPES:
            if lt == "bool" and n > 2:
                continue
            if not thorough and (lt in ("float-zero", "str-empty") and n > 5 or lt == "int-zero" and n > 8):
                continue  # quick tier: the label-value types are enumerated for small n only
            if not thorough and lt in ("int", "mixed-order") and n in (7, 9, 10, 11):
                continue  # quick tier (encoding part only; the matrix part always runs the full scope)
            out.append((n, lt))
    return out


def worker(args):
    part, n, ltype, seed, thorough = args
    rng = random.Random(f"{seed}/{n}/{ltype}")
    acc = Acc()
    labels = labels_for(n, ltype, rng)
    with warnings.catch_warnings():
        warnings.simplefilter("ignore")
        if part == "matrix":
            _g.guard(acc.fail, check_matrices, acc, n, ltype, labels)
        else:
            _g.guard(acc.fail, check_encoding, acc, n, ltype, labels, rng, thorough)
            if thorough or n <= 6 or ltype in ("str", "int-zero"):
                _g.guard(acc.fail, check_e2e, acc, n, ltype, labels, rng, thorough)
    return part, acc.n, acc.keys, acc.samples, acc.fails


def run_bounded(ctx):
    _g.begin("C11", ctx)
    scope = [(n, lt, ctx.seed, ctx.thorough) for n, lt in scope_for(ctx.thorough)]
    full_scope = [(n, lt, ctx.seed, ctx.thorough) for n, lt in scope_for(True)]
    options = ("Treatment/SAS base in {unset} + every level; Sum; Helmert reverse x scale; Diff backward; Poly scores in "
               "{none, 1..n, irregular ints, fractional, 10*i, decreasing, shuffled, shuffled irregular, decreasing fractional}; labels str/int/unsorted str/ints around 0 (negatives, 0)/floats around 0.0/"
               "strings incl. the empty string/bool (n<=2)")
    total = {}
    for part, name, exhaustive, rule, bound in (
        ("matrix", "contrast-matrices-n1-12", True,
         "one case per (contrast + options, n, label type): reduced coding shape/closed form/row labels/[1|C] rank (exact, on the "
         "returned floats)/column sums, drop field (none when reduced; a column of the full coding whose removal keeps [1|C] of full rank; treatment family: full coding without it == reduced coding), full coding, coefficient matrix vs exact inverse, sparse forms; every case is non-trivial",
         "n=1..12; " + options),
        ("encode", "contrast-encoding-n1-12", False,
         "one case per (contrast + options, data vector kind, levels mode, label type, n, reduced/full, output, container) for "
         "encode_contrasts, and per (contrast, levels mode, intercept, output) for C(x, K) inside model_matrix; oracle = indicator @ closed form",
         "n=1..12; " + options + "; data vectors: all levels, random (seeded), absent levels, nulls, values outside levels=; levels "
         "inferred/explicit/permuted; outputs pandas/numpy/sparse (quick tier: 3 base positions + every falsy label as base, 3 score vectors (one shuffled), Series only; label-value types: treatment/SAS/sum only)"),
    ):
        with ctx.bounded(name, rule=rule, exhaustive=exhaustive, bound=bound) as b:
            with ProcessPoolExecutor(16) as ex:
                part_scope = full_scope if part == "matrix" else scope  # the matrix part is cheap: always the full scope
                results = _g.safe_map(worker, [(part, *t) for t in reversed(part_scope)])
            for _rpart, n_eval, keys, samples, fails in results:
                b.add_counts(n_eval, keys, samples)
                for clause, witness, detail in fails:
                    k = (clause, witness["cls"])
                    total[k] = total.get(k, 0) + 1
                    if total[k] <= MAX_REPORT:
                        b.fail(clause, witness, detail)
    ctx.assume(
        "A-float: rational coding entries compared at 1e-12, inverses at 1e-9 (LAPACK/SuperLU on n<=12, cond<1e3), "
        "polynomial contrasts at 1e-8 (three-term recurrence vs exact Gram-Schmidt)",
        "C11-oracle: closed forms are R stats::contr.treatment/SAS/sum/helmert/poly, MASS::contr.sdif, UCLA forward Helmert/"
        "forward difference; scaled Helmert = column / (number of levels compared) per the class docstring",
        "C11-input: encode_contrasts is driven with pandas Series / numpy arrays (the documented 'array/series'), not lists",
        "C11-n1-sparse: for n=1 scipy.sparse.linalg.inv returns a 1-d ndarray; compared by value after reshaping",
    )
