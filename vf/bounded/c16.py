"""C16 bounded stand-in: linear-constraint specifications compile to the affine map they express.

Specs are generated from a grammar (names, rational literals, + - * /, unary minus at the start of an
(sub)expression, parentheses, '=' and ','), compiled by the REAL `LinearConstraints.from_spec` /
`ModelSpec.get_linear_constraints`, and probed at n+1 affinely independent rational points (+2 extra)
against an independent evaluator of the spec TEXT (own tokenizer + recursive descent with the usual
algebraic precedence, exact `Fraction` arithmetic). An affine map is fixed by n+1 such points.

Classes of generated constraints (decided by an independent analysis, not by the implementation):
  LIN     every product has a name-free operand, every divisor is name-free, no division by zero
          -> must compile, one row per constraint in written order, A.x - b == lhs(x) - rhs(x)
  NONLIN  the expression is not an affine function of the names (exact: sympy.cancel, degree > 1 or a
          non-constant denominator)                      -> must be rejected (any exception)
  other   (e.g. `(a-a)*b`, `a*b/b`, division by zero) -> either outcome; not counted, not judged
"""
from __future__ import annotations

from vf.bounded import _meta_guard as _g  # noqa: E402

import hashlib
import itertools
import random
import re
from concurrent.futures import ProcessPoolExecutor
from fractions import Fraction as F

MAX_REPORT = 5
TOL = 1e-9
LITS = ["2", "0.5", "3", "1.5", "10", "1", "0.25", "7", "0", "0.1"]


# ------------------------------------------------------------------ trees and rendering
# tree := ("n", name) | ("l", literal text) | ("neg", t) | (op, l, r) with op in + - * /
PREC = {"+": 1, "-": 1, "*": 2, "/": 2}


def render(t, rng=None, parent=None, side=None, first=True):
    """Minimal-parenthesis rendering under the usual algebraic conventions (left-associative binary
    operators, * / above + -), optional redundant parentheses / whitespace when rng is given.
    `first`: this sub-expression starts the whole expression or directly follows '(' -- the only
    places where a unary minus is written bare (never directly after another operator, '=' or ',')."""
    k = t[0]
    if k in ("n", "l"):
        s = t[1]
        if rng is not None and rng.random() < 0.08:
            s = "(" + s + ")"
        return s
    if k == "neg":
        wrap = not first or parent == "neg" or (parent in PREC and side == "r")
        inner = render(t[1], rng, "neg", None, False)
        if t[1][0] in PREC or t[1][0] == "neg":
            inner = "(" + render(t[1], rng, None, None, True) + ")"
        s = "-" + inner
        return "(" + s + ")" if wrap else s
    need = False
    if parent in PREC:
        if PREC[k] < PREC[parent]:
            need = True
        elif PREC[k] == PREC[parent] and side == "r":
            need = True  # a - (b - c), a / (b * c); a + (b + c) is written explicitly too
    if not need and rng is not None and rng.random() < 0.1:
        need = True
    l = render(t[1], rng, k, "l", first or need)
    r = render(t[2], rng, k, "r", False)
    sp = " " if rng is None else rng.choice(["", " ", " ", "  "])
    s = f"{l}{sp}{k}{sp}{r}"
    return "(" + s + ")" if need else s


def names_in(t):
    if t[0] == "n":
        return {t[1]}
    if t[0] == "l":
        return set()
    return set().union(*(names_in(c) for c in t[1:]))


def n_ops(t):
    return 0 if t[0] in ("n", "l") else 1 + sum(n_ops(c) for c in t[1:])


# ------------------------------------------------------------------ independent text evaluator
TOKEN = re.compile(r"\s*(?:(?P<num>\d+\.\d*|\.\d+|\d+)|(?P<name>[A-Za-z_][A-Za-z_0-9]*)|(?P<op>[-+*/()=,]))")


class Undefined(Exception):
    pass


def tokenize(text):
    pos, out = 0, []
    text = text.rstrip()
    while pos < len(text):
        m = TOKEN.match(text, pos)
        assert m, ("driver tokenizer cannot read its own spec", text, pos)
        pos = m.end()
        out.append(("num", m.group("num")) if m.group("num") else ("name", m.group("name")) if m.group("name") else ("op", m.group("op")))
    return out


class TextEval:
    """spec := constraint (',' constraint)*; constraint := expr ['=' expr];
    expr := ['-'|'+'] term (('+'|'-') term)*; term := atom (('*'|'/') atom)*; atom := num | name | '(' expr ')'.
    Values are produced by `leaf(kind, text)` and combined by python operators (Fraction or sympy)."""

    def __init__(self, text, leaf):
        self.toks = tokenize(text)
        self.i = 0
        self.leaf = leaf

    def peek(self):
        return self.toks[self.i] if self.i < len(self.toks) else (None, None)

    def eat(self, v=None):
        t = self.peek()
        assert t[0] is not None and (v is None or t[1] == v), ("driver parser", self.toks, self.i, v)
        self.i += 1
        return t

    def spec(self):
        rows = [self.constraint()]
        while self.peek() == ("op", ","):
            self.eat()
            rows.append(self.constraint())
        assert self.i == len(self.toks)
        return rows

    def constraint(self):
        v = self.expr()
        if self.peek() == ("op", "="):
            self.eat()
            v = v - self.expr()
        return v

    def expr(self):
        sign = 1
        if self.peek() in (("op", "-"), ("op", "+")):
            sign = -1 if self.eat()[1] == "-" else 1
        v = self.term()
        if sign < 0:
            v = -v
        while self.peek() in (("op", "+"), ("op", "-")):
            op = self.eat()[1]
            r = self.term()
            v = v + r if op == "+" else v - r
        return v

    def term(self):
        v = self.atom()
        while self.peek() in (("op", "*"), ("op", "/")):
            op = self.eat()[1]
            r = self.atom()
            if op == "*":
                v = v * r
            else:
                if r == 0:
                    raise Undefined()
                v = v / r
        return v

    def atom(self):
        k, s = self.eat()
        if k == "num":
            return self.leaf("num", s)
        if k == "name":
            return self.leaf("name", s)
        assert (k, s) == ("op", "("), ("driver parser: unexpected token", k, s)
        v = self.expr()
        self.eat(")")
        return v


def eval_text(text, point):
    return TextEval(text, lambda k, s: F(s) if k == "num" else point[s]).spec()


def eval_tree(t, point):
    k = t[0]
    if k == "n":
        return point[t[1]]
    if k == "l":
        return F(t[1])
    if k == "neg":
        return -eval_tree(t[1], point)
    a, b = eval_tree(t[1], point), eval_tree(t[2], point)
    if k == "+":
        return a + b
    if k == "-":
        return a - b
    if k == "*":
        return a * b
    if b == 0:
        raise Undefined()
    return a / b


def classify(t):
    """'LIN' | 'NONLIN' | 'OTHER' for one expression tree (see module docstring)."""

    def syntactic(t):
        k = t[0]
        if k in ("n", "l"):
            return True
        if k == "neg":
            return syntactic(t[1])
        if not (syntactic(t[1]) and syntactic(t[2])):
            return False
        if k == "*":
            return not names_in(t[1]) or not names_in(t[2])
        if k == "/":
            if names_in(t[2]):
                return False
            return eval_tree(t[2], {}) != 0
        return True

    try:
        if syntactic(t):
            eval_tree(t, {n: F(1) for n in names_in(t)})  # constant sub-divisions by zero
            return "LIN"
    except Undefined:
        return "OTHER"
    import sympy

    syms = {n: sympy.Symbol(n) for n in sorted(names_in(t))}

    def sy(t):
        k = t[0]
        if k == "n":
            return syms[t[1]]
        if k == "l":
            return sympy.Rational(t[1])
        if k == "neg":
            return -sy(t[1])
        a, b = sy(t[1]), sy(t[2])
        if k == "/":
            if sympy.cancel(b) == 0:
                raise Undefined()
            return a / b
        return a + b if k == "+" else a - b if k == "-" else a * b

    try:
        e = sympy.cancel(sympy.together(sy(t)))
    except Undefined:
        return "OTHER"
    if e.has(sympy.zoo, sympy.nan, sympy.oo):
        return "OTHER"
    num, den = sympy.fraction(e)
    if den.free_symbols:
        return "NONLIN"
    if not syms or sympy.Poly(num, *syms.values()).total_degree() <= 1:
        return "OTHER"  # semantically affine although written with a non-linear product/quotient
    return "NONLIN"


# ------------------------------------------------------------------ generators
def all_trees(k, leaves):
    """All binary-operator trees with exactly k operators over `leaves` (no unary)."""
    if k == 0:
        for lf in leaves:
            yield lf
        return
    for kl in range(k):
        for l in all_trees(kl, leaves):
            for r in all_trees(k - 1 - kl, leaves):
                for op in "+-*/":
                    yield (op, l, r)


def random_tree(rng, ops, names, linear_bias):
    if ops == 0:
        if names and rng.random() < 0.55:
            return ("n", rng.choice(names))
        return ("l", rng.choice(LITS))
    if rng.random() < 0.12:
        return ("neg", random_tree(rng, ops - 1, names, linear_bias))
    kl = rng.randrange(ops)
    op = rng.choice("++--**//" if not linear_bias else "+++---*/")
    l = random_tree(rng, kl, names, linear_bias)
    r = random_tree(rng, ops - 1 - kl, names, linear_bias)
    if linear_bias and op == "*" and names_in(l) and names_in(r):
        # make one side a constant expression most of the time
        if rng.random() < 0.85:
            r = random_tree(rng, min(n_ops(r), 1), [], False) if rng.random() < 0.5 else r
            if names_in(r):
                l = ("l", rng.choice(LITS[:8]))
    if linear_bias and op == "/" and names_in(r) and rng.random() < 0.85:
        r = ("l", rng.choice(LITS[:8]))
    return (op, l, r)


# ------------------------------------------------------------------ checking one spec
def points(varnames, rng):
    base = {v: F(rng.randint(-9, 9), rng.randint(1, 7)) for v in varnames}
    pts = [dict(base)]
    for v in varnames:
        p = dict(base)
        p[v] = base[v] + F(rng.choice([1, 2, 3, -1, -2]), rng.choice([1, 2, 3]))
        pts.append(p)
    for _ in range(2):
        pts.append({v: F(rng.randint(-20, 20), rng.randint(1, 9)) for v in varnames})
    return pts


def py(obj):
    """Source text for a spec object (str / list / dict with Fraction-free values)."""
    return repr(obj)


REPRO = """from fractions import Fraction as F
import numpy as np
{setup}
spec = {spec}
varnames = {varnames!r}
{mode_check}
"""

SETUP_DIRECT = "from formulaic.utils.constraints import LinearConstraints\ncompile_ = lambda spec: LinearConstraints.from_spec(spec, variable_names=varnames)"
SETUP_SPEC = ("import pandas as pd\nfrom formulaic import model_matrix\n"
              "_ms = model_matrix({formula!r}, pd.DataFrame({{k: [1.0, 2.0, 4.0] for k in {cols!r}}})).model_spec\n"
              "assert list(_ms.column_names) == {varnames!r}\ncompile_ = lambda spec: _ms.get_linear_constraints(spec)")

CHECK_VALUES = """lc = compile_(spec)
A, b = np.asarray(lc.constraint_matrix, dtype=float), np.asarray(lc.constraint_values, dtype=float)
expected_rows = {nrows}
assert A.shape == (expected_rows, len(varnames)) and b.shape == (expected_rows,), (A.shape, b.shape)
# (point, exact values of lhs(x) - rhs(x) per constraint), computed by an independent Fraction evaluator
probes = {probes}
for x, want in probes:
    for i, w in enumerate(want):
        got = sum(F(float(A[i, j])) * F(x[j]) for j in range(len(varnames))) - F(float(b[i]))
        scale = 1 + sum(abs(F(float(A[i, j])) * F(x[j])) for j in range(len(varnames))) + abs(F(float(b[i]))) + abs(F(w))
        assert abs(got - F(w)) <= F(1, 10**9) * scale, (i, x, float(got), float(F(w)))
"""
CHECK_REJECT = """try:
    lc = compile_(spec)
except Exception as e:
    print('rejected:', type(e).__name__)
else:
    raise AssertionError(('non-linear specification accepted', lc.constraint_matrix.tolist(), lc.constraint_values.tolist()))
"""


def setup_src(mode, varnames):
    if mode == "from_spec":
        return SETUP_DIRECT
    cols = [v for v in varnames if v != "Intercept"]
    formula = " + ".join(cols) + ("" if "Intercept" in varnames else " - 1")
    return SETUP_SPEC.format(formula=formula, cols=cols, varnames=list(varnames))


_SPEC_CACHE = {}


def compiler(mode, varnames):
    if mode == "from_spec":
        from formulaic.utils.constraints import LinearConstraints

        return lambda spec: LinearConstraints.from_spec(spec, variable_names=list(varnames))
    key = tuple(varnames)
    if key not in _SPEC_CACHE:
        import pandas as pd
        from formulaic import model_matrix

        cols = [v for v in varnames if v != "Intercept"]
        formula = " + ".join(cols) + ("" if "Intercept" in varnames else " - 1")
        ms = model_matrix(formula, pd.DataFrame({k: [1.0, 2.0, 4.0] for k in cols})).model_spec
        assert list(ms.column_names) == list(varnames), (ms.column_names, varnames)  # driver self-check
        _SPEC_CACHE[key] = ms
    return _SPEC_CACHE[key].get_linear_constraints


def check_spec(acc, rng, mode, form, constraints, varnames, tag):
    """constraints: list of (lhs tree, rhs tree or None[, dict value]) ; form in str/list/dict."""
    import numpy as np

    rnd = rng if tag == "random" else None
    texts, classes = [], []
    for ci, c in enumerate(constraints):
        lhs, rhs = c[0], c[1]
        # list items are documented to be joined with ',': a bare leading '-' is only written in the first
        # constraint (mapping keys are compiled one by one, so every key may start with '-')
        s = render(lhs, rnd, None, None, ci == 0 or form == "dict")
        cl = classify(lhs)
        if rhs is not None:
            s += (" = " if rnd is None else rnd.choice(["=", " = ", " ="])) + render(rhs, rnd, None, None, False)
            cr = classify(rhs)
            if (cl, cr) != ("LIN", "LIN"):
                cl = "NONLIN" if classify(("-", lhs, rhs)) == "NONLIN" else "OTHER"
        texts.append(s)
        classes.append(cl)
    klass = "OTHER" if "OTHER" in classes else ("NONLIN" if "NONLIN" in classes else "LIN")
    if form == "str":
        spec = ", ".join(texts) if rnd is None else rnd.choice([", ", ",", " , "]).join(texts)
    elif form == "list":
        spec = list(texts)
    else:
        spec = {t: c[2] for t, c in zip(texts, constraints)}
        if len(spec) != len(texts):
            return  # duplicate keys: not expressible as a mapping
    used = set().union(*(names_in(c[0]) | (names_in(c[1]) if c[1] is not None else set()) for c in constraints))
    nontrivial = bool(used) and sum(n_ops(c[0]) + (n_ops(c[1]) + 1 if c[1] is not None else 0) for c in constraints) + len(constraints) - 1 > 0
    if klass == "OTHER":
        return
    key = (mode, form, py(spec), tuple(varnames))
    acc.case(key, nontrivial, sample={"spec": spec, "variable_names": list(varnames), "via": mode, "class": klass})
    comp = compiler(mode, varnames)
    base_w = {"spec": spec, "variable_names": list(varnames), "via": mode, "form": form, "class": klass}
    try:
        lc = comp(spec)
        exc = None
    except Exception as e:  # outcome of the code under test
        lc, exc = None, e

    if klass == "NONLIN":
        if exc is None:
            code = REPRO.format(setup=setup_src(mode, varnames), spec=py(spec), varnames=list(varnames), mode_check=CHECK_REJECT)
            acc.fail("C16.nonlinear.rejected", f"accepted:{form}", dict(base_w, code=code),
                     f"non-linear spec accepted: A={lc.constraint_matrix.tolist()} b={lc.constraint_values.tolist()}")
        return

    # LIN: expected values at the probe points from the independent text evaluator
    pts = points(varnames, rng)
    probes = []
    for p in pts:
        want = []
        for t, c in zip(texts, constraints):
            (v,) = eval_text(t, p)
            tv = eval_tree(c[0], p) - (eval_tree(c[1], p) if c[1] is not None else 0)
            assert v == tv, ("driver self-check: text evaluator and tree evaluator disagree", t, c)
            if form == "dict":
                v = v - F(str(c[2]))
            want.append(v)
        probes.append(([str(p[v]) for v in varnames], [str(w) for w in want]))
    code = REPRO.format(setup=setup_src(mode, varnames), spec=py(spec), varnames=list(varnames),
                        mode_check=CHECK_VALUES.format(nrows=len(constraints), probes=probes))
    w = dict(base_w, code=code)
    if exc is not None:
        acc.fail("C16.linear.accepted", f"raises-{type(exc).__name__}:{form}", w, f"{type(exc).__name__}: {exc}")
        return
    A = np.asarray(lc.constraint_matrix, dtype=float)
    b = np.asarray(lc.constraint_values, dtype=float)
    if A.shape != (len(constraints), len(varnames)) or b.shape != (len(constraints),):
        acc.fail("C16.rows.count", f"shape:{form}", w, f"A{A.shape} b{b.shape} for {len(constraints)} constraints over {len(varnames)} names")
        return
    def row_ok(i, k):
        """Does compiled row i reproduce written constraint k at every probe point?"""
        for x, want in probes:
            terms = [F(float(A[i, j])) * F(x[j]) for j in range(len(varnames))]
            got = sum(terms) - F(float(b[i]))
            scale = 1 + sum(abs(t) for t in terms) + abs(F(float(b[i]))) + abs(F(want[k]))
            if abs(got - F(want[k])) > F(1, 10**9) * scale:
                return False, (x, float(got), float(F(want[k])))
        return True, None

    m = len(constraints)
    bad = [(i, row_ok(i, i)[1]) for i in range(m) if not row_ok(i, i)[0]]
    if bad:
        permuted = any(all(row_ok(i, perm[i])[0] for i in range(m)) for perm in itertools.permutations(range(m)))
        i, (x, got, want) = bad[0]
        acc.fail("C16.rows.order" if permuted else "C16.affine.value", form, w,
                 f"row {i} at x={x}: A.x-b = {got!r} but lhs-rhs = {want!r}; A={A.tolist()} b={b.tolist()}"
                 + (" (rows are a permutation of the written constraints)" if permuted else ""))


# ------------------------------------------------------------------ workers
class Acc:
    def __init__(self):
        self.n = 0
        self.keys = set()
        self.samples = []
        self.fails = []
        self.counts = {}

    def case(self, key, nontrivial, sample=None):
        self.n += 1
        if nontrivial:
            self.keys.add(hashlib.blake2b(repr(key).encode(), digest_size=8).digest())
        if sample is not None and len(self.samples) < 3:
            self.samples.append(sample)

    def fail(self, clause, cls, witness, detail):
        k = (clause, cls)
        self.counts[k] = self.counts.get(k, 0) + 1
        if self.counts[k] <= MAX_REPORT:
            self.fails.append((clause, dict(witness, cls=cls), detail))


LEAVES = [("n", "a"), ("n", "b"), ("n", "c"), ("l", "2"), ("l", "0.5")]
VARSETS = [("from_spec", ("a", "b", "c")), ("from_spec", ("c", "x", "a", "b")), ("model_spec", ("Intercept", "a", "b", "c")),
           ("model_spec", ("b", "c", "a"))]


def exhaustive_chunk(args):
    seed, depth, chunk, nchunks = args
    rng = random.Random(f"{seed}/ex/{depth}/{chunk}")
    acc = Acc()
    if depth == "eq":
        small = list(all_trees(0, LEAVES)) + list(all_trees(1, LEAVES))
        it = ((l, r) for l in small for r in small)
    else:
        it = ((t, None) for t in all_trees(depth, LEAVES))
    for i, (l, r) in enumerate(it):
        if i % nchunks != chunk:
            continue
        mode, varnames = VARSETS[i % len(VARSETS)] if depth != "eq" else VARSETS[(i // 7) % len(VARSETS)]
        form = ("str", "list", "dict")[i % 3] if r is None else ("str", "list")[i % 2]
        _g.guard(acc.fail, check_spec, acc, rng, mode, form, [(l, r, [0, 3, 2.5, -1][i % 4])], varnames, "exhaustive")
        if i % 4 == 1:
            # the same constraint written more than once (comma string / list): one row per constraint AS WRITTEN
            c = (l, r, 0)
            other = (LEAVES[i % 3], None, 0)
            rep = [[c, c], [c, other, c], [other, c, c]][(i // 4) % 3]
            _g.guard(acc.fail, check_spec, acc, rng, mode, ("list", "str")[(i // 4) % 2], rep, varnames, "exhaustive")
    return acc.n, acc.keys, acc.samples, acc.fails


def random_chunk(args):
    seed, chunk, count = args
    rng = random.Random(f"{seed}/rnd/{chunk}")
    acc = Acc()
    for i in range(count):
        mode, varnames = rng.choice(VARSETS)
        names = [v for v in varnames if v != "x"][:3] if rng.random() < 0.8 else list(varnames)[:3]
        form = rng.choice(["str", "str", "list", "dict"])
        ncons = rng.choice([1, 1, 2, 3])
        cons = []
        linear_bias = rng.random() < 0.8
        for _ in range(ncons):
            total = rng.randint(0, 6)
            if form != "dict" and rng.random() < 0.5 and total >= 1:
                lo = rng.randint(0, total - 1)
                l = random_tree(rng, lo, names, linear_bias)
                r = random_tree(rng, total - 1 - lo, names, linear_bias)
            else:
                l, r = random_tree(rng, total, names, linear_bias), None
            cons.append((l, r, rng.choice([0, 1, -2, 2.5, 0.125, 10])))
        if form != "dict" and rng.random() < 0.2:
            cons.insert(rng.randrange(len(cons) + 1), rng.choice(cons))  # a repeated constraint
        _g.guard(acc.fail, check_spec, acc, rng, mode, form, cons, varnames, "random")
    return acc.n, acc.keys, acc.samples, acc.fails


def _collect(b, results, total):
    for n_eval, keys, samples, fails in results:
        b.add_counts(n_eval, keys, samples)
        for clause, witness, detail in fails:
            k = (clause, witness["cls"])
            total[k] = total.get(k, 0) + 1
            if total[k] <= MAX_REPORT:
                b.fail(clause, witness, detail)


def run_bounded(ctx):
    _g.begin("C16", ctx)
    total = {}
    depths = [0, 1, 2, "eq"] + ([3] if ctx.thorough else [])
    with ctx.bounded(
        "constraint-trees-exhaustive",
        rule="every binary-operator tree with <= k operators over leaves {a,b,c,2,0.5} (k<=2 quick, <=3 thorough) and every "
             "'lhs = rhs' with <=1 operator per side, rendered with minimal parentheses, cycling string/list/dict forms and four "
             "variable-name lists (two through ModelSpec.get_linear_constraints); every fourth tree is also written 2-3 times in one list / comma string; non-trivial = uses a name and an operator; "
             "semantically ambiguous specs (written non-linear but affine after cancellation, division by zero) are skipped uncounted",
        exhaustive=True,
        bound="operators <= 2 (quick) / 3 (thorough); 5 leaves; lhs=rhs with <=1+1 operators",
    ) as b:
        tasks = []
        for d in depths:
            nch = 16 if d in (3, "eq", 2) else 1
            tasks += [(ctx.seed, d, c, nch) for c in range(nch)]
        with ProcessPoolExecutor(16) as ex:
            _collect(b, _g.safe_map(exhaustive_chunk, tasks), total)
    with ctx.bounded(
        "constraint-specs-random",
        rule="seeded random specs: 1-3 constraints (20% with one of them repeated), each with <= 6 operators (incl. unary minus at the start of a parenthesised "
             "sub-expression), optional '=', redundant parentheses/whitespace, 10 literals, string/list/dict forms; distinct by "
             "(entry point, form, spec text, variable names)",
        exhaustive=False,
        bound="operators per constraint <= 6; names <= 3 of the variable list; constraints <= 3",
    ) as b:
        per = 1500 if ctx.thorough else 220
        with ProcessPoolExecutor(16) as ex:
            _collect(b, _g.safe_map(random_chunk, [(ctx.seed, c, per) for c in range(32 if ctx.thorough else 16)]), total)
    ctx.assume(
        "A-float: A and b are float64; compared exactly as rationals with relative slack 1e-9 (literals like 0.1 and divisions round)",
        "C16-grammar: unary minus is only generated at the start of an expression or directly after '(' ; adjacent operators "
        "such as 'a = -1', '2*-a', 'a - -b' are rejected by the shared tokenizer as unknown operators and are not judged",
        "C16-classes: a written product of two name-carrying operands (or a name-carrying divisor) that is affine only after "
        "cancellation, and any division by zero, is outside both 'must compile' and 'must reject'",
        "C16-dict: mapping keys are plain expressions (no '=' or ','); row i means key_i(x) = value_i",
    )
