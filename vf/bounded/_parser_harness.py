"""Development harness (not used by ./check): run one bounded driver with per-task timing."""
import sys, time
from vf import core


def main():
    prop, tier = sys.argv[1], sys.argv[2]
    ctx = core.Ctx(prop.upper(), tier, 0)
    ctx.explanation = "harness"
    import importlib

    mod = importlib.import_module(f"vf.bounded.{prop.lower()}")
    t = time.time()
    mod.run_bounded(ctx)
    print("wall", round(time.time() - t, 1))
    for b in ctx.bounded_runs:
        print(b.summary()["driver"], b.evaluations, len(b.distinct))
    from collections import Counter

    c = Counter((v["clause"], v["witness"].get("cls")) for v in ctx.violations)
    for k, n in sorted(c.items()):
        print("  reported", k, n)
    for n in ctx.notes:
        print(n)
    if "--finish" in sys.argv:
        print("exit", ctx.finish())


if __name__ == "__main__":
    main()
