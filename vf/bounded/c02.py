"""C02 bounded stand-in: every model-matrix column holds the product its name denotes.

Three drivers, all calling the REAL code of /repo:

  kron-symbolic   the real `_get_columns_for_term` of the pandas / narwhals materializers and of the
                  base class, on factor dicts whose column values are numpy object arrays of sympy
                  symbols: `out[name] == scale * prod(v_i)` is then an algebraic identity, i.e. it
                  holds for ALL numeric values; names must be the ':'-join in Kronecker order with the
                  first factor varying fastest.  Exhaustive: k <= 4 factors x widths 1..3 x scale.
  kron-sparse     same shapes, sparse branch (scipy csc columns) with seeded numeric values.
  e2e             `model_matrix(formula, frame, ensure_full_rank=..., output=...)` on generated frames
                  and formulas; every column label is parsed back into (factor, level) pieces and the
                  column is recomputed from the raw data by an oracle that never looks at formulaic's
                  encoders (indicator of the level / the evaluated python expression).

Oracle conventions (from the statement):  `A[x]` and `A[T.x]` = indicator of level x of A; a numeric
piece = the evaluated expression; `Intercept` = all ones; rank reduction off => the matrix is, term by
term in the order of `Formula(formula)`, the full row-wise Kronecker product of the full encodings,
levels in level order, first factor fastest, times the product of the term's numeric literals.
"""
from __future__ import annotations

import hashlib
import itertools
import math
import random
import traceback
from concurrent.futures import ProcessPoolExecutor

import numpy

from . import _matrix_frames as mf
from ._matrix_report import emit_round_robin

RTOL, ATOL = 1e-9, 1e-12  # products of <= 4 doubles in a different association order: ~1e-16 rel.
MAX_WITNESS_PER_CLASS = 5


def _digest(key) -> bytes:
    return hashlib.blake2b(repr(key).encode(), digest_size=8).digest()


# =========================================================================== kron (symbolic/sparse)
def _mixed_radix_indices(widths):
    """Column c of the Kronecker enumeration with the FIRST factor varying fastest:
    c = i_0 + w_0*(i_1 + w_1*(i_2 + ...)).  Written as a decode, not as itertools.product."""
    total = math.prod(widths)
    for c in range(total):
        rem, idx = c, []
        for w in widths:
            idx.append(rem % w)
            rem //= w
        yield tuple(idx)


def _factor_names(widths):
    return [[f"f{i}" if w == 1 else f"f{i}[{j}]" for j in range(w)] for i, w in enumerate(widths)]


KRON_WITNESS = '''\
import itertools, math, numpy
import formulaic
from formulaic import ModelSpec
from formulaic.materializers import FormulaMaterializer, PandasMaterializer, NarwhalsMaterializer
import pandas
impl, widths, scale, output, kind = {impl!r}, {widths!r}, {scale!r}, {output!r}, {kind!r}
nrows = 2
inst = (NarwhalsMaterializer if impl == "narwhals" else PandasMaterializer)(pandas.DataFrame({{"x": [1.0, 2.0]}}))
fn = {{"pandas": PandasMaterializer, "narwhals": NarwhalsMaterializer, "base": FormulaMaterializer}}[impl]._get_columns_for_term
spec = ModelSpec.from_spec([], output=output)
if kind == "sympy":
    import sympy
    def value(i, j):
        a = numpy.empty(nrows, dtype=object); a[:] = [sympy.Symbol(f"v{{i}}_{{j}}_{{r}}") for r in range(nrows)]; return a
    zero = lambda got, want: all(sympy.expand(g - w) == 0 for g, w in zip(got, want))
elif kind == "float":
    rng = numpy.random.default_rng({seed})
    def value(i, j): return rng.uniform(0.5, 3.0, nrows)
    zero = lambda got, want: numpy.allclose(numpy.asarray(got, dtype=float), numpy.asarray(want, dtype=float), rtol=1e-9)
else:
    import scipy.sparse as sp
    rng = numpy.random.default_rng({seed})
    def value(i, j): return sp.csc_matrix(rng.uniform(0.5, 3.0, (nrows, 1)))
    zero = lambda got, want: numpy.allclose(got.toarray(), want.toarray(), rtol=1e-9)
names = [[f"f{{i}}" if w == 1 else f"f{{i}}[{{j}}]" for j in range(w)] for i, w in enumerate(widths)]
vals = [[value(i, j) for j in range(w)] for i, w in enumerate(widths)]
factors = [dict(zip(names[i], vals[i])) for i in range(len(widths))]
out = fn(inst, factors, spec=spec, scale=scale)
exp_names, exp_vals = [], []
for c in range(math.prod(widths)):
    rem, idx = c, []
    for w in widths:
        idx.append(rem % w); rem //= w
    exp_names.append(":".join(names[i][j] for i, j in enumerate(idx)))
    p = vals[0][idx[0]]
    for i in range(1, len(widths)):
        p = p.multiply(vals[i][idx[i]]) if kind == "sparse" else p * vals[i][idx[i]]
    exp_vals.append(p * scale)
assert list(out) == exp_names, ("names/order", list(out), exp_names)
for n, w in zip(exp_names, exp_vals):
    assert zero(out[n], w), ("value of column", n)
'''


def _kron_one(impl, widths, scale, output, kind, seed):
    """Run the real _get_columns_for_term once.  Returns (status, detail) with status in
    {"ok", "names", "values", "raises"}.  kind: "sympy" | "float" | "sparse"."""
    import pandas
    from formulaic import ModelSpec
    from formulaic.materializers import FormulaMaterializer, NarwhalsMaterializer, PandasMaterializer

    nrows = 2
    inst = (NarwhalsMaterializer if impl == "narwhals" else PandasMaterializer)(pandas.DataFrame({"x": [1.0, 2.0]}))
    fn = {"pandas": PandasMaterializer, "narwhals": NarwhalsMaterializer, "base": FormulaMaterializer}[
        impl
    ]._get_columns_for_term
    spec = ModelSpec.from_spec([], output=output)
    if kind == "sympy":
        import sympy

        def value(i, j):
            a = numpy.empty(nrows, dtype=object)
            a[:] = [sympy.Symbol(f"v{i}_{j}_{r}") for r in range(nrows)]
            return a

        def same(got, want):
            got = numpy.asarray(got, dtype=object).reshape(-1)
            return len(got) == nrows and all(sympy.expand(g - w) == 0 for g, w in zip(got, want))

    elif kind == "float":
        rng = numpy.random.default_rng(seed)

        def value(i, j):
            return rng.uniform(0.5, 3.0, nrows)

        def same(got, want):
            got = numpy.asarray(got, dtype=float).reshape(-1)
            return got.shape == (nrows,) and numpy.allclose(got, want, rtol=RTOL)

    else:
        import scipy.sparse as sp

        rng = numpy.random.default_rng(seed)

        def value(i, j):
            return sp.csc_matrix(rng.uniform(0.5, 3.0, (nrows, 1)))

        def same(got, want):
            return got.shape == (nrows, 1) and numpy.allclose(got.toarray(), want.toarray(), rtol=RTOL)

    names = _factor_names(widths)
    vals = [[value(i, j) for j in range(w)] for i, w in enumerate(widths)]
    factors = [dict(zip(names[i], vals[i])) for i in range(len(widths))]
    try:
        out = fn(inst, factors, spec=spec, scale=scale)
    except Exception as e:  # outcome of the code under test
        return "raises", f"{type(e).__name__}: {e}"
    exp_names, exp_vals = [], []
    for idx in _mixed_radix_indices(widths):
        exp_names.append(":".join(names[i][j] for i, j in enumerate(idx)))
        p = vals[0][idx[0]]
        for i in range(1, len(widths)):
            p = p.multiply(vals[i][idx[i]]) if kind == "sparse" else p * vals[i][idx[i]]
        exp_vals.append(p * scale)
    if list(out) != exp_names:
        return "names", f"got {list(out)} expected {exp_names}"
    for n, w in zip(exp_names, exp_vals):
        try:
            ok = same(out[n], w)
        except Exception as e:
            return "values", f"column {n}: cannot compare ({type(e).__name__}: {e})"
        if not ok:
            return "values", f"column {n}: got {out[n]!r} expected {w!r}"
    return "ok", ""


def _kron_shapes(kmax=4, wmax=3):
    for k in range(1, kmax + 1):
        yield from itertools.product(range(1, wmax + 1), repeat=k)


def _kron_task(args):
    impl, widths, scale, output, kind, seed = args

    def judged(kind):
        # nothing the (possibly changed) library returns or raises may escape: an exception while setting up or judging
        # is an outcome of this case
        try:
            return _kron_one(impl, widths, scale, output, kind, seed)
        except Exception as e:
            return f"oracle-not-applicable:{type(e).__name__}", f"{type(e).__name__}: {e}\n{traceback.format_exc()[-1500:]}"

    status, detail = judged(kind)
    fallback = None
    if kind == "sympy" and (status == "raises" or status.startswith("oracle-not-applicable")):
        # the symbolic harness may not be applicable to a (changed) implementation: object arrays are
        # not what the pipeline feeds it.  Decide on floats instead; only that outcome is judged.
        fallback = detail
        kind = "float"
        status, detail = judged(kind)
    return impl, widths, scale, output, kind, status, detail, fallback


def _run_kron(ctx):
    from formulaic.materializers import FormulaMaterializer, NarwhalsMaterializer, PandasMaterializer

    impls = []
    for name, cls in (("pandas", PandasMaterializer), ("narwhals", NarwhalsMaterializer), ("base", FormulaMaterializer)):
        if callable(getattr(cls, "_get_columns_for_term", None)):
            impls.append(name)
        else:
            ctx.notes.append(f"C02 kron: {name} has no _get_columns_for_term any more; covered by e2e only")
    shapes = list(_kron_shapes())
    scales = (1, 2.5)

    def report(b, results, clause_prefix):
        seen = {}
        fallbacks = 0
        for impl, widths, scale, output, kind, status, detail, fallback in results:
            solo = sum(1 for w in widths if w == 1)
            b.case(key=(impl, widths, scale, output, kind), nontrivial=len(widths) >= 2,
                   sample={"impl": impl, "widths": widths, "scale": scale, "output": output, "values": kind})
            if fallback is not None:
                fallbacks += 1
            if status == "ok":
                continue
            if status.startswith("oracle-not-applicable"):
                clause, cls = f"{clause_prefix}.values", status
            else:
                clause = f"{clause_prefix}.{status}"
                cls = f"{impl}:{'solo' if solo else 'nosolo'}:{'multi' if len(widths) - solo else 'allsolo'}"
            n = seen[(clause, cls)] = seen.get((clause, cls), 0) + 1
            if n > MAX_WITNESS_PER_CLASS:
                continue
            b.fail(clause=clause,
                   witness={"impl": impl, "widths": list(widths), "scale": scale, "output": output, "values": kind,
                            "cls": cls,
                            "code": KRON_WITNESS.format(impl=impl, widths=tuple(widths), scale=scale, output=output,
                                                        kind=kind, seed=ctx.seed)},
                   detail=detail)
        if fallbacks:
            ctx.notes.append(f"C02 kron: symbolic harness raised on {fallbacks} shapes; decided on float values instead")
        for (clause, cls), n in seen.items():
            if n > MAX_WITNESS_PER_CLASS:
                ctx.notes.append(f"{clause} cls={cls}: {n} failing shapes in total ({MAX_WITNESS_PER_CLASS} reported)")

    with ctx.bounded(
        "kron-symbolic",
        rule="real _get_columns_for_term (pandas, narwhals, base) on sympy-symbol columns; a case = (impl, widths, "
             "scale, dense output); non-trivial = at least 2 factors; equality is polynomial identity",
        exhaustive=True,
        bound="k<=4 factors, widths 1..3 (all 120 shapes, so every position of solo factors), scale in {1, 2.5}, "
              "outputs numpy+pandas, 2 rows",
    ) as b:
        tasks = [(impl, w, s, out, "sympy", ctx.seed) for impl in impls for w in shapes for s in scales
                 for out in ("numpy", "pandas")]
        with ProcessPoolExecutor(16) as ex:
            results = list(ex.map(_kron_task, tasks, chunksize=24))
        report(b, results, "C02.kron")

    with ctx.bounded(
        "kron-sparse",
        rule="real _get_columns_for_term, sparse branch, on scipy csc columns with seeded values in [0.5, 3]; "
             "compared with the dense product (rtol 1e-9)",
        exhaustive=True,
        bound="k<=4 factors, widths 1..3, scale in {1, 2.5}, one seeded value draw per shape",
    ) as b:
        tasks = [(impl, w, s, "sparse", "sparse", ctx.seed + 1) for impl in impls if impl != "base"
                 for w in shapes for s in scales]
        with ProcessPoolExecutor(16) as ex:
            results = list(ex.map(_kron_task, tasks, chunksize=24))
        report(b, results, "C02.kron-sparse")


# =========================================================================== end-to-end
# python-expression factors, written exactly as formulaic prints them; oracle on raw numpy columns
EXPR_ORACLES = {
    "I(a * 2)": (("a",), lambda v: v["a"] * 2),
    "np.log(b)": (("b",), lambda v: numpy.log(v["b"])),
    "I(a + b)": (("a", "b"), lambda v: v["a"] + v["b"]),
    "I(b ** 2)": (("b",), lambda v: v["b"] ** 2),
}
SCALES = (2.5, 0.5, 3)


def _raw_columns(spec):
    raw = {}
    for c in spec["cols"]:
        if c["kind"] == "num":
            raw[c["name"]] = numpy.array([numpy.nan if v is None else v for v in c["values"]], dtype=float)
    return raw


def _factor_table(spec):
    """expr -> ("cat", [(level_str, indicator)], flavor) | ("num", values).  Independent of formulaic."""
    table = {}
    raw = _raw_columns(spec)
    for c in spec["cols"]:
        if c["kind"] == "cat":
            vals = c["values"]
            table[c["name"]] = (
                "cat",
                [(str(lv), numpy.array([1.0 if v == lv else 0.0 for v in vals])) for lv in mf.level_order(c)],
                c["flavor"],
            )
            table.update(_c_variants(c["name"], table[c["name"]]))
        else:
            table[c["name"]] = ("num", raw[c["name"]])
    for expr, (needs, fn) in EXPR_ORACLES.items():
        if all(n in raw for n in needs):
            table[expr] = ("num", fn(raw))
    return table


def _c_variants(name, entry):
    """Categorical factor expressions C(name, ...) written as formulaic prints them, with their documented meaning:
    full encoding = one indicator per level in level order (labels `expr[level]`); reduced labels:
      C(A), C(A, levels=[...]), C(A, contr.SAS): `expr[T.level]` = indicator of the level;
      C(A, contr.sum): `expr[S.level]` = indicator(level) - indicator(last level)   (deviation coding).
    4th tuple element: {reduced piece label: vector}."""
    _, levels, flavor = entry[:3]
    out = {}

    def treat(expr, lv):
        return {f"{expr}[T.{lab}]": ind for lab, ind in lv}

    e = f"C({name})"
    out[e] = ("cat", levels, flavor, treat(e, levels))
    rev = list(reversed(levels))
    e = f"C({name}, levels={[lab for lab, _ in rev]!r})"
    out[e] = ("cat", rev, flavor, treat(e, rev))
    e = f"C({name}, contr.SAS)"
    out[e] = ("cat", levels, flavor, treat(e, levels))
    e = f"C({name}, contr.sum)"
    last = levels[-1][1]
    out[e] = ("cat", levels, flavor, {f"{e}[S.{lab}]": ind - last for lab, ind in levels[:-1]})
    return out


def _variants_of(table, name):
    return [e for e in table if e.startswith(f"C({name}") and table[e][0] == "cat"]


def _pool(spec, table, cap):
    cats = [c["name"] for c in spec["cols"] if c["kind"] == "cat"]
    nums = [c["name"] for c in spec["cols"] if c["kind"] == "num"]
    exprs = [e for e in EXPR_ORACLES if e in table]
    pool = cats + nums[:2] + exprs[:2] + nums[2:] + exprs[2:]   # (the C(...) variants are added separately)
    return pool[:cap]


def _term_text(scale, factors):
    """scale: None | one number (written first) | a tuple of (literal, position) pairs: several DISTINCT numeric literals,
    each inserted before the factor at `position` (position == len(factors): written last)."""
    if isinstance(scale, tuple):
        parts = []
        for i in range(len(factors) + 1):
            parts += [repr(lit) for lit, pos in scale if pos == i]
            if i < len(factors):
                parts.append(factors[i])
        return ":".join(parts)
    return ":".join(([repr(scale)] if scale is not None else []) + list(factors))


def _scale_value(scale):
    """The term's literal scale = the product of all its numeric literals."""
    if scale is None:
        return 1.0
    if isinstance(scale, tuple):
        return float(math.prod(lit for lit, _ in scale))
    return float(scale)


def _formula_text(intercept, terms):
    body = " + ".join(_term_text(s, fs) for s, fs in terms)
    return body if intercept else "0 + " + body


def _cases_for_frame(spec, seed, frame_index, thorough):
    """Deterministic list of (formula_text, intercept, terms) for one frame.
    terms: list of (scale|None, tuple_of_factor_exprs)."""
    table = _factor_table(spec)
    pool = _pool(spec, table, cap=6 if thorough else 5)
    cats = [c["name"] for c in spec["cols"] if c["kind"] == "cat"]
    cases = []
    # (1) exhaustive single-term formulas: every ordered tuple of <=3 distinct factors, with/without a
    #     literal scale, with/without intercept
    for k in (1, 2, 3):
        for fs in itertools.permutations(pool, k):
            for scale in (None, 2.5):
                for intercept in (True, False):
                    cases.append((intercept, [(scale, fs)]))
    # (2) seeded multi-term formulas: 2..4 terms with distinct factor sets
    rng = random.Random(seed * 1000003 + frame_index)
    n_multi = 600 if thorough else 100
    subsets = [fs for k in (1, 2, 3) for fs in itertools.combinations(pool, k)]
    if len(subsets) >= 2:
        for _ in range(n_multi):
            nt = rng.randint(2, min(4, len(subsets)))
            chosen = rng.sample(subsets, nt)
            terms = []
            for fs in chosen:
                fs = list(fs)
                rng.shuffle(fs)
                u = rng.random()
                if u < 0.24:
                    scale = rng.choice(SCALES)
                elif u < 0.32:  # two distinct literals at seeded positions
                    a, b2 = rng.sample(SCALES + (2, 4), 2)
                    scale = ((a, rng.randint(0, len(fs))), (b2, rng.randint(0, len(fs))))
                else:
                    scale = None
                terms.append((scale, tuple(fs)))
            if cats and rng.random() < 0.35:
                # write the first categorical as one of its C(...) variants throughout this formula
                v = rng.choice(_variants_of(table, cats[0]))
                terms = [(sc, tuple(v if f == cats[0] else f for f in fs)) for sc, fs in terms]
            cases.append((rng.random() < 0.7, terms))
    # (2b) several distinct numeric literals in one term (ints and decimals, at different positions): the term's scale is
    #      their product
    multi_lits = [((2, 0), (3, 0)), ((0.5, 0), (4, "end")), ((2, "end"), (3, "end")), ((2, 0), (0.5, 1), (3, "end")), ((3, 1), (2.5, 1))]
    base = [(f,) for f in pool[:3]] + list(itertools.permutations(pool[:3], 2))[:3]
    flip = False
    for fs in base:
        for lits in multi_lits:
            sc = tuple((lit, len(fs) if pos == "end" else min(pos, len(fs))) for lit, pos in lits)
            flip = not flip
            cases.append((flip, [(sc, fs)]))
    if len(pool) >= 2:
        cases.append((True, [(None, (pool[0],)), (((2, 0), (5, 0)), (pool[1],))]))
        cases.append((False, [(((0.5, 1), (3, 0)), (pool[0],)), (None, (pool[1], pool[0]))]))
    # (3) systematic: every C(...) variant of the first categorical alone, crossed with a numeric / another categorical,
    #     and at both ranks in one build (V + V:x)
    if cats:
        n0 = next((p for p in pool if p not in cats), None)
        b0 = cats[1] if len(cats) > 1 else None
        for v in _variants_of(table, cats[0]):
            shapes = [[(v,)]]
            if n0:
                shapes += [[(v, n0)], [(n0, v)], [(v,), (v, n0)]]
            if b0:
                shapes += [[(v, b0)], [(b0, v)], [(v,), (v, b0)], [(b0,), (b0, v)]]
            if n0 and b0:
                shapes += [[(v, b0), (n0,)], [(n0, b0, v)]]
            for shape in shapes:
                for intercept in (True, False):
                    cases.append((intercept, [(None, fs) for fs in shape]))
    return table, [(_formula_text(i, t), i, t) for i, t in cases]


def _expected_terms(formula_text, generated_terms, intercept):
    """Term order from `Formula(text)` (the statement's "formula order"); cross-checked against
    what was generated so that a parser problem is never blamed on the materializer."""
    from formulaic import Formula

    terms = []
    try:
        parsed = list(Formula(formula_text))
    except Exception:  # a parser problem is C01/C14's subject; the case is skipped (and counted)
        return None
    for t in parsed:
        scale, fs = 1.0, []
        for f in t.factors:
            if f.eval_method.value == "literal":
                scale *= float(f.expr)
            else:
                fs.append(f.expr)
        terms.append((scale, tuple(fs)))
    want = sorted((_scale_value(s), tuple(sorted(fs))) for s, fs in generated_terms)
    if intercept:
        want.append((1.0, ()))
    got = sorted((s, tuple(sorted(fs))) for s, fs in terms)
    if sorted(want) != got:
        return None
    # factor order inside a term is the written one
    written = {frozenset(fs): fs for _, fs in generated_terms}
    for s, fs in terms:
        if fs and written[frozenset(fs)] != fs:
            return None
    return terms


def _full_kron(terms, table, n):
    """Expected (names, matrix) with rank reduction off."""
    names, cols = [], []
    for scale, fs in terms:
        if not fs:
            names.append("Intercept")
            cols.append(scale * numpy.ones(n))
            continue
        encs = []
        for f in fs:
            ent = table[f]
            if ent[0] == "cat":
                encs.append([(f"{f}[{lv}]", ind) for lv, ind in ent[1]])
            else:
                encs.append([(f, ent[1])])
        for idx in _mixed_radix_indices([len(e) for e in encs]):
            names.append(":".join(encs[i][j][0] for i, j in enumerate(idx)))
            v = numpy.full(n, float(scale))
            for i, j in enumerate(idx):
                v = v * encs[i][j][1]
            cols.append(v)
    M = numpy.stack(cols, axis=1) if cols else numpy.empty((n, 0))
    return names, M


def _admissible_pieces(table):
    pieces = {}
    for f, ent in table.items():
        if ent[0] == "cat":
            for lv, ind in ent[1]:
                pieces[f"{f}[{lv}]"] = (f, ind)
                if len(ent) < 4:
                    pieces[f"{f}[T.{lv}]"] = (f, ind)
            if len(ent) >= 4:
                for lab, vec in ent[3].items():
                    pieces[lab] = (f, vec)
        else:
            pieces[f] = (f, ent[1])
    return pieces


def _ratio_class(got, want):
    """Classify a numeric mismatch by the (constant) ratio got/want where want != 0."""
    mask = numpy.abs(want) > 1e-9
    if not mask.any() or not numpy.all(numpy.isfinite(got[mask])):
        return None
    r = got[mask] / want[mask]
    if not numpy.allclose(r, r.flat[0], rtol=1e-9):
        return None
    return float(r.flat[0])


E2E_HEAD = '''\
import numpy, pandas, formulaic
{frame}
mm = formulaic.model_matrix({formula!r}, df, ensure_full_rank={rank!r}, output={output!r}, context={{"np": numpy}})
names = list(mm.model_spec.column_names)
if {output!r} == "pandas":
    assert list(mm.columns) == names, ("pandas column labels differ from model_spec.column_names", list(mm.columns), names)
raw = mm.toarray() if {output!r} == "sparse" else numpy.asarray(mm)
def col(j):
    return numpy.asarray(raw[:, j], dtype=float)   # raises if the matrix holds non-numbers
'''


E2E_JUDGE_WITNESS = '''\
# the driver's judge could not be applied to what the library returned; this re-runs it on the same case
import numpy
from vf.bounded import c02, _matrix_frames as mf
spec = {spec!r}
df = mf.build_frame(spec)
table = c02._factor_table(spec)
status, fails = c02._check_case(spec, df, table, {formula!r}, {intercept!r}, {terms!r}, {rank!r}, {output!r})
assert not fails, fails
'''


def _to_float_matrix(mm, output):
    raw = mm.toarray() if output == "sparse" else numpy.asarray(mm)
    try:
        return numpy.asarray(raw, dtype=float), None
    except (ValueError, TypeError) as e:
        return None, f"matrix holds non-numeric entries ({type(e).__name__}: {e}); first row {raw[:1].tolist()}"


def _check_case(spec, df, table, formula, intercept, terms, rank, output):
    """Returns list of failures [(clause, cls, detail, assertion_code)] ('code' is appended to E2E_HEAD)."""
    import formulaic

    n = spec["n"]
    used = {f for _, fs in terms for f in fs}
    str_dtype = any(table[f][0] == "cat" and table[f][2] == "str" for f in used)
    fails = []
    try:
        mm = formulaic.model_matrix(formula, df, ensure_full_rank=rank, output=output, context={"np": numpy})
    except Exception as e:
        cls = "pandas3-str-dtype" if str_dtype else f"raises-{type(e).__name__}"
        return "checked", [("C02.e2e.builds", cls, f"{type(e).__name__}: {e}", "")]
    names = list(mm.model_spec.column_names)
    if output == "pandas" and list(mm.columns) != names:
        fails.append(("C02.e2e.names-from-spec", "pandas-labels-vs-spec", f"{list(mm.columns)} vs {names}", ""))
    X, problem = _to_float_matrix(mm, output)
    tag = "pandas3-str-dtype" if str_dtype else None
    if X is None:
        fails.append(("C02.e2e.numeric", tag or "non-numeric-entries", problem, "for j in range(len(names)): col(j)\n"))
        return "checked", fails
    if X.shape != (n, len(names)):
        fails.append(("C02.e2e.shape", tag or "shape", f"shape {X.shape} but {n} rows and {len(names)} names",
                      f"assert raw.shape == ({n}, len(names)), raw.shape\n"))
        return "checked", fails

    # ---- intercept
    if intercept:
        if "Intercept" not in names:
            fails.append(("C02.e2e.intercept", tag or "intercept-missing", f"no 'Intercept' among {names}",
                          "assert 'Intercept' in names, names\n"))
        elif not numpy.array_equal(X[:, names.index("Intercept")], numpy.ones(n)):
            fails.append(("C02.e2e.intercept", tag or "intercept-not-ones", f"{X[:, names.index('Intercept')]}",
                          "assert (col(names.index('Intercept')) == 1).all()\n"))
    elif "Intercept" in names:
        fails.append(("C02.e2e.intercept", tag or "intercept-unrequested", f"{names}", "assert 'Intercept' not in names\n"))

    if not rank:
        # ---- complete Kronecker product, term by term
        exp_names, M = _full_kron(terms, table, n)
        if names != exp_names:
            cls = tag or ("names-same-set-other-order" if sorted(names) == sorted(exp_names) else "names-differ")
            fails.append(("C02.e2e.rankoff.kronecker-names", cls, f"got {names} expected {exp_names}",
                          f"assert names == {exp_names!r}, names\n"))
        else:
            bad = [j for j in range(len(names)) if not numpy.allclose(X[:, j], M[:, j], rtol=RTOL, atol=ATOL, equal_nan=True)]
            if bad:
                j = bad[0]
                term_scale = _scale_of_column(terms, table, j)
                r = _ratio_class(X[:, j], M[:, j] / term_scale)
                cls = _scale_cls(r, [term_scale])  # (no dtype tag here: a wrong number is not the str-dtype symptom)
                fails.append(("C02.e2e.rankoff.kronecker-values", cls,
                              f"column {names[j]!r}: got {X[:, j].tolist()} expected {M[:, j].tolist()} (ratio {r})",
                              f"j = names.index({names[j]!r})\nassert numpy.allclose(col(j), {M[:, j].tolist()!r}, rtol=1e-9, atol=1e-12), col(j)\n"))
    else:
        # ---- every emitted column obeys its label
        pieces = _admissible_pieces({f: table[f] for f in used})
        if len(set(names)) != len(names):
            fails.append(("C02.e2e.rankon.labels-unique", tag or "duplicate-label", f"{names}",
                          "assert len(set(names)) == len(names), names\n"))
        for j, label in enumerate(names):
            if label == "Intercept":
                continue
            ps = label.split(":")
            if not all(p in pieces for p in ps) or len({pieces[p][0] for p in ps}) != len(ps):
                fails.append(("C02.e2e.rankon.label-parses", tag or "unparsable-label",
                              f"label {label!r} is not a ':'-join of encoded columns of distinct factors; admissible pieces {sorted(pieces)}",
                              f"ok = {sorted(pieces)!r}\nassert all(p in ok for n in names if n != 'Intercept' for p in n.split(':')), names\n"))
                break
            fset = {pieces[p][0] for p in ps}
            base = numpy.ones(n)
            for p in ps:
                base = base * pieces[p][1]
            cands = sorted({s for s, fs in terms if fset <= set(fs)})
            if not cands:
                fails.append(("C02.e2e.rankon.label-parses", tag or "label-of-no-term",
                              f"label {label!r} uses factors {sorted(fset)} contained in no term of {formula!r}",
                              f"assert {label!r} not in names\n"))
                break
            if not any(numpy.allclose(X[:, j], s * base, rtol=RTOL, atol=ATOL, equal_nan=True) for s in cands):
                r = _ratio_class(X[:, j], base)
                cls = _scale_cls(r, cands)
                fails.append(("C02.e2e.rankon.label-product", cls,
                              f"column {label!r}: got {X[:, j].tolist()} expected {[float(x) for x in cands[0] * base]} "
                              f"(admissible term scales {cands}; observed/unscaled-product ratio {r})",
                              f"j = names.index({label!r})\nbase = numpy.array({base.tolist()!r})\n"
                              f"assert any(numpy.allclose(col(j), s * base, rtol=1e-9, atol=1e-12) for s in {cands!r}), col(j)\n"))
                break
    # ---- the attached spec denotes the same columns: re-materializing it on the same data must reproduce every column
    # (a label that held its product on the first build must still hold it when the recorded structure is replayed)
    if not fails:
        try:
            mm2 = mm.model_spec.get_model_matrix(df, context={"np": numpy})
            X2, problem2 = _to_float_matrix(mm2, output)
            names2 = list(mm2.model_spec.column_names)
            if X2 is None or names2 != names or X2.shape != X.shape or not numpy.allclose(X2, X, rtol=RTOL, atol=ATOL, equal_nan=True):
                bad = "names/shape" if (X2 is None or names2 != names or X2.shape != X.shape) else names[[j for j in range(len(names)) if not numpy.allclose(X2[:, j], X[:, j], rtol=RTOL, atol=ATOL, equal_nan=True)][0]]
                fails.append(("C02.e2e.replay.label-product", tag or "spec-replay-differs",
                              f"re-materializing mm.model_spec on the same data changes column {bad!r}",
                              "mm2 = mm.model_spec.get_model_matrix(df, context={'np': numpy})\n"
                              f"raw2 = mm2.toarray() if {output!r} == 'sparse' else numpy.asarray(mm2)\n"
                              "assert list(mm2.model_spec.column_names) == names\n"
                              "assert numpy.allclose(numpy.asarray(raw2, dtype=float), numpy.asarray(raw, dtype=float), rtol=1e-9, atol=1e-12, equal_nan=True)\n"))
        except Exception as e:  # noqa: BLE001
            fails.append(("C02.e2e.replay.label-product", tag or f"spec-replay-raises-{type(e).__name__}", f"{type(e).__name__}: {e}",
                          "mm.model_spec.get_model_matrix(df, context={'np': numpy})\n"))
    return "checked", fails


def _scale_of_column(terms, table, j):
    pos = 0
    for scale, fs in terms:
        width = 1
        for f in fs:
            ent = table[f]
            width *= len(ent[1]) if ent[0] == "cat" else 1
        if pos <= j < pos + width:
            return scale
        pos += width
    return None


def _scale_cls(r_unscaled, cands):
    """r_unscaled = observed / (product of the factor columns, without any literal scale);
    cands = the literal scales the column is allowed to carry."""
    if r_unscaled is None:
        return "value-mismatch"
    if math.isclose(r_unscaled, 1.0, rel_tol=1e-9) and all(not math.isclose(s, 1.0) for s in cands):
        return "literal-scale-not-applied"
    for s in cands:
        if math.isclose(abs(s), 1.0) or r_unscaled * s <= 0 and s > 0:
            continue
        k = round(math.log(abs(r_unscaled)) / math.log(abs(s)))
        if k >= 2 and math.isclose(r_unscaled, s ** k, rel_tol=1e-9):
            return "literal-scale-applied-more-than-once"
    return "value-mismatch"


def _e2e_task(args):
    try:
        return _e2e_task_body(args)
    except Exception as e:  # nothing may escape a pool worker
        cls = f"oracle-not-applicable:{type(e).__name__}"
        witness = {"formula": "(whole task)", "frame": mf.spec_summary(args[0]), "ensure_full_rank": None, "output": None, "cls": cls,
                   "code": "from vf.bounded import c02\nc02._e2e_task_body(" + repr(tuple(args)) + ")\n"}
        return 1, set(), [], [("C02.e2e.builds", witness, f"{type(e).__name__}: {e}\n{traceback.format_exc()[-1500:]}")], {("C02.e2e.builds", cls): 1}, 0


def _e2e_task_body(args):
    base_spec, seed, frame_index, thorough, part, nparts = args
    table, cases = _cases_for_frame(base_spec, seed, frame_index, thorough)
    outputs = ("pandas", "numpy", "sparse")
    n_eval, keys, samples, failures, skipped = 0, set(), [], [], 0
    per_class = {}
    # the same rows under four kinds of row labels; the oracle is positional (raw value lists), so a column that is
    # combined by index label instead of by position shows up as a wrong value
    irng = random.Random(seed * 31 + frame_index)
    ispecs = [mf.with_index(base_spec, kind, irng) for kind in mf.INDEX_KINDS]
    dfs = [mf.build_frame(sp) for sp in ispecs]
    for ci in range(part, len(cases), nparts):
        formula, intercept, gen_terms = cases[ci]
        single = len(gen_terms) == 1
        try:
            terms = _expected_terms(formula, gen_terms, intercept)
        except Exception:  # whatever Formula(...) hands back that cannot be read as terms: parser's subject, skipped + counted
            terms = None
        if terms is None:
            skipped += 1
            continue
        for rank in (True, False):
            k0 = (ci // 3 + rank) % 4
            if thorough and single:
                runs = [(o, k0) for o in outputs] + [("pandas", (k0 + 1) % 4)]  # pandas output always meets a non-default index
            else:
                runs = [(outputs[(ci + rank) % 3], k0)]
            for output, kind in runs:
                spec, df = ispecs[kind], dfs[kind]
                try:
                    status, fails = _check_case(spec, df, table, formula, intercept, terms, rank, output)
                except Exception as e:
                    # the judge itself failed on what the library returned (garbage cells, unexpected shapes, ...): that is
                    # an outcome of this case, not a reason to stop the run
                    status = "checked"
                    fails = [("C02.e2e.rankon.label-product" if rank else "C02.e2e.rankoff.kronecker-values",
                              f"oracle-not-applicable:{type(e).__name__}",
                              f"{type(e).__name__}: {e}\n{traceback.format_exc()[-1500:]}", None)]
                if status != "checked":
                    skipped += 1
                    continue
                n_eval += 1
                key = (mf.spec_summary(spec), frame_index, formula, rank, output)
                keys.add(_digest(key))
                if len(samples) < 2:
                    samples.append({"frame": mf.spec_summary(spec), "formula": formula, "ensure_full_rank": rank, "output": output})
                for clause, cls, detail, assertion in fails:
                    k = (clause, cls)
                    per_class[k] = per_class.get(k, 0) + 1
                    if per_class[k] <= 2:
                        if assertion is None:  # re-run the driver's own judge on the same case
                            code = E2E_JUDGE_WITNESS.format(spec=spec, formula=formula, intercept=intercept, terms=terms,
                                                            rank=rank, output=output)
                        else:
                            code = E2E_HEAD.format(frame=mf.frame_code(spec), formula=formula, rank=rank, output=output) + assertion
                        failures.append((clause, {"formula": formula, "frame": mf.spec_summary(spec), "ensure_full_rank": rank,
                                                  "output": output, "cls": cls, "code": code}, detail))
    return n_eval, keys, samples, failures, per_class, skipped


def _many_level_specs(seed, thorough):
    """Frames whose first categorical has 6..8 levels (the level COUNT as a dimension: names pairwise distinct, one
    column per level / per reduced level, in level order)."""
    rng = random.Random(seed * 9176 + 41)
    grid = [(6, 7, "category"), (6, 6, "object")] + ([(6, 8, "category"), (5, 6, "str"), (6, 8, "object")] if thorough else [])
    out = []
    for n, nlev, flavor in grid:
        labels = [f"v{k}" for k in range(1, nlev + 1)]
        if flavor == "category":
            levels = labels[:]
            rng.shuffle(levels)  # category order is not the sorted order; with n < nlev some levels have no rows
        else:
            levels = labels
        vals = [labels[i % nlev] for i in range(n)]
        rng.shuffle(vals)
        out.append({"n": n, "cols": [mf.cat_col("A", flavor, levels, vals),
                                     mf.num_col("a", "float", mf.generic_floats(rng, n, positive=False))]})
    return out


def _run_e2e(ctx):
    specs = mf.small_frame_specs(ctx.seed, ctx.thorough) + _many_level_specs(ctx.seed, ctx.thorough)
    nparts = 4 if ctx.thorough else 8
    tasks = [(spec, ctx.seed, fi, ctx.thorough, part, nparts) for fi, spec in enumerate(specs) for part in range(nparts)]
    with ctx.bounded(
        "e2e-label-recompute",
        rule="model_matrix on generated frames x formulas x ensure_full_rank x output; a case = (frame, formula, rank flag, "
             "output); every column is recomputed from the raw data through its parsed label; all cases non-trivial "
             "(each formula has a term with >= 1 data factor)",
        exhaustive=False,
        bound="frames: rows 1..6 with row labels default / shuffled 0..n-1 / subset of a larger range / strings (rotating; "
              "thorough single-term cases: all outputs under one kind + pandas output under a second), 0-3 categoricals (1..4 levels, + frames with one 6..8-level categorical; category/object/str dtype; also written "
              "C(A), C(A, levels=[reversed]), C(A, contr.SAS), C(A, contr.sum)), 0-3 numerics (+ I(a * 2), "
              "np.log(b), I(a + b), I(b ** 2)); formulas: every single term of <= 3 ordered factors from a pool of <= 5 (quick) / 6 (thorough), "
              "x {no scale, 2.5:} x intercept on/off (exhaustive), + terms with 2-3 distinct literals (ints/decimals, first/middle/last position), + seeded 2-4 term formulas (100 quick / 600 thorough per frame) with scales "
              f"{SCALES}; rank on/off; outputs rotate in the quick tier, all three in the thorough tier (single-term cases)",
    ) as b:
        totals, skipped = {}, 0
        collected = []
        with ProcessPoolExecutor(16) as ex:
            for n_eval, keys, samples, failures, per_class, sk in ex.map(_e2e_task, tasks):
                b.add_counts(n_eval, keys, samples)
                skipped += sk
                for k, v in per_class.items():
                    totals[k] = totals.get(k, 0) + v
                collected.extend(failures)
        # smallest witnesses first
        collected.sort(key=lambda f: (len(f[1]["formula"]), len(f[1]["code"]), f[1]["formula"], f[1]["output"]))
        emit_round_robin(b, collected, MAX_WITNESS_PER_CLASS)
        for (clause, cls), n in sorted(totals.items()):
            ctx.notes.append(f"{clause} cls={cls}: {n} failing cases in total")
        if skipped:
            ctx.notes.append(f"C02 e2e: {skipped} cases skipped because Formula(text) did not give back the generated terms")


def run_bounded(ctx):
    _run_kron(ctx)
    _run_e2e(ctx)
    if not ctx.explanation:  # the proofs module normally sets this; keeps the evidence schema-valid on its own
        ctx.explanation = ("bounded stand-in: the real _get_columns_for_term on symbolic (sympy) columns over all shapes k<=4 x "
                           "widths<=3, and model_matrix end-to-end with every column recomputed from the raw data through its label")
    ctx.assume(
        "A-float: floating point treated as real arithmetic up to rtol 1e-9 (a product of <= 4 doubles and a literal, "
        "associated differently)",
        "A-level-order: the level order of a pandas categorical is its categories order; of an object/str column the "
        "sorted distinct values",
        "A-formula-order: 'formula order' is the order of terms (and of factors inside a term) of formulaic.Formula(text); "
        "cases where that does not give back the generated term set are skipped (parser is C01's subject)",
        "A-label-grammar: level names and factor expressions used by the generator contain neither ':' nor ']' and no "
        "level starts with 'T.', so labels parse uniquely",
    )
