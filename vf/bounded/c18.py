"""C18 bounded stand-in: materialization is pure and deterministic across calls, histories and
hash seeds.

Every history (a list of 1-5 calls, see _c18_runtime.py) is executed in its own process forked from
a freshly started interpreter that has only imported the libraries.  Contracts (from the statement):
  inputs   : after every call the data frames, the formula specs (mutable list / dict specs; for shared
             Formula objects and the formulas held by shared specs a deep snapshot of every term and of
             every factor attribute: expr, eval method, kind, metadata, token) and the context dict -- including the mutable lists / dicts / arrays in it
             that formulas hand to transforms as arguments (array contents bit for bit incl. NaN positions, dtype,
             shape, writeable flag) -- equal deep copies taken before; the global
             numpy.random / random streams are in the same state after a call as before it;
  history  : the result of call i (values bit for bit, dtypes, column order, index labels, rows the
             caller's drop set reports) equals the result of *the same call made in a fresh process*
             -- for a build: that build alone; for a spec re-use: the build that produced the spec,
             then the re-use (so results may depend on nothing else that happened before);
             this also covers "previously obtained specs behave the same after later builds";
  hashseed : the per-call digests of a history are identical under PYTHONHASHSEED 0, 1, 2, 3, random.
"""
from __future__ import annotations

import concurrent.futures as cf
import itertools
import json
import os
import random
import subprocess
import sys
from pathlib import Path

from . import _nullrows_common as K

RUNTIME = Path(__file__).with_name("_c18_runtime.py").read_text()

SPECS = {
    "a+b": "a + b",
    "a+A": "a + A",
    "center": "center(a) + A",
    "scale:B": "scale(a):B + b",
    "two-sided": "b ~ a + A",
    "poly": "poly(b, 2) + B",
    "bs": "bs(b, df=4) + a",
    "context": "a:k + double(b)",
    "hashed": "hashed(A, levels=4) + b",
    "multi-part": "a + A | b + B",
    "lag": "lag(a) + b",
    "many-factors": "a + b + A + B + a:A + b:B + center(b) + scale(a)",
    "list-spec": ["a", "A", "a:A"],
    "dict-spec": {"lhs": "b", "rhs": "center(a) + B"},
    "C-levels": "C(A, levels=lv) + a",
    "C-sum": "C(B, contr.sum) + scale(b)",
    # mutable objects referenced by name and handed to transforms as arguments
    "bs-knots-list": "bs(b, knots=kn) + a",
    "cr-knots-list": "cr(b, knots=kn2) + a",
    "custom-contrasts-dict": "C(A, contrasts=cm) + a",
    "scale-center-list": "scale(a, center=ctr) + b",
    "poly-array": "poly(b, 2) + a:pw[0]",
    # columns whose names are not identifiers, back-ticked inside several Python-evaluated (stateful) factors
    "backtick-two-stateful": "center(`my col`) + scale(`my col`)",
    "backtick-plain+stateful": "I(`my col`**2) + center(`my col`)",
    "backtick-lookup+stateful": "`my col` + center(`a-b`) + scale(`a-b`):A",
    # interactions of three / four categorical factors whose lower-order terms are not all in the formula
    "cat3-only": "A:B:G",
    "cat3-one-main": "A + A:B:G",
    "cat3-all-mains": "A + B + G + A:B:G",
    "cat3-numeric": "a + A:B:G:a",
    "cat4": "A:B:G:H",
    "cat3-two-way": "A:B + B:G + A:B:G",
    # every shipped transform over writable numpy vectors (float64 / float32 / int64, one with NaNs) that the caller
    # holds in the context
    "ctxvec-lag": "lag(vf64) + lag(vi64) + lag(vf32, -1) + b",
    "ctxvec-scale": "center(vf64) + scale(vf32) + standardize(vi64) + a",
    "ctxvec-splines": "bs(vf64, df=4) + cr(vf32, df=3) + cc(vf64, df=3)",
    "ctxvec-poly-cat": "poly(vf64, 2) + C(vi64) + hashed(vf64, levels=3) + C(vf32, contr.sum)",
    "ctxvec-nan": "lag(vf64n) + np.log(vf64n + 1) + I(vf64n * 2) + b",
    "ctxvec-nan-stateful": "center(vf64n) + scale(vf64n) + a",
}
STATEFUL = {"center", "scale:B", "poly", "bs", "many-factors", "dict-spec", "C-sum", "bs-knots-list", "cr-knots-list", "scale-center-list", "poly-array",
            "backtick-two-stateful", "backtick-plain+stateful", "backtick-lookup+stateful",
            "ctxvec-scale", "ctxvec-splines", "ctxvec-poly-cat", "ctxvec-nan-stateful"}
CORE = ["a+A", "backtick-two-stateful", "bs-knots-list"]
CORE_THOROUGH = ["a+A", "center", "poly", "dict-spec", "backtick-two-stateful", "two-sided", "bs-knots-list", "backtick-lookup+stateful"]
DATA = ("d0", "d1", "d2")
DATA_KINDS = ("d0", "d2", "d3")  # d3: column A holds numbers instead of text (same formula object, other kind)
# a dict-of-columns input ("dd" in the runtime) is rejected by the library on this Python ('builtins.dict' is not a
# registered input type), so it is not drawn; the runtime keeps supporting it.
DATA_ALL = DATA + ("d3",)
OUTPUTS = ("pandas", "numpy", "sparse")
BUILD_KINDS = ("mm", "Fmm", "uspec")
SEEDS = ("0", "1", "2", "3", "random")


def _spec_name(js):
    for k, v in SPECS.items():
        if v == js:
            return k
    return "?"


# --------------------------------------------------------------------------- running histories


def run_zygotes(histories, hashseed, procs=16):
    """Run every history in a forked child of a fresh interpreter started with PYTHONHASHSEED=hashseed."""
    if not histories:
        return []
    procs = max(1, min(procs, (len(histories) + 7) // 8))
    chunks = [list(range(i, len(histories), procs)) for i in range(procs)]
    env = dict(os.environ, PYTHONHASHSEED=hashseed, OPENBLAS_NUM_THREADS="1", OMP_NUM_THREADS="1", MKL_NUM_THREADS="1",
               PYTHONDONTWRITEBYTECODE="1")
    # PYTHONPATH is inherited on purpose: a scratch tree placed in front of /repo (mutation self-test) must be
    # the one the child processes import as well.

    def failed(msg):
        return {"failed": msg[-1200:], "calls": [], "mutations": []}

    def one(idx):
        # Whatever the child interpreter does (dies at import, is killed, prints garbage, returns too few lines) is an
        # OUTCOME of the histories it was given, never an exception of this driver.
        inp = "".join(json.dumps(histories[i]) + "\n" for i in idx)
        try:
            p = subprocess.run([sys.executable, "-c", RUNTIME + "\nzygote_main()\n"], input=inp, capture_output=True, text=True,
                               env=env, timeout=3600)
        except Exception as e:
            return [failed(f"fresh interpreter could not be run: {type(e).__name__}: {e}") for _ in idx]
        lines = [ln for ln in p.stdout.splitlines() if ln.strip()]
        res = []
        for j in range(len(idx)):
            if j >= len(lines):
                res.append(failed(f"fresh interpreter ended early (rc={p.returncode}, {len(lines)}/{len(idx)} results): {p.stderr}"))
                continue
            try:
                r = json.loads(lines[j])
                if not isinstance(r, dict) or ("calls" not in r and "driver_error" not in r):
                    raise ValueError("not a result record")
            except Exception:
                r = failed(f"unreadable result line {lines[j][:200]!r}; stderr: {p.stderr}")
            if "driver_error" in r:
                # run_history raised outside the guarded calls: the snapshot / digest code was fed something it cannot digest
                r = failed("history could not be judged in the child process: " + r["driver_error"])
            res.append(r)
        return res

    out = [None] * len(histories)
    with cf.ThreadPoolExecutor(procs) as ex:
        for idx, res in zip(chunks, ex.map(one, chunks)):
            for i, r in zip(idx, res):
                out[i] = r
    return out


def isolated_chain(history, i):
    """The same call in a fresh process: builds stand alone, re-uses need the build that made the spec."""
    op = history[i]
    if op[0] in ("reuse", "mm_of"):
        return [history[op[1]], [op[0], 0] + list(op[2:])]
    if op[0] == "joint":
        return [history[k] for k in op[1]] + [["joint", list(range(len(op[1])))] + list(op[2:])]
    return [op]


# --------------------------------------------------------------------------- enumeration


def _uses_shadowable(spec_name):
    return any(t in json.dumps(SPECS[spec_name]) for t in ("center(", "scale("))


def pair_histories(core, data=DATA, shadow_data=("d0",)):
    ops = [[k, SPECS[s], d, "pandas"] for k in BUILD_KINDS for s in core for d in data]
    # the same builds with a context that binds `center` / `scale` to plain user functions (both orders arise
    # because every ordered pair of ops is taken)
    ops += [[k, SPECS[s], d, "pandas", "shadow"] for k in BUILD_KINDS for s in core if _uses_shadowable(s) for d in shadow_data]
    for o1, o2 in itertools.product(ops, repeat=2):
        yield [o1, o2, ["joint", [0, 1], "d2"], ["reuse", 0, "d2"], ["reuse", 1, "d0"]]


def random_histories(rng, count):
    names = list(SPECS)
    for _ in range(count):
        length = rng.choice([1, 2, 3, 3, 4, 4, 5, 5])
        focus = rng.sample(names, rng.choice([1, 1, 2]))  # histories revolve around one or two formulas
        if rng.random() < 0.2:
            focus[0] = rng.choice([n for n in names if n.startswith("ctxvec-")])
        h = []
        for i in range(length):
            builds = [j for j, o in enumerate(h) if o[0] in BUILD_KINDS]
            if len(builds) >= 2 and rng.random() < 0.15:
                h.append(["joint", rng.sample(builds, 2), rng.choice(DATA_ALL)])
            elif builds and rng.random() < 0.4:
                h.append([rng.choice(["reuse", "reuse", "mm_of"]), rng.choice(builds), rng.choice(DATA_ALL)])
            else:
                s = rng.choice(focus) if rng.random() < 0.8 else rng.choice(names)
                h.append([rng.choice(BUILD_KINDS), SPECS[s], rng.choice(DATA_ALL), rng.choice(OUTPUTS)])
            # some calls see a context that shadows built-in transform names with plain functions
            if rng.random() < (0.3 if h[-1][0] in BUILD_KINDS and _uses_shadowable(_spec_name(h[-1][1])) else 0.08):
                h[-1].append("shadow")
        yield h


# --------------------------------------------------------------------------- classification / repro


def classify(history, i):
    op = history[i]
    tags = [op[0]]
    if any((o[-1] == "shadow") != (op[-1] == "shadow") for o in history[:i]):
        tags.append("context-shadowing-differs-from-an-earlier-call")
    if op[0] in ("reuse", "mm_of"):
        origin = history[op[1]]
        tags.append("spec-from-" + origin[0])
        later = [o for o in history[op[1] + 1 : i] if o[0] in BUILD_KINDS]
        if any(o[0] == "joint" and op[1] in o[1] for o in history[op[1] + 1 : i]):
            tags.append("spec-was-part-of-a-joint-build")
        if any(o[1] == origin[1] for o in later):
            tags.append("same-formula-built-in-between")
        elif later:
            tags.append("other-builds-in-between")
        if _spec_name(origin[1]) in STATEFUL:
            tags.append("stateful")
    elif op[0] == "joint":
        if len({json.dumps(history[k][1], sort_keys=True) for k in op[1]}) == 1:
            tags.append("same-formula-specs")
    else:
        same_obj = [o for o in history[:i] if o[0] == op[0] and o[1] == op[1] and (op[0] != "uspec" or o[3] == op[3])]
        if op[0] in ("Fmm", "uspec") and same_obj:
            tags.append("shared-object-used-before")
            if any(o[2] != op[2] for o in same_obj):
                tags.append("on-other-data")
        elif any(o[0] in BUILD_KINDS and o[1] == op[1] for o in history[:i]):
            tags.append("same-formula-built-before")
        if _spec_name(op[1]) in STATEFUL:
            tags.append("stateful")
    return ":".join(tags)


def repro_history(history, i):
    iso = isolated_chain(history, i)
    return (RUNTIME + f"\nH = {history!r}\nISO = {iso!r}\n"
            f"in_history = run_in_child(H)['calls'][{i}]\nfresh = run_in_child(ISO)['calls'][-1]\n"
            "assert in_history['digest'] == fresh['digest'], {'in history': in_history, 'same call in a fresh process': fresh}\n")


def repro_mutation(history):
    return RUNTIME + f"\nH = {history!r}\nr = run_in_child(H)\nassert not r['mutations'], r['mutations']\n"


def repro_hashseed(history):
    return (
        "import os, subprocess, sys, json\n"
        f"RUNTIME = {RUNTIME!r}\nH = {history!r}\nout = {{}}\n"
        f"for seed in {list(SEEDS)!r}:\n"
        "    env = dict(os.environ, PYTHONHASHSEED=seed)\n"
        "    p = subprocess.run([sys.executable, '-c', RUNTIME + '\\nprint(json.dumps([c[\"digest\"] for c in run_history(' + repr(H) + ')[\"calls\"]]))'],\n"
        "                       capture_output=True, text=True, env=env)\n"
        "    assert p.returncode == 0, p.stderr[-800:]\n"
        "    out[seed] = json.dumps(['EXC' if d.startswith('EXC') else d for d in json.loads(p.stdout.strip().splitlines()[-1])])\n"
        "assert len(set(out.values())) == 1, out\n"
    )


def _describe(history):
    return [[o[0], _spec_name(o[1]) if o[0] in BUILD_KINDS else o[1], *o[2:]] for o in history]


# --------------------------------------------------------------------------- driver


def _check_histories(ctx, b, rep, histories, base, iso_results):
    """history / inputs contracts for a batch already executed under seed 0."""
    for h, r in zip(histories, base):
        key = json.dumps(h, sort_keys=True)
        b.case(key, nontrivial=len(h) > 1, sample=_describe(h))
        try:
            _check_one_history(rep, h, r, iso_results)
        except Exception as e:
            f = K.oracle_failure(e, "C18.history.call-equals-fresh-call", _describe(h))
            rep.fail(f["clause"], f["cls"], f["witness"], f["detail"])


def _check_one_history(rep, h, r, iso_results):
    if True:
        if r.get("failed"):
            rep.fail("C18.history.call-equals-fresh-call", "oracle-not-applicable:child-process-failed",
                     {"history": _describe(h), "code": repro_mutation(h)}, r["failed"])
            return
        for m in r["mutations"]:
            op = h[m["after_call"]]
            cls = f"{m['what']}:{op[0]}:{_spec_name(op[1]) if op[0] in BUILD_KINDS else 'reuse'}"
            if m["what"] == "rng":
                origins = [op] if op[0] in BUILD_KINDS else ([h[op[1]]] if op[0] in ("reuse", "mm_of") else [h[k] for k in op[1]])
                data = op[2]
                if data == "d2" and any("`my col`" in json.dumps(o[1]) for o in origins):
                    cls += ":data-has-a-column-named-like-the-alias"
            rep.fail(f"C18.inputs.{m['what']}-unchanged", cls,
                     {"history": _describe(h), "after_call": m["after_call"], "code": repro_mutation(h)},
                     f"{m['object']} changed after call {m['after_call']} {op}: {m['detail']}")
        deviates = set()
        for i, c in enumerate(r["calls"]):
            if c.get("exception", "").startswith("RuntimeError: SKIP"):
                continue
            iso_r = iso_results[json.dumps(isolated_chain(h, i), sort_keys=True)]
            if iso_r.get("failed"):
                rep.fail("C18.history.call-equals-fresh-call", "oracle-not-applicable:child-process-failed",
                         {"history": _describe(h), "call": i, "code": repro_history(h, i)}, "fresh counterpart: " + iso_r["failed"])
                continue
            iso = iso_r["calls"][-1]
            if c["digest"] != iso["digest"]:
                deviates.add(i)
                if h[i][0] in ("reuse", "mm_of") and h[i][1] in deviates:
                    cls = h[i][0] + ":origin-call-already-differs"
                else:
                    cls = classify(h, i)
                rep.fail("C18.history.call-equals-fresh-call", cls,
                         {"history": _describe(h), "call": i, "code": repro_history(h, i)},
                         f"call {i} {h[i]} inside the history: {json.dumps(c)[:600]} ; same call in a fresh process: {json.dumps(iso)[:600]}")


def _run_bounded(ctx):
    rng = random.Random(ctx.seed * 7919 + 18)
    ctx.assume(
        "A-C18-fresh: 'fresh interpreter' = a process forked from an interpreter that has only imported numpy, pandas, "
        "scipy and formulaic (repro programs start a really fresh interpreter)",
        "A-C18-same-call: the fresh counterpart of a spec re-use is the build that produced the spec followed by the re-use",
        "A-C18-digest: a result is its cell values (raw bytes), dtypes, column names, index labels and the content of the "
        "caller's drop set; exception outcomes are compared by type and message (addresses stripped) within one hash seed, and only "
        "as 'the build failed' across hash seeds (which of several failing factors is reported first is seed dependent)",
        "A-C18-blas: single-threaded BLAS in the child processes, so LAPACK-based transforms (poly) are run-to-run reproducible",
    )
    core = CORE_THOROUGH if ctx.thorough else CORE
    pair_data = DATA + ("d3",) if ctx.thorough else DATA_KINDS
    pairs = list(pair_histories(core, pair_data, ("d0", "d2") if ctx.thorough else ("d0",)))
    rand = list(random_histories(rng, 3000 if ctx.thorough else 250))
    # every many-factor interaction formula is always present (fresh builds on two frames + a spec re-use), so that the
    # hash-seed comparison below always sees them
    for name in SPECS:
        if name.startswith("cat"):
            rand.append([["mm", SPECS[name], "d0", "pandas"], ["Fmm", SPECS[name], "d1", "numpy"], ["reuse", 0, "d2"]])
            if ctx.thorough:
                rand.append([["uspec", SPECS[name], "d3", "sparse"], ["mm", SPECS[name], "d2", "pandas"], ["joint", [0, 1], "d0"]])
    every = pairs + rand
    chains = {}
    for h in every:
        for i in range(len(h)):
            ch = isolated_chain(h, i)
            chains.setdefault(json.dumps(ch, sort_keys=True), ch)
    chain_keys = sorted(chains)
    iso_list = run_zygotes([chains[k] for k in chain_keys], "0")
    iso_results = dict(zip(chain_keys, iso_list))

    with ctx.bounded(
        "pairs",
        rule=f"every ordered pair of builds over (entry: model_matrix / shared Formula object / shared un-materialized ModelSpec) x "
        f"formulas {core} x data {list(pair_data)} (d3: the text column A holds numbers; pandas output) plus, for formulas using center/scale, the same builds under a "
        "context that binds `center`/`scale` to plain user functions, followed by building both obtained specs jointly in one ModelSpecs "
        "and then re-using each of them on other data; "
        "each history in its own fresh process; a history is one case",
        exhaustive=True,
        bound=f"{len(pairs)} histories of 5 calls over a {int(round(len(pairs) ** 0.5))}-call vocabulary",
    ) as b:
        rep = K.Reporter(ctx, b)
        base_pairs = run_zygotes(pairs, "0")
        _check_histories(ctx, b, rep, pairs, base_pairs, iso_results)
        rep.note()

    with ctx.bounded(
        "random-histories",
        rule=f"seeded histories of 1-5 calls over {len(SPECS)} formula specs (strings, list and dict specs; stateful transforms, "
        "context variables, two-sided / multi-part) x 4 frames (one with nulls and string index, one with other levels, one in which the text column holds numbers) x 3 outputs x "
        "builds (model_matrix, shared Formula, shared un-materialized spec), re-uses (spec.get_model_matrix, model_matrix(<earlier "
        "result>)) and joint builds of two earlier specs in one ModelSpecs; context holds mutable lists / dicts / arrays that formulas "
        "pass to transforms (knots=, contrasts=, levels=, center=) and writable float64 / float32 / int64 numpy vectors (one with NaNs) that "
        "every shipped transform (lag, center, scale, standardize, poly, bs, cr, cc, hashed, C, I, np.log) is applied to; frames have columns whose names are not identifiers ('my col', "
        "'a-b'; one frame also has 'my_col') used back-ticked in several stateful factors, and four categorical columns with formulas that interact three or four of them "
        "without all lower-order terms (A:B:G, A + A:B:G, A:B:G:H, ...; always present); some calls get a context that shadows the built-in `center`/`scale` with plain "
        "functions while other calls of the same history do not; histories revolve around one or two formulas; non-trivial = more than one call",
        exhaustive=False,
        bound="history length<=5",
    ) as b:
        rep = K.Reporter(ctx, b)
        base_rand = run_zygotes(rand, "0")
        _check_histories(ctx, b, rep, rand, base_rand, iso_results)
        rep.note()

    with ctx.bounded(
        "hash-seeds",
        rule="the random histories (and a seeded sample of the pair histories) re-run in processes started with PYTHONHASHSEED "
        "0 (reference), 1, 2, 3 and random; per-call digests must coincide; one (history, seed) is one evaluation",
        exhaustive=False,
        bound="5 hash seeds",
    ) as b:
        rep = K.Reporter(ctx, b)
        sample_pairs = random.Random(ctx.seed + 18).sample(range(len(pairs)), min(len(pairs), 400 if ctx.thorough else 50))
        hs = rand + [pairs[i] for i in sample_pairs]
        ref = base_rand + [base_pairs[i] for i in sample_pairs]
        for seed in SEEDS[1:]:
            got = run_zygotes(hs, seed)
            for h, r0, r1 in zip(hs, ref, got):
                b.case((json.dumps(h, sort_keys=True), seed), nontrivial=True)
                if r0.get("failed") or r1.get("failed"):
                    rep.fail("C18.hashseed.identical", "oracle-not-applicable:child-process-failed",
                             {"history": _describe(h), "seed": seed, "code": repro_hashseed(h)}, r0.get("failed") or r1.get("failed"))
                    continue
                # A failing build is compared as "failed": when several factors of one build are in error, WHICH of
                # them is reported first follows the iteration order of a set of factors and does vary with the hash
                # seed; the statement speaks about results (values, column order, dropped rows), not error texts.
                d0 = ["EXC" if c["digest"].startswith("EXC") else c["digest"] for c in r0["calls"]]
                d1 = ["EXC" if c["digest"].startswith("EXC") else c["digest"] for c in r1["calls"]]
                if d0 != d1:
                    i = next(j for j in range(len(d0)) if d0[j] != d1[j])
                    op = h[i]
                    rep.fail("C18.hashseed.identical", f"{op[0]}:{_spec_name(op[1]) if op[0] in BUILD_KINDS else 'reuse'}",
                             {"history": _describe(h), "call": i, "seed": seed, "code": repro_hashseed(h)},
                             f"call {i} {op}: PYTHONHASHSEED=0 {json.dumps(r0['calls'][i])[:500]} ; PYTHONHASHSEED={seed} {json.dumps(r1['calls'][i])[:500]}")
        rep.note()
    if not ctx.explanation:
        ctx.explanation = (
            "bounded stand-in only (no deductive obligations registered in this run): call histories executed in fresh "
            "processes, inputs compared with deep copies, every call compared bit for bit with the same call in a fresh "
            "process, and all digests compared across five hash seeds"
        )


def run_bounded(ctx):
    """Never raises because of what the library under test returns or raises: anything that slips past the
    per-case guards is recorded as a violation (class oracle-not-applicable:<Type>) and the run ends normally."""
    with K.guard(ctx, "C18.history.call-equals-fresh-call", "c18.run_bounded"):
        _run_bounded(ctx)
